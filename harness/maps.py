"""Construction of random in-memory charts of the five games and snapshots of their state
(shared by C08, C12, C13, C14, C15).  Values are float-exact (integers / dyadics)."""
import copy

import numpy as np
import pandas as pd

from . import frames as FR

GAMES = ["osu", "qua", "bms", "o2j", "sm"]


def map_class(game):
    if game == "osu":
        from reamber.osu.OsuMap import OsuMap
        return OsuMap
    if game == "qua":
        from reamber.quaver.QuaMap import QuaMap
        return QuaMap
    if game == "bms":
        from reamber.bms.BMSMap import BMSMap
        return BMSMap
    if game == "o2j":
        from reamber.o2jam.O2JMap import O2JMap
        return O2JMap
    if game == "sm":
        from reamber.sm.SMMap import SMMap
        return SMMap
    raise ValueError(game)


def mapset_class(game):
    """Only StepMania and O2Jam have game mapsets; the base MapSet works for every game."""
    if game == "o2j":
        from reamber.o2jam.O2JMapSet import O2JMapSet
        return O2JMapSet
    if game == "sm":
        from reamber.sm.SMMapSet import SMMapSet
        return SMMapSet
    from reamber.base.MapSet import MapSet
    return MapSet


def build_mapset(game, maps):
    cls = mapset_class(game)
    if game in ("o2j", "sm"):
        ms = cls()
        ms.maps = maps
        return ms
    return cls(maps)


def rand_time(rng):
    r = rng.random()
    if r < 0.5:
        return float(rng.randint(0, 16) * 250)
    if r < 0.85:
        return rng.randint(0, 64000) / 8.0
    return float(rng.randint(-2000, 10 ** 5))


def rand_val(rng, name, dtype):
    if name == "offset":
        return rand_time(rng)
    if name == "length":
        return float(rng.choice([125, 250, 500, 1000, rng.randint(1, 4000) / 4.0]))
    if name == "column":
        return rng.randint(0, 6)
    if name == "bpm":
        return float(rng.choice([120, 150, 187.5, 60, 240, 75, 100, 200]))
    if name == "metronome":
        return float(rng.choice([4, 4, 4, 3]))
    if name == "multiplier":
        return float(rng.choice([1, 0.5, 2, 1.25, 0.25]))
    if name == "keysounds":
        return [rng.choice(["a.wav", "b.wav"]) for _ in range(rng.randint(0, 2))]
    if dtype == "float":
        return rng.randint(0, 100) / 4.0
    if dtype == "int":
        return rng.randint(0, 100)
    if dtype == "bool":
        return rng.random() < 0.5
    if dtype == "b":
        return rng.choice(["bytes:01", "bytes:ZZ", "bytes:0A"])
    return rng.choice(["", "x.wav", "y.ogg"])


def gen_rows(rng, props, n, ties=True):
    rows = []
    for _ in range(n):
        rows.append({k: rand_val(rng, k, v[0]) for k, v in props.items()})
        if ties and len(rows) > 1 and rng.random() < 0.25:
            rows[-1]["offset"] = rng.choice(rows[:-1])["offset"]
    return rows


def mkdf(rows, props, labels="default"):
    rows = [{k: (v[6:].encode() if isinstance(v, str) and v.startswith("bytes:") else v) for k, v in r.items()} for r in rows]
    df = pd.DataFrame(rows, columns=list(props.keys()))
    for k, v in props.items():
        if v[0] in ("float", "int", "bool") and len(df):
            df[k] = df[k].astype(v[0])
        elif len(df):
            df[k] = df[k].astype(object)
    n = len(df)
    if labels == "shifted":
        df.index = range(5, 5 + n)
    elif labels == "shuffled":
        df.index = [(i * 7 + 3) % 11 + 20 for i in range(n)] if n <= 11 else range(n)
    elif labels == "dup":
        df.index = [3] * n
    return df


def gen_map_spec(rng, game, max_rows=5, allow_empty=True):
    """JSON-able description of a chart: per list name, rows and label style."""
    cls = map_class(game)
    m = cls()
    spec = {"game": game, "lists": {}}
    for name, lst in m.objs.items():
        props = lst._item_class()._props
        if name == "bpms":
            n = rng.choice([1, 1, 2, 3])
        else:
            n = rng.choice(([0] if allow_empty else []) + [1, 2, 3, max_rows])
            if name not in ("hits", "holds") and rng.random() < 0.5:
                n = 0
        rows = gen_rows(rng, props, n)
        if game == "sm":
            for r in rows:
                if "column" in r:
                    r["column"] %= 4          # the default chart type (dance-single) has 4 columns
        if name == "bpms" and rows:
            # distinct tempo times, first at or before everything else is NOT required here
            seen = set()
            for r in rows:
                while r["offset"] in seen:
                    r["offset"] += 250.0
                seen.add(r["offset"])
        spec["lists"][name] = {"rows": rows, "labels": rng.choice(["default", "default", "shifted", "shuffled"])}
    # one chart in five is built from item objects with whole-number values given as Python ints: its time columns
    # are integer-typed, as in charts written in code rather than parsed
    if rng.random() < 0.2:
        spec["build"] = "items_int"
        for ls in spec["lists"].values():
            for r in ls["rows"]:
                for k in ("offset", "length", "bpm"):
                    if k in r:
                        r[k] = float(int(r[k]))
    return spec


def _as_int_items(lst, rows):
    """the list built from item objects with Python ints (as in the library's own examples): integer-typed columns"""
    items = []
    for r in rows:
        r = {k: (v[6:].encode() if isinstance(v, str) and v.startswith("bytes:") else v) for k, v in r.items()}
        r = {k: (int(v) if isinstance(v, float) and v == int(v) else v) for k, v in r.items()}
        items.append(lst._item_class()(**r))
    return type(lst)(items)


def build_map(spec):
    cls = map_class(spec["game"])
    m = cls()
    for name, ls in spec["lists"].items():
        lst = m.objs[name]
        props = lst._item_class()._props
        if spec.get("build") == "items_int" and ls["rows"]:
            m.objs[name] = _as_int_items(lst, ls["rows"])
            continue
        # an empty list keeps the dtypes of cls([]) (what the public API produces)
        m.objs[name] = type(lst)(mkdf(ls["rows"], props, ls["labels"])) if ls["rows"] else type(lst)([])
    return m


def snapshot_list(lst, it):
    return {"cls": type(lst).__name__, "frame": FR.frame_json(lst.df, it),
            "dtypes": [str(t) for t in lst.df.dtypes.tolist()], "names": [str(c) for c in lst.df.columns]}


def snapshot_map(m, it):
    return {"cls": type(m).__name__, "lists": {k: snapshot_list(v, it) for k, v in m.objs.items()}}


def ulist_coq(snap):
    """(mkUlist cols rows) from a list snapshot (labels dropped)."""
    from . import coqfmt as F
    fj = snap["frame"]
    return f"(mkUlist {F.lst([F.z(c) for c in fj['cols']])} {F.lst([FR.row_coq(r) for _, r in fj['rows']])})"
