"""C02: StepMania reading.  The implementation parses decimal text into binary64 and multiplies floats by Fractions,
so rounding is unavoidable: model (exact rationals) and implementation are compared with tolerance 1e-6 ms
(discrete structure — charts, kinds, columns, counts, order — exactly)."""
from fractions import Fraction as Fr

from .. import coqfmt as F
from . import smgen as G

ID = "C02"
RUNNER = "Corr.RunC02"
CASE_TYPE = "c02case"
RUNNER_TARGETS = ["Corr/RunC02.vo"]
PROOF_TARGETS = ["Props/C02.vo"]
PROPS_FILE = "Props/C02.v"
PROPS_MODULE = "Props.C02"
RULE = ("seeded generator of .sm texts: header tags in varying order with comments/blank lines, #OFFSET of both signs, "
        "1..4 #BPMS changes on the 1/16-beat grid (the finite-decimal part of the 1/48 grid) incl. mid-measure, "
        "1..3 charts over every chart type with a declared key count, measures of 4..48 and 192 rows, all symbols "
        "1 2 3 4 M L F K with holds/rolls spanning measures, comments between rows; ~8% texts without a #STOPS tag; "
        "~12% malformed/out-of-domain texts for the correspondence only (open heads, stray tails, 6-row measures, off-grid "
        "tempo beats, one wide row, every row of a chart wider / narrower than its type's declared key count or a type without "
        "one, missing tags); a quarter of the texts are written to disk (their utf-8 bytes) and read through the "
        "file-level wrapper SMMapSet.read_file(path) instead of SMMapSet.read(text); non-trivial = at least 3 objects or 2 tempo changes or 2 charts; "
        "distinct by hash of the text")
ASSUMPTIONS = [
    "read_file = read after Python's text-mode decoding (utf8, universal newlines): the generated texts contain no carriage return, "
    "so the text the model reads is the text the wrapper passes on; on a text with CR LF the two differ in the unchanged tree "
    "(SMMapSet.read of a str with CR LF line ends mis-counts rows, read_file of the same bytes does not) - outside the dialect of c02_domb",
    "binary64 rounding inside the reader (float(text), float*Fraction, reseat divisions) is not modelled: times are compared "
    "with tolerance 1e-6 ms, tempo values with relative tolerance 1e-9; all discrete structure must be equal",
    "the decimal grammar modelled for float()/int() is [+-]digits[.digits][e[+-]digits]; inf/nan/underscores are outside the model",
    "non-empty #STOPS is outside the model and the property",
    "dialect required by the domain predicate of the whole-file theorem (Coq: Formats/SMReadDom.v c02_domb, evaluated as wf on every "
    "text): no ';' ':' ',' inside a comment, comments are whole lines placed before a tag or inside note data, nothing but blanks "
    "after the last ';', a tag is '#' followed by non-blank characters other than '#' and '/', header values carry no colon and no "
    "comment, rows carry no blanks, one #OFFSET and one #BPMS item both before any #STOPS item, #STOPS empty, "
    "#OFFSET/#SAMPLESTART/#SAMPLELENGTH/#BPMS values parse; each clause excludes a corner on which reader and format disagree "
    "(seven _refuted theorems with concrete texts, replayed on the real code)",
]
TRUSTED = ["harness/tables/sm.py (live SMConst / METRONOME / MAX_SNAP / MAX_KEYS / chart-type tables)"]
MANIFEST = dict(
    text="Machine-checked whole-file theorem (Coq 8.16.1, C02_sm_read_denotes, closed under the global context) about an executable "
         "Gallina model of SMMapSet.read (';' token split + strip, '#NOTES:' dispatch, _read_metadata incl. the rfind('#') comment hack, "
         "_read_bpms, SMMap.read, 4-beat slicing, Fraction(j,len), symbol switch, per-column head/tail pairing, _expand, times through the "
         "C10 timing-map model, tempo list through the C11 reseating model): for EVERY .sm text in the decidable domain c02_domb (a boolean "
         "predicate on the text: well formed for the reference semantics sm_denote, rows per measure a multiple of 4, #BPMS beats distinct "
         "on the 1/48 grid, reader dialect, header items) the read succeeds and returns exactly what sm_denote defines: one chart per "
         "#NOTES item in file order with its header fields; per kind (hits, holds, rolls, mines, lifts, fakes, keysounds) a permutation of "
         "the denoted objects (column, time, length) - nothing invented, nothing dropped - with times = Integrate.time_of of the row "
         "position (beat 4m+4r/n) under the #BPMS script from -#OFFSET, holds/rolls paired with the closing '3'; every tempo change in each "
         "chart's tempo list at its ms position; hence the oracle read_spec (tolerance 0) accepts the model's result. "
         "C02_sm_read_tempo_list_on_lines: if moreover every #BPMS beat is a multiple of 4 (decidable guard sm_tempo_on_lines) the reader "
         "does not reseat and every chart's tempo list IS the denoted list - same count, same order, each row (ms position, the file's bpm, "
         "metronome 4) (tempo_exact; used by C09 for the StepMania-source pairs). Proved bottom-up: "
         "equivalence of the two token-level parsers on the dialect (comment removal commutes with the ';' ':' ',' splits), row extraction, "
         "simulation of the reference interpreter by the reader loop (completeness), the C10 domain DERIVED from the 1/48 grid (table "
         "obligation: every k/48 is a snapper fraction), C11 reseating keeps every tempo time, strict monotonicity of time for key "
         "distinctness. Seven _refuted theorems show the statement is false over the former, laxer domain (corners of the comment/tag "
         "dialect; the real code behaves like the model on each). Each run additionally evaluates in Coq: model = implementation (1e-6 ms) "
         "and read_spec on the implementation's output for every generated text in c02_domb.",
    note="Trusted: Coq kernel+VM, generator/serialiser, table translator; binary64 rounding measured (tolerance 1e-6 ms) not proved. "
         "Nothing is _partial any more. Robustness corners of the pinned reader found while proving (all outside the claimed dialect, "
         "recorded as _refuted theorems, not repaired): a ';' inside a comment makes the rest of the comment line an item; a comment after "
         "the last ';' ending in a known tag raises IndexError; '#X#NOTES:' is taken for a chart (IndexError); '#OFFSET :v' is obeyed; "
         "a malformed overridden number raises. Former finding sm-read-no-stops-tag is fixed by d64b5ab (OLD variant kept for its witness).",
    technique="Coq proof over executable model + vm_compute correspondence against the implementation + reference interpreter",
    design="4/C02")

ROWS = [4, 4, 4, 8, 8, 12, 16, 16, 24, 32, 48]
SIMPLE_SYMS = "1MLFK"


def _chart_rows(rng, keys, malformed=None):
    """List of measures, each a list of row strings.  Holds/rolls are opened and closed per column."""
    n_meas = rng.choice([1, 1, 2, 2, 3, 4])
    dens = []
    for _ in range(n_meas):
        dens.append(192 if rng.random() < 0.02 else rng.choice(ROWS))
    if malformed == "rows6":
        dens[rng.randrange(n_meas)] = rng.choice([6, 3, 10, 5])
    density = rng.choice([0.05, 0.1, 0.2, 0.4])
    open_col = [None] * keys
    measures = []
    total = sum(dens)
    budget = rng.choice([3, 6, 10, 16])
    p = min(density, budget / max(1, total))
    for mi, n in enumerate(dens):
        rows = []
        for r in range(n):
            row = ["0"] * keys
            if rng.random() < p * keys / 2 or (mi == 0 and r == 0 and rng.random() < 0.5):
                for c in rng.sample(range(keys), rng.choice([1, 1, 1, 2, min(3, keys)])):
                    if open_col[c]:
                        if rng.random() < 0.7:
                            row[c] = "3"
                            open_col[c] = None
                    else:
                        x = rng.random()
                        if x < 0.35:
                            row[c] = "1"
                        elif x < 0.55:
                            row[c] = "2"; open_col[c] = "2"
                        elif x < 0.7:
                            row[c] = "4"; open_col[c] = "4"
                        else:
                            row[c] = rng.choice(SIMPLE_SYMS)
            rows.append(row)
        measures.append(rows)
    # close what is still open (malformed "open": leave one head open)
    pending = [c for c in range(keys) if open_col[c]]
    if malformed == "open":
        if pending:
            pending = pending[1:]
        elif measures[-1][-1][0] == "0":
            measures[-1][-1][0] = rng.choice("24")
    if pending:
        rows = [["0"] * keys for _ in range(4)]
        for c in pending:
            rows[rng.randrange(4)][c] = "3"
        measures.append(rows)
    if malformed == "stray":
        m = measures[0]
        for i in range(len(m)):
            if m[i][0] == "0":
                m[i][0] = "3"
                break
    if malformed == "wide":
        measures[0][0] = measures[0][0] + ["1"] * (19 - keys if rng.random() < 0.5 else 1)
    return [["".join(r) for r in m] for m in measures]


def _notes_text(rng, ty, keys, malformed=None):
    meas = _chart_rows(rng, keys, malformed)
    desc, diff = G.word(rng), rng.choice(["Beginner", "Easy", "Medium", "Hard", "Challenge", "Edit", ""])
    meter = rng.choice([1, 5, 12, 27, 0])
    radar = ",".join(rng.choice(["0.000", "0.5", "1", "0.125", "0.733"]) for _ in range(5))
    style = rng.random()
    out = []
    if rng.random() < 0.7:
        out.append(f"//---------------{ty} - {desc.replace(':', '').replace(';', '').replace(',', '')}----------------")
    ind = rng.choice(["     ", "  ", "", "\t"])
    out.append("#NOTES:")
    out += [f"{ind}{ty}:", f"{ind}{desc}:", f"{ind}{diff}:", f"{ind}{meter}:", f"{ind}{radar}:"]
    for i, m in enumerate(meas):
        rows = []
        for r in m:
            rows.append(r)
            x = rng.random()
            if x < 0.04:
                rows.append("")
            elif x < 0.07:
                rows.append("// " + rng.choice(["beat", "x", "measure 3", "#", "a=b"]))
        if i:
            if style < 0.5:
                out.append(",")
            elif style < 0.8:
                out.append(f",  // measure {i}")
            elif out[-1] and "//" not in out[-1] and ":" not in out[-1]:
                out[-1] = out[-1] + ","
            else:
                out.append(",")
        out += rows
    out.append(";")
    return out


def _header(rng, malformed=None, no_stops=False, exact_tempo=False):
    items = []
    for tag in G.TEXT_TAGS:
        if rng.random() < 0.45:
            items.append(f"#{tag}:{G.word(rng).replace(':', '')};")
    n = rng.choice([1, 1, 2, 2, 3, 4])
    beats = [Fr(0)]
    for _ in range(n - 1):
        step = rng.choice([Fr(4), Fr(4), Fr(8), Fr(1), Fr(2), Fr(1, 2), Fr(3, 2), Fr(5, 4), Fr(1, 16), Fr(7, 16), Fr(3), Fr(13, 8)])
        beats.append(beats[-1] + step)
    if malformed == "offgrid" and n > 1:
        beats[-1] = beats[-1] + Fr(1, 3)
    if malformed == "offgrid" and n == 1:
        beats.append(Fr(4, 3))
    pairs = []
    for b in beats:
        v = G.bpm_value(rng) if not exact_tempo else Fr(rng.choice(G.EXACT_BPMS))
        bs = f"{float(b):.3f}" if (b.denominator in (1, 2, 4, 8) or malformed == "offgrid") else G.dec(b)
        vs = f"{float(v):.3f}" if rng.random() < 0.6 else G.dec(v)
        pairs.append(f"{bs}={vs}")
    if rng.random() < 0.2:
        rng.shuffle(pairs)
    sep = rng.choice([",", "\n,", ",\n"])
    off = rng.choice([Fr(0), Fr(-1, 2), Fr(1, 4), Fr(rng.randint(-3000, 3000), 1000), Fr(-41, 1000), Fr(rng.randint(-800, 800), 64)])
    core = [f"#OFFSET:{G.dec(off, rng.choice([0, 3]))};", "#BPMS:" + sep.join(pairs) + ";"]
    if malformed == "nooffset":
        core = core[1:]
    if rng.random() < 0.5:
        core.reverse()
    tail = []
    if not no_stops:
        tail.append(rng.choice(["#STOPS:;", "#STOPS:;", "#STOPS:\n;"]))
    if rng.random() < 0.5:
        tail.append(f"#SAMPLESTART:{rng.choice(['0.000', '68.502', '12.5'])};")
    if rng.random() < 0.5:
        tail.append(f"#SAMPLELENGTH:{rng.choice(['26.000', '10', '0.01'])};")
    if rng.random() < 0.5:
        tail.append(f"#SELECTABLE:{rng.choice(['YES', 'YES', 'NO'])};")
    k = rng.randint(0, len(items))
    lines = items[:k] + core + items[k:] + tail
    out = []
    for l in lines:
        x = rng.random()
        if x < 0.08:
            out.append("")
        elif x < 0.16:
            out.append("// " + rng.choice(["header", "by reamber", "# tag", "x = 1"]))
        out.append(l)
    return out


def gen_text(rng, types, malformed=None, no_stops=False, exact_tempo=False):
    lines = _header(rng, malformed if malformed in ("offgrid", "nooffset") else None, no_stops, exact_tempo)
    n_charts = rng.choice([1, 1, 1, 2, 2, 3])
    for i in range(n_charts):
        ty, keys = rng.choice(types)
        lines += _notes_text(rng, ty, keys, malformed if (i == 0 and malformed in ("open", "stray", "rows6", "wide")) else None)
        if rng.random() < 0.3:
            lines.append("")
    text = "\n".join(lines)
    if rng.random() < 0.5:
        text += "\n"
    return text


WIDE_TYPES = [("dance-couple", 8), ("pump-couple", 10), ("dance-single", 5), ("kb7-single", 8), ("dance-double", 6),
              ("bm-versus5", 12), ("pump-routine", 10), ("dance-couple", 6)]


def generate(rng, tier):
    n = 260 if tier == "quick" else 6000
    types = G.supported_types()
    cases = []
    for i in range(n):
        r = rng.random()
        ex = rng.random() < 0.5
        if r < 0.12:
            mal = rng.choice(["open", "stray", "rows6", "offgrid", "wide", "nooffset", "widetype", "widetype"])
            # "widetype": every row of a chart wider / narrower than the chart type's entry in reamber's key table (dance-couple
            # files in the wild have 8 columns, the table says 4), or a type without an entry: outside the property's
            # "supported chart type / key count", so model-vs-implementation only (the reader takes the columns from the rows)
            cases.append({"kind": "read", "dom": False, "cmp_bpms": ex,
                          "text": gen_text(rng, WIDE_TYPES if mal == "widetype" else types, malformed=mal, exact_tempo=ex)})
        elif r < 0.20:
            cases.append({"kind": "read", "dom": True, "cmp_bpms": ex, "text": gen_text(rng, types, no_stops=True, exact_tempo=ex)})
        else:
            cases.append({"kind": "read", "dom": True, "cmp_bpms": ex, "text": gen_text(rng, types, exact_tempo=ex)})
        if rng.random() < 0.25:
            cases[-1]["file"] = True      # through the file-level wrapper SMMapSet.read_file(path)
    return cases


# ------------------------------------------------------------------ implementation side
def execute(case):
    from reamber.sm.SMMapSet import SMMapSet
    try:
        if case.get("file"):
            import os, tempfile
            with tempfile.TemporaryDirectory() as d:
                path = os.path.join(d, "case.sm")
                with open(path, "wb") as f:          # the bytes of the text, no newline translation on the way out
                    f.write(case["text"].encode("utf8"))
                ms = SMMapSet.read_file(path)
        else:
            ms = SMMapSet.read(case["text"])
    except (IndexError, ValueError, TypeError, AttributeError, ZeroDivisionError, KeyError) as e:
        return {"v": None, "exc": type(e).__name__ + ": " + str(e)[:120]}
    try:
        return {"v": G.snap_set(ms)}
    except ValueError as e:
        if "non-finite" not in str(e) or case.get("dom", True):
            raise
        # a text outside the domain (e.g. no #OFFSET tag at all) may be read to a chart holding NaN times: it has no
        # exact representation; such a case is outside every domain and is recorded as "no result"
        return {"v": None, "exc": "NonFinite: the chart read holds a NaN time"}


# ------------------------------------------------------------------ Coq side
def emit(case, out):
    tbl, idx = G.coq_text(case["text"])
    o = "None" if out["v"] is None else f"(Some {G.coq_set(out['v'])})"
    return f"C02Read {F.boolean(case.get('dom', True))} {F.boolean(case.get('cmp_bpms', False))} (1#1000000) {tbl} {idx} {o}"


def _count_objs(text):
    body = [l for l in text.split("\n") if l and "//" not in l and "#" not in l and ":" not in l]
    return sum(1 for l in body for ch in l if ch in "124MLFK")


def nontrivial(case, out):
    t = case["text"]
    return _count_objs(t) >= 3 or t.count("=") >= 2 or t.count("#NOTES") >= 2


def bucket(case, out):
    t = case["text"]
    k = f"charts={t.count('#NOTES')}/tempo={min(t.count('='), 4)}" + ("/file" if case.get("file") else "")
    if not case.get("dom", True):
        k += "/out-of-domain"
    if "#STOPS" not in t:
        k += "/no-stops-tag"
    if out.get("v") is None:
        k += "/exc"
    return k


def classify(case, out, kind):
    # the former finding sm-read-no-stops-tag is fixed (d64b5ab): nothing is treated as known any more
    return None


def describe(case, out):
    return f"read{'_file' if case.get('file') else ''} dom={case.get('dom', True)} chars={len(case['text'])} charts={case['text'].count('#NOTES')} -> {'exception ' + out.get('exc', '') if out.get('v') is None else 'ok'}"


def shrink(case):
    if case.get("file"):
        c = dict(case); del c["file"]; yield c
    lines = case["text"].split("\n")
    for i in range(len(lines)):
        c = dict(case)
        c["text"] = "\n".join(lines[:i] + lines[i + 1:])
        yield c
