"""C16: timed lists behave like ordered collections of their rows.
Histories of list operations are run on the real list classes of all five games; every transition
(state before, operation, what the implementation returned) is checked in Coq against the frame model
(corr) and against the plain-sequence specification (spec)."""
import importlib
import inspect
import pkgutil
from fractions import Fraction as Fr

import numpy as np
import pandas as pd

from .. import coqfmt as F
from .. import frames as FR

ID = "C16"
RUNNER = "Corr.RunC16"
CASE_TYPE = "c16case"
RUNNER_TARGETS = ["Corr/RunC16.vo"]
PROOF_TARGETS = ["Props/C16.vo"]
PROPS_FILE = "Props/C16.v"
PROPS_MODULE = "Props.C16"
RULE = ("for every concrete list class of the five games (enumerated from the live package): random lists (0..7 rows; duplicate, negative, "
        "fractional offsets; arbitrary row labels; unsorted; a fifth of them late in the chart (5 min .. 1 h) with rows 0.125 .. 2 ms apart) driven through random operation histories (len, [int], [slice], iter, "
        "first/last offset, sorted, append(+sort), after/before/between with every flag combination and the hold head/tail variants, "
        "thresholds drawn from the offsets present so that inclusive flags matter); one case per transition; constructor cases "
        "(from items, from_dict, empty(n), cls([])); non-trivial = the state has >=2 rows; distinct by hash of the canonical JSON")
ASSUMPTIONS = [
    "column order of a DataFrame is not compared (frames are serialised with columns sorted by interned id)",
    "pandas sort_values is not stable: sorted outputs are compared up to the order of rows with equal offsets",
    "offsets/lengths are dyadic rationals so that offset+length is exact in binary64",
]
TRUSTED = ["harness/frames.py (frame serialisation: interning of names/strings, exact numerics)"]
MANIFEST = dict(
    text="Refinement proof in Coq: every TimedList/HoldList operation of the frame model (rows with labels) commutes with the same "
         "operation on the plain sequence of rows (abs (op f) = op_spec (abs f)), lifted to all operation sequences by induction; "
         "the model is tied to the code by per-transition correspondence along implementation histories over all list classes of "
         "all five games, and the sequence specification is evaluated in Coq on every implementation output.",
    note="Trusted: Coq kernel+VM, harness (generator, frame serialiser); pandas itself is outside the model (only the subset semantics); "
         "HoldList.last_offset() on an empty list and list-valued defaults are known findings.",
    technique="Coq refinement proof (frame model -> sequence spec) + vm_compute correspondence per transition",
    design="4/C16")


def list_classes():
    import reamber
    from reamber.base.lists.TimedList import TimedList
    seen = {}
    for m in pkgutil.walk_packages(reamber.__path__, "reamber."):
        if ".lists" not in m.name and not m.name.endswith("lists"):
            continue
        mod = importlib.import_module(m.name)
        for n, o in vars(mod).items():
            if inspect.isclass(o) and issubclass(o, TimedList) and not inspect.isabstract(o):
                seen[o.__module__ + "." + o.__name__] = o
    return [seen[k] for k in sorted(seen)]


_CLASSES = None


def classes():
    global _CLASSES
    if _CLASSES is None:
        _CLASSES = list_classes()
    return _CLASSES


def _rand_time(rng):
    r = rng.random()
    if r < 0.5:
        return float(rng.randint(-3, 12) * 250)
    if r < 0.8:
        return rng.randint(-4000, 8000) / 8.0
    return float(rng.randint(-10 ** 6, 10 ** 6))


def _rand_val(rng, name, dtype):
    if name == "offset":
        return _rand_time(rng)
    if name == "length":
        return float(rng.choice([0, 125, 250, 500, 1000, rng.randint(1, 4000) / 4.0, -250]))
    if name == "column":
        return rng.randint(0, 9)
    if name in ("bpm",):
        return float(rng.choice([120, 150, 175.5, 60, 240]))
    if name == "metronome":
        return float(rng.choice([4, 4, 3, 5]))
    if name == "multiplier":
        return float(rng.choice([1, 0.5, 2, 1.25]))
    if name == "keysounds":
        return [rng.choice(["a.wav", "b.wav"]) for _ in range(rng.randint(0, 2))]
    if dtype == "float":
        return rng.randint(-100, 100) / 4.0
    if dtype == "int":
        return rng.randint(0, 100)
    if dtype == "bool":
        return rng.random() < 0.5
    if dtype == "b":
        return rng.choice(["bytes:01", "bytes:ZZ", "bytes:0A"])
    return rng.choice(["", "x.wav", "y:z", "ü"])


def _gen_rows(rng, props, n, ties=True):
    rows = []
    # late in a chart, rows a millisecond or two apart: "on the bound" must stay exact equality whatever the magnitude
    late = ties and rng.random() < 0.2
    base = rng.choice([300000.0, 600000.0, 3600000.0]) if late else 0.0
    for _ in range(n):
        rows.append({k: _rand_val(rng, k, v[0]) for k, v in props.items()})
        if late:
            rows[-1]["offset"] = base + float(rng.randint(0, 40)) * 250
        if ties and len(rows) > 1 and rng.random() < 0.3:
            rows[-1]["offset"] = rng.choice(rows[:-1])["offset"] + (rng.choice([0.0, 0.5, 1.0, 2.0, -1.0, 0.125]) if late else 0.0)
    return rows


def _gen_ops(rng, hold, rows, props, n_ops):
    offs = [r["offset"] for r in rows] or [0.0]
    tails = [r["offset"] + r.get("length", 0.0) for r in rows] or [0.0]

    def t():
        r = rng.random()
        if r < 0.6:
            return rng.choice(offs + tails)
        if r < 0.8:
            return rng.choice(offs) + rng.choice([-0.125, 0.125, 250, -250])
        return _rand_time(rng)
    ops = []
    for _ in range(n_ops):
        k = rng.random()
        b = lambda: rng.random() < 0.5
        if k < 0.06:
            ops.append({"op": "len"})
        elif k < 0.16:
            ops.append({"op": "getint", "i": rng.randint(-len(rows) - 1, len(rows))})
        elif k < 0.28:
            def e():
                return rng.choice([None, None, rng.randint(-len(rows) - 2, len(rows) + 2)])
            ops.append({"op": "slice", "start": e(), "stop": e(), "step": rng.choice([None, None, 1, 2, -1, -2, 3])})
        elif k < 0.34:
            ops.append({"op": "iter"})
        elif k < 0.44:
            ops.append({"op": rng.choice(["first", "last", "firstlast"])})
        elif k < 0.54:
            ops.append({"op": "sorted", "reverse": b()})
        elif k < 0.64:
            ops.append({"op": "append", "rows": _gen_rows(rng, props, rng.choice([1, 1, 2, 3, 4]), ties=False), "sort": b(),
                        "how": rng.choice(["list", "item", "df"])})
        elif k < 0.76:
            ops.append({"op": "after", "t": t(), "incl": b()})
        elif k < 0.88:
            ops.append({"op": "before", "t": t(), "incl": b()})
        elif k < 0.94 or not hold:
            lo, hi = sorted([t(), t()])
            ops.append({"op": "between", "lo": lo, "hi": hi, "i1": b(), "i2": b(), "as_bool": b()})
        else:
            kind = rng.choice(["hafter", "hbefore", "hbetween"])
            lo, hi = sorted([t(), t()])
            ops.append({"op": kind, "t": t(), "lo": lo, "hi": hi, "incl": b(), "i1": b(), "i2": b(), "head": b(), "tail": b()})
    return ops


def generate(rng, tier):
    cls = classes()
    reps = 5 if tier == "quick" else 80
    cases = []
    for ci, c in enumerate(cls):
        props = c._item_class()._props
        from reamber.base.lists.notes.HoldList import HoldList
        hold = issubclass(c, HoldList)
        for _ in range(reps):
            n = rng.choice([0, 1, 2, 3, 4, 5, 7])
            rows = _gen_rows(rng, props, n)
            labels = rng.choice(["default", "shifted", "shuffled", "dup"])
            cases.append({"kind": "history", "cls": ci, "cls_name": c.__name__, "rows": rows, "labels": labels,
                          "ops": _gen_ops(rng, hold, rows, props, rng.choice([3, 5, 8]) if tier == "quick" else rng.choice([5, 12, 25]))})
        # operations on an EMPTY receiver (freshly empty, or emptied by a filter): append of several unsorted rows with and
        # without sort, then further operations on the result
        for srt in (True, False):
            rows3 = _gen_rows(rng, props, 3, ties=False)
            rows3.sort(key=lambda r: -r["offset"])
            pre = [] if rng.random() < 0.5 else [{"op": "after", "t": 10.0 ** 9, "incl": False}]
            cases.append({"kind": "history", "cls": ci, "cls_name": c.__name__, "rows": [] if not pre else _gen_rows(rng, props, 2),
                          "labels": "default",
                          "ops": pre + [{"op": "append", "rows": rows3, "sort": srt, "how": rng.choice(["list", "df"])},
                                        {"op": "first"}, {"op": "getint", "i": 0}, {"op": "len"}]})
        for kind in ("items", "from_dict", "empty", "nil"):
            n = rng.choice([0, 1, 2, 4])
            cases.append({"kind": "ctor", "ctor": kind, "cls": ci, "cls_name": c.__name__, "n": n,
                          "rows": _gen_rows(rng, props, n), "partial": rng.random() < 0.5})
    return cases


# ------------------------------------------------------------------ implementation side
def _mkdf(rows, props, labels, rng_seed=0):
    rows = [{k: (v[6:].encode() if isinstance(v, str) and v.startswith("bytes:") else v) for k, v in r.items()} for r in rows]
    df = pd.DataFrame(rows, columns=list(props.keys()))
    for k, v in props.items():
        if v[0] in ("float", "int", "bool") and len(df):
            df[k] = df[k].astype(v[0])
        elif len(df):
            df[k] = df[k].astype(object)
    n = len(df)
    if labels == "shifted":
        df.index = range(5, 5 + n)
    elif labels == "shuffled":
        df.index = [(i * 7 + 3) % 11 + 20 for i in range(n)] if n <= 11 else range(n)
    elif labels == "dup":
        df.index = [3] * n
    return df


def _slice_norm(o, n):
    s = slice(o["start"], o["stop"], o["step"]).indices(n)
    return s


def _t(x):
    return F.frac_json(Fr(x))


def _optq(v):
    if v is None:
        return None
    return _t(v)


def _apply(lst, o, it, props):
    """returns (output json, next list or None)"""
    from reamber.base.lists.notes.HoldList import HoldList
    k = o["op"]
    if k == "len":
        return {"t": "nat", "v": len(lst)}, None
    if k == "getint":
        try:
            item = lst[o["i"]]
        except IndexError:
            return {"t": "item", "v": None}, None
        d = item.data.to_dict()
        names = FR.names_sorted(list(d.keys()))
        return {"t": "item", "v": [FR.cell_json(d[n], it) for n in names], "cols": [FR.col_id(n) for n in names]}, None
    if k == "slice":
        r = lst[slice(o["start"], o["stop"], o["step"])]
        return {"t": "frame", "v": FR.frame_json(r.df, it)}, r
    if k == "iter":
        items = list(lst)
        names = None
        rows = []
        for i_ in items:
            d = i_.data.to_dict()
            nm = FR.names_sorted(list(d.keys()))
            if names is None:
                names = nm
            rows.append([FR.cell_json(d[n], it) for n in nm])
        if names is None:
            allowed = set(lst._item_class()._from_series_allowed_names())
            names = FR.names_sorted([c for c in lst.df.columns if c in allowed])
        return {"t": "items", "cols": [FR.col_id(n) for n in names], "v": rows}, None
    if k in ("first", "last", "firstlast"):
        try:
            if k == "first":
                return {"t": "time", "v": _optq(lst.first_offset())}, None
            if k == "last":
                return {"t": "time", "v": _optq(lst.last_offset())}, None
            a, b = lst.first_last_offset()
            return {"t": "time2", "a": _optq(a), "b": _optq(b)}, None
        except ValueError as e:
            return {"t": "exc", "exc": str(e)[:80]}, None
    if k == "sorted":
        r = lst.sorted(reverse=o["reverse"])
        return {"t": "frame", "v": FR.frame_json(r.df, it)}, r
    if k == "append":
        cls = type(lst)
        rows = o["rows"]
        how = o["how"]
        if how == "item" or len(rows) == 1 and how != "df":
            val = cls._item_class()(**rows[0])
            rows = rows[:1]
        elif how == "df":
            val = _mkdf(rows, props, "default")
        else:
            val = cls(_mkdf(rows, props, "default"))
        o["_rows_used"] = rows
        r = lst.append(val, sort=o["sort"])
        return {"t": "frame", "v": FR.frame_json(r.df, it)}, r
    if k == "after":
        r = lst.after(o["t"], include_end=o["incl"])
    elif k == "before":
        r = lst.before(o["t"], include_end=o["incl"])
    elif k == "between":
        ie = (o["i1"], o["i2"])
        if o["as_bool"] and o["i1"] == o["i2"] and not isinstance(lst, HoldList):
            ie = o["i1"]
        r = lst.between(o["lo"], o["hi"], include_ends=ie)
    elif k == "hafter":
        r = lst.after(o["t"], include_end=o["incl"], include_tail=o["tail"])
    elif k == "hbefore":
        r = lst.before(o["t"], include_end=o["incl"], include_head=o["head"])
    elif k == "hbetween":
        r = lst.between(o["lo"], o["hi"], include_ends=(o["i1"], o["i2"]), include_head=o["head"], include_tail=o["tail"])
    else:
        raise ValueError(k)
    return {"t": "frame", "v": FR.frame_json(r.df, it)}, r


def _decode(x):
    if isinstance(x, str) and x.startswith("bytes:"):
        return x[6:].encode()
    if isinstance(x, list):
        return [_decode(y) for y in x]
    if isinstance(x, dict):
        return {k: _decode(v) for k, v in x.items()}
    return x


def execute(case):
    case = _decode(case)
    c = classes()[case["cls"]]
    if c.__name__ != case["cls_name"]:
        raise RuntimeError("class table changed between generation and execution")
    from reamber.base.lists.notes.HoldList import HoldList
    props = c._item_class()._props
    it = FR.Interner()
    allowed = sorted({FR.col_id(n) for n in c._item_class()._from_series_allowed_names()})
    declared = FR.names_sorted(list(props.keys()))
    if case["kind"] == "ctor":
        rows = case["rows"]
        defaults = [FR.cell_json(props[n][1], it) for n in declared]
        items_json = [[FR.cell_json(r[n], it) for n in declared] for r in rows]
        kind = case["ctor"]
        if kind == "items":
            lst = c([c._item_class()(**r) for r in rows])
            if not rows:
                items_json = []
        elif kind == "from_dict":
            if case["partial"] and rows:
                # leave out a non-mandatory key: it must be filled with the declared default
                drop = [k for k in props if k not in ("offset", "column", "length", "bpm")]
                if drop:
                    dk = drop[0]
                    rows = [{k: v for k, v in r.items() if k != dk} for r in rows]
                    for j in items_json:
                        j[declared.index(dk)] = FR.cell_json(props[dk][1], it)
            try:
                lst = c.from_dict(rows)
            except ValueError as e:
                return {"declared": [FR.col_id(n) for n in declared], "defaults": defaults, "items": items_json,
                        "out": None, "exc": str(e)[:100], "out_names": []}
        elif kind == "empty":
            lst = c.empty(case["n"])
            items_json = []
        else:
            lst = c([])
            items_json = []
        return {"declared": [FR.col_id(n) for n in declared], "defaults": defaults, "items": items_json,
                "out": FR.frame_json(lst.df, it), "out_names": list(map(str, lst.df.columns))}
    lst = c(_mkdf(case["rows"], props, case["labels"])) if case["rows"] else c([])
    steps = []
    for o in case["ops"]:
        before = FR.frame_json(lst.df, it)
        o2 = dict(o)
        out, nxt = _apply(lst, o2, it, props)
        if "_rows_used" in o2:
            o2["rows_json"] = [[FR.cell_json(r[n], it) for n in declared] for r in o2["_rows_used"]]
            del o2["_rows_used"]
        if o2["op"] == "slice":
            o2["norm"] = list(_slice_norm(o2, len(lst)))
        steps.append({"before": before, "op": o2, "out": out})
        if nxt is not None:
            lst = nxt
    return {"hold": issubclass(c, HoldList), "allowed": allowed, "steps": steps}


# ------------------------------------------------------------------ Coq side
def _op_coq(o):
    k = o["op"]
    q = lambda x: F.q(Fr(x))
    b = F.boolean
    if k == "len":
        return "OLen"
    if k == "getint":
        return f"(OGetInt {F.z(o['i'])})"
    if k == "slice":
        a, s, st = o["norm"]
        return f"(OSlice {F.z(a)} {F.z(s)} {F.z(st)})"
    if k == "iter":
        return "OIter"
    if k == "first":
        return "OFirst"
    if k == "last":
        return "OLast"
    if k == "firstlast":
        return "OFirstLast"
    if k == "sorted":
        return f"(OSorted {b(o['reverse'])})"
    if k == "append":
        return f"(OAppend {F.lst([FR.row_coq(r) for r in o['rows_json']])} {b(o['sort'])})"
    if k == "after":
        return f"(OAfter {q(o['t'])} {b(o['incl'])})"
    if k == "before":
        return f"(OBefore {q(o['t'])} {b(o['incl'])})"
    if k == "between":
        return f"(OBetween {q(o['lo'])} {q(o['hi'])} {b(o['i1'])} {b(o['i2'])})"
    if k == "hafter":
        return f"(OHAfter {q(o['t'])} {b(o['incl'])} {b(o['tail'])})"
    if k == "hbefore":
        return f"(OHBefore {q(o['t'])} {b(o['incl'])} {b(o['head'])})"
    if k == "hbetween":
        return f"(OHBetween {q(o['lo'])} {q(o['hi'])} {b(o['i1'])} {b(o['i2'])} {b(o['head'])} {b(o['tail'])})"
    raise ValueError(k)


def _optq_coq(v):
    return "None" if v is None else f"(Some {F.q(F.frac_from_json(v))})"


def _out_coq(o):
    t = o["t"]
    if t == "nat":
        return f"(RNat {F.nat(o['v'])})"
    if t == "item":
        return "(RItem None)" if o["v"] is None else f"(RItem (Some {FR.row_coq(o['v'])}))"
    if t == "frame":
        return f"(RFrame {FR.frame_coq(o['v'])})"
    if t == "items":
        return f"(RItems {F.lst([F.z(c) for c in o['cols']])} {F.lst([FR.row_coq(r) for r in o['v']])})"
    if t == "time":
        return f"(RTime {_optq_coq(o['v'])})"
    if t == "time2":
        return f"(RTime2 {_optq_coq(o['a'])} {_optq_coq(o['b'])})"
    if t == "exc":
        return "RExc"
    raise ValueError(t)


def emit_all(case, out):
    if case["kind"] == "ctor":
        kind = {"items": 0, "from_dict": 1, "empty": 2, "nil": 3}[case["ctor"]]
        return [f"CCtor {F.z(kind)} {F.lst([F.z(c) for c in out['declared']])} {FR.row_coq(out['defaults'])} "
                f"{F.nat(case['n'])} {F.lst([FR.row_coq(r) for r in out['items']])} "
                + ("None" if out["out"] is None else f"(Some {FR.frame_coq(out['out'])})")]
    terms = []
    for s in out["steps"]:
        terms.append(f"CStep {F.boolean(out['hold'])} {F.lst([F.z(a) for a in out['allowed']])} "
                     f"{FR.frame_coq(s['before'])} {_op_coq(s['op'])} {_out_coq(s['out'])}")
    return terms


def emit(case, out):
    # one Coq case per history is too coarse for localisation; the driver supports multi-term cases through emit_all
    raise NotImplementedError


def nontrivial(case, out):
    return len(case["rows"]) >= 2


def bucket(case, out):
    if case["kind"] == "ctor":
        return "ctor/" + case["ctor"]
    return "history/" + ("hold" if out.get("hold") else "plain")


def classify(case, out, kind, sub=None):
    if case["kind"] == "ctor":
        if out.get("out") is None:
            if case["ctor"] == "from_dict" and "does not match length of index" in out.get("exc", ""):
                return "from-dict-list-default-raises"
            return None
        if case["ctor"] == "items" and case["cls_name"] == "OsuSvList" and "metronome" in out.get("out_names", []):
            return "osusv-item-carries-undeclared-metronome"
        if case["ctor"] == "empty":
            names = out.get("out_names", [])
            if "index" in names:
                return "empty-extra-index-column"
            if case["n"] > 0 and any(c[0] == "nan" for r in out["out"]["rows"] for c in r[1]):
                return "empty-list-default-becomes-nan"
        if case["ctor"] == "from_dict" and case.get("partial") and any(c[0] == "nan" for r in out["out"]["rows"] for c in r[1]):
            return "empty-list-default-becomes-nan"
        return None
    if sub is not None:
        s = out["steps"][sub]
        oc = s["out"].get("cols") or (s["out"].get("v") or {}).get("cols", []) if s["out"]["t"] in ("item", "items", "frame") else []
        if (case["cls_name"] == "OsuSvList" and s["op"]["op"] in ("getint", "iter", "append") and 4 in (oc or [])
                and 4 not in s["before"]["cols"]):
            return "osusv-item-carries-undeclared-metronome"
        # later steps of the same history: the frame already holds the undeclared column, and items read from it carry it
        if (case["cls_name"] == "OsuSvList" and s["op"]["op"] in ("getint", "iter") and 4 in (oc or []) and 4 in s["before"]["cols"]
                and 4 not in out["allowed"]
                and [c for c in oc if c != 4] == [c for c in s["before"]["cols"] if c in out["allowed"]]):
            return "osusv-item-carries-undeclared-metronome"
        if s["op"]["op"] in ("last", "firstlast") and s["out"]["t"] == "exc" and not s["before"]["rows"]:
            return "holdlist-last-offset-empty-raises"
    return None


def describe(case, out):
    return f"{case['kind']} {case['cls_name']} " + (case.get("ctor") or f"ops={[o['op'] for o in case['ops']]}")


def shrink(case):
    if case["kind"] != "history":
        return
    for i in range(len(case["ops"])):
        c = dict(case)
        c["ops"] = case["ops"][:i] + case["ops"][i + 1:]
        yield c
    for i in range(len(case["rows"])):
        c = dict(case)
        c["rows"] = case["rows"][:i] + case["rows"][i + 1:]
        yield c
