"""C15: a chart is a set of timed objects - results do not depend on row order.
Metamorphic check: every listed operation is applied to a chart and to the same chart with the rows of its lists
permuted (reversed, shuffled, unsorted append, concatenation of halves); Coq compares the MEANING of the two results
(lists as multisets of rows, series as sets of (time, value) pairs, scalars)."""
import random
from fractions import Fraction as Fr

import numpy as np
import pandas as pd

from .. import coqfmt as F
from .. import frames as FR
from .. import maps as M

ID = "C15"
RUNNER = "Corr.RunC15"
CASE_TYPE = "c15case"
RUNNER_TARGETS = ["Corr/RunC15.vo"]
PROOF_TARGETS = ["Props/C15.vo"]
PROPS_FILE = "Props/C15.v"
PROPS_MODULE = "Props.C15"
RULE = ("charts of the five games on a beat grid (so that every writer is exact), 1-3 tempo points on measure lines (120 / 240 / 120 bpm, either "
        "value can be the dominant one), SVs for osu/Quaver (coincident SVs agree), ties across columns; every list permuted by one of "
        "{reverse, shuffle, unsorted append, concatenation of halves}; operations: write->read for osu/Quaver/StepMania/BMS, conversions, rate, "
        "full_ln, hitsound_copy (incl. more named samples of one volume at one time than the target has notes), dominant_bpm, scroll_speed, "
        "sv_normalize; every converter at least twice on a chart reordered WITHOUT renumbering its row labels, key sounds of converted notes compared too; non-trivial = some list with >= 2 rows is really reordered; distinct by hash of canonical JSON")
ASSUMPTIONS = [
    "written files are compared through reamber's own readers (the codecs are tied to reference semantics by C01/C03/C05/C06): "
    "read(write(c)) and read(write(permuted c)) must be the same multisets of objects",
    "hitsound_copy: equal notes, and per time equal multisets of SOUNDS, a sound being carried by a note OR played as an event sample (which of "
    "several target notes at one time receives a sound is not promised); the stricter reading 'the notes carry the same sounds, event samples "
    "compared separately' is NOT demanded: it is false of the routine when named samples of one volume overflow the target's notes "
    "(C15_hitsound_copy_strict_refuted documents it; what is played at each time is the same, which is what the chart means)",
    "scroll_speed: two SVs at one time must agree (otherwise the chart's meaning depends on file order in osu! itself); dominant_bpm / timing: no "
    "two tempo points at one time; full_ln: no two notes at the same time in one column; hitsound_copy: source volumes >= 0 - each side condition "
    "is shown necessary by a _refuted theorem whose witness was replayed against the real code (same behaviour)",
    "analysis functions: the models of C19 (Algo/DominantBpm.v, ScrollSpeed.v) are run in Coq on the chart and on the permuted chart and must "
    "reproduce both implementation outputs (speeds within 1e-9 relative: b/ref*m is not exact in binary64 for override 150); the boolean domain "
    "of the theorems (Algo/PermDomain.v) is evaluated on every such case (wf)",
]
TRUSTED = ["harness/maps.py, harness/frames.py; reamber's readers as canonicalisers of written files"]
MANIFEST = dict(
    text="Coq theorems (8.16.1, all closed under the global context) of permutation invariance, FOR ALL INPUTS, of the executable models the other "
         "properties built and tie to the code: rate / sort / filters / per-column copy (as before); ConvertBase.cast on whole rows (all mapped "
         "columns at once, any frame, any mapping incl. row-computed value arrays); the timing engine for tempo changes in any row order "
         "(restating C10's any-order theorem); full_ln (generated hits and holds EQUAL row for row, other lists carried over); dominant_bpm (same "
         "value), sv_normalize (same SVs), scroll_speed (same breakpoints and speeds in the same order); hitsound_copy (same notes and per time "
         "the same multiset of sounds on notes or as event samples, for any row order AND any tie order of the two unstable sorts); the osu! "
         "writer (same head, section by section the same multiset of lines, and the reference denotation reads those sections line by line); "
         "the Quaver writer (the written document DENOTES, by qua_denote, the same multisets of notes / timing points / SVs and the same metadata); "
         "the StepMania writer (measure grids identical for every char-stable order of the placed events, row count = capped lcm independent of "
         "order; on the boolean domain 'one metronome, event times convert to positions' TimingMap.beats is a function of the query time, the "
         "whole note-data text is identical and the #BPMS tag lists the same beat=bpm pairs). Side conditions are boolean predicates (distinct "
         "tempo offsets, coincident SVs agree, reduced fractions, distinct (time,column), source volumes >= 0) and each is shown NECESSARY by a "
         "_refuted theorem (vm_compute witness, replayed against the real code: same behaviour). Plus, per run, the metamorphic oracle evaluated "
         "in Coq on implementation outputs for every listed operation on charts of all five games (f(chart) vs f(permuted chart) as multisets / "
         "series / scalars), and for the analysis functions the models run in Coq on both charts with the theorems' boolean domain checked.",
    note="Oracle-only (not proved here): the BMS writer (its #BPM header takes the FIRST ROW's tempo, #BPMxx numbering and the greedy find_lcm follow "
         "row order, so only the denotation - not the text - can be invariant; whole-file BMS denotation proofs are C05's open task), float printing "
         "of every writer (numeric tokens are abstract in the models), the StepMania writer outside the one-metronome domain (TimingMap.beats "
         "genuinely depends on the other queries there), each converter's list wiring (C08 content oracle). hitsound_copy: the stricter reading "
         "'the notes carry the same sounds' is refuted (model and real code: which of several overflowing named samples lands on the note follows "
         "the source's row order) - not demanded by the property (same sounds at every time), the sound-level statement is proved. "
         "Trusted: Coq kernel+VM, harness, reamber's readers as canonicalisers; the models are tied to the code by C08/C10/C17/C18/C19/C01/C06/C03's "
         "own correspondence runs (and here again for the analysis functions and rate).",
    technique="Coq permutation-invariance theorems over the shared models + metamorphic oracle and model correspondence evaluated with vm_compute",
    design="4/C15")

OPS = ["write_read", "write_read", "convert", "rate", "full_ln", "dominant_bpm", "scroll_speed"]
CONV = {"osu": ["OsuToQua", "OsuToSM", "OsuToBMS"], "qua": ["QuaToOsu", "QuaToSM", "QuaToBMS"], "bms": ["BMSToOsu", "BMSToQua", "BMSToSM"],
        "sm": ["SMToOsu", "SMToQua", "SMToBMS"], "o2j": ["O2JToOsu", "O2JToQua", "O2JToSM", "O2JToBMS"]}


def _grid_spec(rng, game):
    """chart on the 1/4-beat grid: 120 bpm from 0; optionally 240 bpm from measure 1 or 2 (t2) and optionally 120 bpm again two
    240-bpm measures later (t3) - so that either tempo value can be the dominant one"""
    cls = M.map_class(game)
    m = cls()
    spec = {"game": game, "lists": {}}
    ntempo = rng.choice([1, 2, 2, 3])
    two = ntempo >= 2
    t2 = rng.choice([2000.0, 4000.0])
    t3 = t2 + 2000.0
    maxcol = 3 if game == "sm" else 6
    used = set()

    def t():
        u = rng.random()
        if ntempo == 3 and u < 0.3:
            return t3 + rng.randint(0, 15) * 125.0
        if two and u < 0.65:
            return t2 + rng.randint(0, 63 if ntempo == 2 else 31) * 62.5
        return rng.randint(0, int(t2 // 125) - 1 if two else 31) * 125.0
    for name, lst in m.objs.items():
        props = lst._item_class()._props
        rows = []
        if name == "bpms":
            rows.append({k: M.rand_val(rng, k, v[0]) for k, v in props.items()})
            rows[0].update({"offset": 0.0, "bpm": 120.0, "metronome": 4.0})
            if two:
                r2 = dict(rows[0])
                r2.update({"offset": t2, "bpm": 240.0})
                rows.append(r2)
            if ntempo == 3:
                r3 = dict(rows[0])
                r3.update({"offset": t3, "bpm": 120.0})
                rows.append(r3)
        elif name in ("hits", "holds"):
            for _ in range(rng.choice([1, 2, 3, 5] if name == "hits" else [0, 1, 2, 3])):
                r = {k: M.rand_val(rng, k, v[0]) for k, v in props.items()}
                # objects of one column never touch or overlap (a hold's closed span [start, end] is its own): otherwise
                # two objects would claim one cell of a written file, which no format can hold
                ok = False
                for _try in range(40):
                    r["offset"], r["column"] = t(), rng.randint(0, maxcol)
                    ln = rng.choice([125.0, 250.0, 500.0]) if "length" in r else 0.0
                    a, b = r["offset"], r["offset"] + ln
                    if all(c != r["column"] or b < s0 or a > e0 for (c, s0, e0) in used):
                        ok = True
                        break
                if not ok:
                    continue
                used.add((r["column"], a, b))
                if "length" in r:
                    r["length"] = ln
                if "keysounds" in r:
                    r["keysounds"] = []
                rows.append(r)
        elif name == "svs":
            seen = {}
            for _ in range(rng.choice([0, 1, 2, 3, 4, 5])):
                r = {k: M.rand_val(rng, k, v[0]) for k, v in props.items()}
                r["offset"] = t()
                if rng.random() < 0.6:
                    r["multiplier"] = rng.choice([0.5, 0.75, 1.0, 2.0])           # values that come back later in the chart
                r["multiplier"] = seen.setdefault(r["offset"], r["multiplier"])   # coincident SVs agree
                rows.append(r)
        spec["lists"][name] = {"rows": rows, "labels": "default"}
    return spec


# operations per game (every operation the property lists; o2j has no writer)
OPS_EXTRA = {"osu": ["sv_normalize", "sv_normalize", "hitsound_copy", "hitsound_copy", "hitsound_copy"], "qua": ["sv_normalize", "sv_normalize"]}


def _crowd(rng, src, tgt):
    """hitsound_copy: more named samples of ONE volume at one time than the target has notes there (the overflow becomes
    event samples; which file lands on the note follows the source's row order)"""
    t = rng.choice([1000.0, 2500.0])
    base = dict(src["lists"]["hits"]["rows"][0])
    vol = rng.choice([20, 35, 70])
    rows = [r for r in src["lists"]["hits"]["rows"] if r["offset"] != t]
    for col, f in zip(rng.sample(range(7), 3), rng.sample(["x.wav", "y.ogg", "z.wav", "w.wav"], rng.choice([2, 3]))):
        r = dict(base)
        r.update({"offset": t, "column": col, "volume": vol, "hitsound_file": f, "hitsound_set": rng.choice([0, 0, 2])})
        rows.append(r)
    rng.shuffle(rows)
    src["lists"]["hits"]["rows"] = rows
    src["lists"]["holds"]["rows"] = [r for r in src["lists"]["holds"]["rows"] if r["offset"] != t]
    for k in ("hits", "holds"):
        tgt["lists"][k]["rows"] = [r for r in tgt["lists"][k]["rows"] if r["offset"] != t]
    if rng.random() < 0.8:
        r = dict(base)
        r.update({"offset": t, "column": rng.randint(0, 6)})
        tgt["lists"]["hits"]["rows"].append(r)


def generate(rng, tier):
    n = 50 if tier == "quick" else 500
    cases = []
    for game in M.GAMES:
        for _ in range(n):
            ops = list(OPS) + OPS_EXTRA.get(game, [])
            op = rng.choice(ops)
            if op == "write_read" and game == "o2j":
                op = "convert"
            case = {"game": game, "op": op, "map": _grid_spec(rng, game), "map2": _grid_spec(rng, game),
                    "perm": rng.choice(["reverse", "shuffle", "append", "concat"]), "pseed": rng.randint(0, 10 ** 6),
                    "conv": rng.choice(CONV[game]), "override": rng.choice([None, None, 150.0])}
            if op == "hitsound_copy" and rng.random() < 0.4:
                _crowd(rng, case["map"], case["map2"])
            cases.append(case)
    # every converter at least twice per run on a chart whose rows were reordered WITHOUT renumbering the row labels
    # (what sorted(), reverse slicing or a filter leave behind): label-vs-position slips only show there
    for game in M.GAMES:
        for conv in CONV[game]:
            for perm in ("reverse", "shuffle", "shuffle", "shuffle"):
                cases.append({"game": game, "op": "convert", "map": _grid_spec(rng, game), "map2": _grid_spec(rng, game),
                              "perm": perm, "pseed": rng.randint(0, 10 ** 6), "conv": conv, "override": None, "keep_labels": True})
    return cases


# ------------------------------------------------------------------ implementation side
def _permute(m, kind, seed, keep_labels=False):
    """same chart, rows of every list in another order"""
    r = random.Random(seed)
    m2 = m.deepcopy()
    moved = False
    for k, lst in list(m2.objs.items()):
        n = len(lst)
        if n < 2:
            continue
        if kind == "reverse":
            perm = list(range(n))[::-1]
            new = type(lst)(lst.df.iloc[perm])
        elif kind == "shuffle":
            perm = list(range(n))
            r.shuffle(perm)
            new = type(lst)(lst.df.iloc[perm] if keep_labels else lst.df.iloc[perm].reset_index(drop=True))
        elif kind == "append":
            perm = list(range(n))
            r.shuffle(perm)
            new = type(lst)(lst.df.iloc[[perm[0]]])
            for i in perm[1:]:
                new = new.append(type(lst)(lst.df.iloc[[i]]))
        else:
            h = n // 2
            new = type(lst)(lst.df.iloc[h:]).append(type(lst)(lst.df.iloc[:h]))
            perm = list(range(h, n)) + list(range(h))
        if perm != list(range(n)):
            moved = True
        m2.objs[k] = new
    return m2, moved


def _prep(game, m):
    if game == "bms":
        m.title, m.artist, m.version = b"t", b"a", b"v"
    if game == "osu":
        m.circle_size = 7
    return m


def _content(m, it, names=None, sounds=False):
    """per list: the columns that carry chart content (sounds=True: also the key sound a note carries - conversions
    copy it along, and "the same objects" includes it)"""
    out = []
    for k, lst in m.objs.items():
        if names and k not in names:
            continue
        want = ("offset", "column", "length", "bpm", "multiplier") + (("hitsound_file", "sample") if sounds else ())
        cols = [c for c in want if c in lst.df.columns]
        out.append(M.snapshot_list(type(lst)(lst.df[cols]) if False else _proj(lst, cols), it))
    return out


class _L:
    def __init__(self, df):
        self.df = df


def _proj(lst, cols):
    return _L(lst.df[cols])


def _write_read(game, m, container):
    if game == "osu":
        from reamber.osu.OsuMap import OsuMap
        w = m.write()
        return OsuMap.read(w if isinstance(w, list) else w.split("\n"))
    if game == "qua":
        from reamber.quaver.QuaMap import QuaMap
        return QuaMap.read(m.write())
    if game == "bms":
        from reamber.bms.BMSMap import BMSMap
        from reamber.bms.BMSChannel import BMSChannel
        b = m.write(BMSChannel.BME)
        return BMSMap.read(b.decode("shift_jis").split("\r\n") if isinstance(b, bytes) else b.split("\n"), BMSChannel.BME)
    if game == "sm":
        from reamber.sm.SMMapSet import SMMapSet
        return SMMapSet.read(container.write()).maps[0]
    raise ValueError(game)


def _sound_rows(m):
    """what sounds in a chart, as atoms (time, kind, payload, volume): kind 0 = one hitsound bit, 1 = a named sample,
    2/3/4 = sample/addition/custom set of a note; returns (atoms carried by notes, atoms played as event samples)"""
    on_notes = []
    for k in ("hits", "holds"):
        df = m.objs[k].df
        for r in df.itertuples():
            t, vol, hs = float(r.offset), float(r.volume), int(r.hitsound_set)
            for b in range(16):
                if (hs >> b) & 1:
                    on_notes.append((t, 0, 1 << b, vol))
            if r.hitsound_file:
                on_notes.append((t, 1, r.hitsound_file, vol))
            for kind, v in ((2, r.sample_set), (3, r.addition_set), (4, r.custom_set)):
                if int(v) != 0:
                    on_notes.append((t, kind, int(v), vol))
    events = [(float(r.offset), 1, r.sample_file, float(r.volume)) for r in m.samples.df.itertuples() if r.sample_file]
    return on_notes, events


def _atom_frame(rows, it):
    return M.snapshot_list(_L(pd.DataFrame(rows, columns=["offset", "kind", "payload", "volume"])), it)


def _sounds(m, it):
    """hitsound_copy result: notes, and per time the multiset of sounds (on a note or as an event sample)"""
    notes = []
    for k in ("hits", "holds"):
        df = m.objs[k].df
        cols = [c for c in ("offset", "column", "length") if c in df.columns]
        notes.append(M.snapshot_list(_L(df[cols]), it))
    on_notes, events = _sound_rows(m)
    return {"union": notes + [_atom_frame(on_notes + events, it)],
            "strict": [_atom_frame(on_notes, it), _atom_frame(events, it)]}


def _container(game, m):
    if game not in ("sm", "o2j"):
        return None
    c = M.build_mapset(game, [m])
    if game == "sm":
        c.offset = 0.0
        c.title = c.artist = c.credit = "x"
    else:
        c.level = [1, 2, 3]
        c.title = c.artist = c.creator = "x"
    return c


def _apply(case, m, m_other, it):
    game, op = case["game"], case["op"]
    cont = _container(game, m)
    if op == "write_read":
        return {"t": "lists", "v": _content(_write_read(game, m, cont), it, ("hits", "holds", "bpms", "svs"))}
    if op == "convert":
        import reamber.algorithms.convert as C
        name = case["conv"]
        kw = {"raise_bad_mode": False} if name in ("BMSToQua", "OsuToQua", "OsuToSM", "SMToQua") else {}
        res = getattr(C, name).convert(cont if cont is not None else m, **kw)
        from reamber.sm.SMMapSet import SMMapSet
        if isinstance(res, SMMapSet):
            res = res.maps[0]
        if isinstance(res, list):
            res = res[0]
            if isinstance(res, SMMapSet):
                res = res.maps[0]
        return {"t": "lists", "v": _content(res, it, ("hits", "holds", "bpms", "svs"), sounds=True)}
    if op == "rate":
        return {"t": "lists", "v": _content(m.rate(2.0), it)}
    if op == "full_ln":
        from reamber.algorithms.generate.full_ln import full_ln
        return {"t": "lists", "v": _content(full_ln(m, gap=125, ln_as_hit_thres=100), it, ("hits", "holds", "bpms"))}
    if op == "hitsound_copy":
        from reamber.algorithms.osu.hitsound_copy import hitsound_copy
        snd = _sounds(hitsound_copy(m, m_other), it)
        return {"t": "lists", "v": snd["union"], "strict": snd["strict"]}
    if op == "dominant_bpm":
        from reamber.algorithms.utils.dominant_bpm import dominant_bpm
        return {"t": "val", "v": F.frac_json(Fr(float(dominant_bpm(m))))}
    if op == "scroll_speed":
        from reamber.algorithms.analysis.scroll_speed import scroll_speed
        s = scroll_speed(m, override_bpm=case["override"])
        pairs = [(float(i), float(v)) for i, v in s.items() if v == v]
        full = [[F.frac_json(Fr(float(i))), (F.frac_json(Fr(float(v))) if v == v else None)] for i, v in s.items()]
        return {"t": "pairs", "v": [[F.frac_json(Fr(a)), F.frac_json(Fr(b))] for a, b in pairs], "full": full}
    if op == "sv_normalize":
        from reamber.algorithms.generate.sv_normalize import sv_normalize
        r = sv_normalize(m, override_bpm=case["override"])
        return {"t": "lists", "v": [M.snapshot_list(_L(r.df[["offset", "multiplier"]]), it)],
                "full": [[F.frac_json(Fr(float(o))), F.frac_json(Fr(float(x)))] for o, x in zip(r.offset.tolist(), r.multiplier.tolist())]}
    raise ValueError(op)


ANALYSIS = ("dominant_bpm", "scroll_speed", "sv_normalize")


def _model_chart(m):
    """what dominant_bpm / scroll_speed / sv_normalize look at (Algo/DominantBpm.v chart): tempo rows, SV rows (None when the
    game has no svs list) and the offsets of the rows of every other list, all in ROW ORDER"""
    fr = lambda x: F.frac_json(Fr(float(x)))
    bp = [[fr(o), fr(b)] for o, b in zip(m.bpms.df["offset"].tolist(), m.bpms.df["bpm"].tolist())]
    sv = None
    if "svs" in m.objs:
        sv = [[fr(o), fr(x)] for o, x in zip(m.objs["svs"].df["offset"].tolist(), m.objs["svs"].df["multiplier"].tolist())]
    notes = []
    for k, lst in m.objs.items():
        if k not in ("bpms", "svs"):
            notes += [fr(o) for o in lst.df["offset"].tolist()]
    return {"bpms": bp, "svs": sv, "notes": notes}


def execute(case):
    it = FR.Interner()
    game = case["game"]
    m = _prep(game, M.build_map(case["map"]))
    m_other = _prep(game, M.build_map(case["map2"]))
    mp, moved = _permute(m, case["perm"], case["pseed"], case.get("keep_labels", False))
    if case["op"] == "hitsound_copy":
        mo2, moved2 = _permute(m_other, case["perm"], case["pseed"] + 1)
        moved = moved or moved2
    else:
        mo2 = m_other
    a = _apply(case, m, m_other, it)
    b = _apply(case, mp, mo2, it)
    out = {"a": a, "b": b, "moved": moved}
    if case["op"] == "rate":
        out["src_a"] = _content(m, it)
        out["src_b"] = _content(mp, it)
    if case["op"] in ANALYSIS:
        out["chart_a"], out["chart_b"] = _model_chart(m), _model_chart(mp)
    return out


def _q(p):
    return F.q(F.frac_from_json(p))


def _chart_coq(ch):
    pairs = lambda l: F.lst([f"({_q(a)},{_q(b)})" for a, b in l])
    svs = "None" if ch["svs"] is None else f"(Some {pairs(ch['svs'])})"
    return f"(mkChart {pairs(ch['bpms'])} {svs} {F.lst([_q(x) for x in ch['notes']])})"


def emit_all(case, out):
    a, b = out["a"], out["b"]
    terms = []
    if a["t"] == "lists":
        terms.append(f"CSameLists {F.lst([M.ulist_coq(s) for s in a['v']])} {F.lst([M.ulist_coq(s) for s in b['v']])}")
    elif a["t"] == "pairs":
        f = lambda v: F.lst([f"({F.q(F.frac_from_json(x))}, {F.q(F.frac_from_json(y))})" for x, y in v])
        terms.append(f"CSamePairs {f(a['v'])} {f(b['v'])}")
    else:
        terms.append(f"CSameVal {F.q(F.frac_from_json(a['v']))} {F.q(F.frac_from_json(b['v']))}")
    # (the stricter reading "the NOTES carry the same sounds, event samples compared separately" is not a term: the property
    #  speaks of what the chart means - the sounds played at each time - and C15_hitsound_copy_strict_refuted documents that
    #  the stricter reading is false of the routine when named samples overflow the target's notes)
    if "chart_a" in out:
        # model-level tie + the theorem's boolean domain + its conclusion on the implementation's two outputs
        ca, cb, op = _chart_coq(out["chart_a"]), _chart_coq(out["chart_b"]), case["op"]
        ov = "None" if case["override"] is None else f"(Some {F.q(Fr(case['override']))})"
        if op == "dominant_bpm":
            terms.append(f"CDomPerm {ca} {cb} (Some {_q(a['v'])}) (Some {_q(b['v'])})")
        elif op == "scroll_speed":
            rows = lambda v: F.lst([f"({_q(t)},{'None' if x is None else '(Some ' + _q(x) + ')'})" for t, x in v])
            terms.append(f"CScrollPerm {ca} {cb} {ov} (Some {rows(a['full'])}) (Some {rows(b['full'])})")
        else:
            rows = lambda v: F.lst([f"({_q(t)},{_q(x)})" for t, x in v])
            terms.append(f"CNormPerm {ca} {cb} {ov} (Some {rows(a['full'])}) (Some {rows(b['full'])})")
    if "src_a" in out:
        terms.append(f"CRatePerm 2 {F.lst([M.ulist_coq(s) for s in out['src_a']])} {F.lst([M.ulist_coq(s) for s in out['src_b']])}")
    return terms


def nontrivial(case, out):
    return bool(out.get("moved"))


def bucket(case, out):
    return f"{case['op']}/{case['game']}/{case['perm']}"


def classify(case, out, kind, sub=None):
    return None


def describe(case, out):
    return f"{case['op']} {case['game']} perm={case['perm']} conv={case['conv'] if case['op'] == 'convert' else ''} moved={out.get('moved')}"
