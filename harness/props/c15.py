"""C15: a chart is a set of timed objects - results do not depend on row order.
Metamorphic check: every listed operation is applied to a chart and to the same chart with the rows of its lists
permuted (reversed, shuffled, unsorted append, concatenation of halves); Coq compares the MEANING of the two results
(lists as multisets of rows, series as sets of (time, value) pairs, scalars)."""
import random
from fractions import Fraction as Fr

import numpy as np
import pandas as pd

from .. import coqfmt as F
from .. import frames as FR
from .. import maps as M

ID = "C15"
RUNNER = "Corr.RunC15"
CASE_TYPE = "c15case"
RUNNER_TARGETS = ["Corr/RunC15.vo"]
PROOF_TARGETS = ["Props/C15.vo"]
PROPS_FILE = "Props/C15.v"
PROPS_MODULE = "Props.C15"
RULE = ("charts of the five games on a beat grid (so that every writer is exact), 1-3 tempo points on measure lines, SVs for osu/Quaver "
        "(coincident SVs agree), ties across columns; every list permuted by one of {reverse, shuffle, unsorted append, concatenation of "
        "halves}; operations: write->read for osu/Quaver/StepMania/BMS, conversions, rate, full_ln, hitsound_copy, dominant_bpm, "
        "scroll_speed, sv_normalize; non-trivial = some list with >= 2 rows is really reordered; distinct by hash of canonical JSON")
ASSUMPTIONS = [
    "written files are compared through reamber's own readers (the codecs are tied to reference semantics by C01/C03/C05/C06): "
    "read(write(c)) and read(write(permuted c)) must be the same multisets of objects",
    "hitsound_copy: equal notes, and per time equal multisets of sounds (which of several target notes at one time receives a sound is not promised)",
    "scroll_speed: two SVs at one time must agree (otherwise the chart's meaning depends on file order in osu! itself); "
    "full_ln: no two notes at the same time in one column (either processing order is accepted by C17)",
]
TRUSTED = ["harness/maps.py, harness/frames.py; reamber's readers as canonicalisers of written files"]
MANIFEST = dict(
    text="Coq theorems of permutation invariance for the models that factor through row-wise maps or sorting (rate: scaling a permuted list is "
         "a permutation of the scaled list; cast/convert: positional copy commutes with permutation; sorted: any two sorts of permuted inputs "
         "are sorted permutations of each other) plus a metamorphic oracle evaluated in Coq on implementation outputs for every listed "
         "operation on charts of all five games (f(chart) vs f(permuted chart) as multisets / series / scalars).",
    note="Partial: permutation invariance of the writers, full_ln, hitsound_copy and the analysis functions is established per run by the "
         "metamorphic oracle (and for full_ln by C17's all-sorted-orders theorem), not proved as a general theorem here. "
         "Trusted: Coq kernel+VM, harness, reamber's readers as canonicalisers.",
    technique="Coq permutation-invariance lemmas + metamorphic oracle evaluated with vm_compute",
    design="4/C15")

OPS = ["write_read", "write_read", "convert", "rate", "full_ln", "dominant_bpm", "scroll_speed"]
CONV = {"osu": ["OsuToQua", "OsuToSM", "OsuToBMS"], "qua": ["QuaToOsu", "QuaToSM", "QuaToBMS"], "bms": ["BMSToOsu", "BMSToQua", "BMSToSM"],
        "sm": ["SMToOsu", "SMToQua", "SMToBMS"], "o2j": ["O2JToOsu", "O2JToQua", "O2JToSM", "O2JToBMS"]}


def _grid_spec(rng, game):
    """chart on the 1/4-beat grid of 120 bpm (and 240 bpm after measure 2)"""
    cls = M.map_class(game)
    m = cls()
    spec = {"game": game, "lists": {}}
    two = rng.random() < 0.5
    maxcol = 3 if game == "sm" else 6
    used = set()

    def t():
        if two and rng.random() < 0.5:
            return 4000.0 + rng.randint(0, 31) * 62.5
        return rng.randint(0, 31) * 125.0
    for name, lst in m.objs.items():
        props = lst._item_class()._props
        rows = []
        if name == "bpms":
            rows.append({k: M.rand_val(rng, k, v[0]) for k, v in props.items()})
            rows[0].update({"offset": 0.0, "bpm": 120.0, "metronome": 4.0})
            if two:
                r2 = dict(rows[0])
                r2.update({"offset": 4000.0, "bpm": 240.0})
                rows.append(r2)
        elif name in ("hits", "holds"):
            for _ in range(rng.choice([1, 2, 3, 5] if name == "hits" else [0, 1, 2, 3])):
                r = {k: M.rand_val(rng, k, v[0]) for k, v in props.items()}
                for _try in range(20):
                    r["offset"], r["column"] = t(), rng.randint(0, maxcol)
                    if (r["offset"], r["column"]) not in used:
                        break
                used.add((r["offset"], r["column"]))
                if "length" in r:
                    r["length"] = rng.choice([125.0, 250.0, 500.0])
                if "keysounds" in r:
                    r["keysounds"] = []
                rows.append(r)
        elif name == "svs":
            seen = {}
            for _ in range(rng.choice([0, 1, 2, 3])):
                r = {k: M.rand_val(rng, k, v[0]) for k, v in props.items()}
                r["offset"] = t()
                r["multiplier"] = seen.setdefault(r["offset"], r["multiplier"])   # coincident SVs agree
                rows.append(r)
        spec["lists"][name] = {"rows": rows, "labels": "default"}
    return spec


def generate(rng, tier):
    n = 50 if tier == "quick" else 500
    cases = []
    for game in M.GAMES:
        for _ in range(n):
            ops = list(OPS)
            if game in ("osu", "qua"):
                ops += ["sv_normalize", "sv_normalize"]
            if game == "osu":
                ops += ["hitsound_copy", "hitsound_copy"]
            op = rng.choice(ops)
            if op == "write_read" and game == "o2j":
                op = "convert"
            cases.append({"game": game, "op": op, "map": _grid_spec(rng, game), "map2": _grid_spec(rng, game),
                          "perm": rng.choice(["reverse", "shuffle", "append", "concat"]), "pseed": rng.randint(0, 10 ** 6),
                          "conv": rng.choice(CONV[game]), "override": rng.choice([None, None, 150.0])})
    return cases


# ------------------------------------------------------------------ implementation side
def _permute(m, kind, seed):
    """same chart, rows of every list in another order"""
    r = random.Random(seed)
    m2 = m.deepcopy()
    moved = False
    for k, lst in list(m2.objs.items()):
        n = len(lst)
        if n < 2:
            continue
        if kind == "reverse":
            perm = list(range(n))[::-1]
            new = type(lst)(lst.df.iloc[perm])
        elif kind == "shuffle":
            perm = list(range(n))
            r.shuffle(perm)
            new = type(lst)(lst.df.iloc[perm].reset_index(drop=True))
        elif kind == "append":
            perm = list(range(n))
            r.shuffle(perm)
            new = type(lst)(lst.df.iloc[[perm[0]]])
            for i in perm[1:]:
                new = new.append(type(lst)(lst.df.iloc[[i]]))
        else:
            h = n // 2
            new = type(lst)(lst.df.iloc[h:]).append(type(lst)(lst.df.iloc[:h]))
            perm = list(range(h, n)) + list(range(h))
        if perm != list(range(n)):
            moved = True
        m2.objs[k] = new
    return m2, moved


def _prep(game, m):
    if game == "bms":
        m.title, m.artist, m.version = b"t", b"a", b"v"
    if game == "osu":
        m.circle_size = 7
    return m


def _content(m, it, names=None):
    """per list: the columns that carry chart content"""
    out = []
    for k, lst in m.objs.items():
        if names and k not in names:
            continue
        cols = [c for c in ("offset", "column", "length", "bpm", "multiplier") if c in lst.df.columns]
        out.append(M.snapshot_list(type(lst)(lst.df[cols]) if False else _proj(lst, cols), it))
    return out


class _L:
    def __init__(self, df):
        self.df = df


def _proj(lst, cols):
    return _L(lst.df[cols])


def _write_read(game, m, container):
    if game == "osu":
        from reamber.osu.OsuMap import OsuMap
        w = m.write()
        return OsuMap.read(w if isinstance(w, list) else w.split("\n"))
    if game == "qua":
        from reamber.quaver.QuaMap import QuaMap
        return QuaMap.read(m.write())
    if game == "bms":
        from reamber.bms.BMSMap import BMSMap
        from reamber.bms.BMSChannel import BMSChannel
        b = m.write(BMSChannel.BME)
        return BMSMap.read(b.decode("shift_jis").split("\r\n") if isinstance(b, bytes) else b.split("\n"), BMSChannel.BME)
    if game == "sm":
        from reamber.sm.SMMapSet import SMMapSet
        return SMMapSet.read(container.write()).maps[0]
    raise ValueError(game)


def _sounds(m, it):
    """hitsound_copy result: notes, and per time the multiset of sounds"""
    notes, sounds = [], []
    for k in ("hits", "holds"):
        df = m.objs[k].df
        cols = [c for c in ("offset", "column", "length") if c in df.columns]
        notes.append(M.snapshot_list(_L(df[cols]), it))
        sounds.append(df[["offset", "hitsound_set", "sample_set", "addition_set", "custom_set", "volume", "hitsound_file"]])
    snd = pd.concat(sounds, ignore_index=True)
    return notes + [M.snapshot_list(_L(snd), it), M.snapshot_list(_L(m.samples.df[["offset", "sample_file", "volume"]]), it)]


def _container(game, m):
    if game not in ("sm", "o2j"):
        return None
    c = M.build_mapset(game, [m])
    if game == "sm":
        c.offset = 0.0
        c.title = c.artist = c.credit = "x"
    else:
        c.level = [1, 2, 3]
        c.title = c.artist = c.creator = "x"
    return c


def _apply(case, m, m_other, it):
    game, op = case["game"], case["op"]
    cont = _container(game, m)
    if op == "write_read":
        return {"t": "lists", "v": _content(_write_read(game, m, cont), it, ("hits", "holds", "bpms", "svs"))}
    if op == "convert":
        import reamber.algorithms.convert as C
        name = case["conv"]
        kw = {"raise_bad_mode": False} if name in ("BMSToQua", "OsuToQua", "OsuToSM", "SMToQua") else {}
        res = getattr(C, name).convert(cont if cont is not None else m, **kw)
        from reamber.sm.SMMapSet import SMMapSet
        if isinstance(res, SMMapSet):
            res = res.maps[0]
        if isinstance(res, list):
            res = res[0]
            if isinstance(res, SMMapSet):
                res = res.maps[0]
        return {"t": "lists", "v": _content(res, it, ("hits", "holds", "bpms", "svs"))}
    if op == "rate":
        return {"t": "lists", "v": _content(m.rate(2.0), it)}
    if op == "full_ln":
        from reamber.algorithms.generate.full_ln import full_ln
        return {"t": "lists", "v": _content(full_ln(m, gap=125, ln_as_hit_thres=100), it, ("hits", "holds", "bpms"))}
    if op == "hitsound_copy":
        from reamber.algorithms.osu.hitsound_copy import hitsound_copy
        return {"t": "lists", "v": _sounds(hitsound_copy(m, m_other), it)}
    if op == "dominant_bpm":
        from reamber.algorithms.utils.dominant_bpm import dominant_bpm
        return {"t": "val", "v": F.frac_json(Fr(float(dominant_bpm(m))))}
    if op == "scroll_speed":
        from reamber.algorithms.analysis.scroll_speed import scroll_speed
        s = scroll_speed(m, override_bpm=case["override"])
        pairs = [(float(i), float(v)) for i, v in s.items() if v == v]
        return {"t": "pairs", "v": [[F.frac_json(Fr(a)), F.frac_json(Fr(b))] for a, b in pairs]}
    if op == "sv_normalize":
        from reamber.algorithms.generate.sv_normalize import sv_normalize
        r = sv_normalize(m, override_bpm=case["override"])
        return {"t": "lists", "v": [M.snapshot_list(_L(r.df[["offset", "multiplier"]]), it)]}
    raise ValueError(op)


def execute(case):
    it = FR.Interner()
    game = case["game"]
    m = _prep(game, M.build_map(case["map"]))
    m_other = _prep(game, M.build_map(case["map2"]))
    mp, moved = _permute(m, case["perm"], case["pseed"])
    if case["op"] == "hitsound_copy":
        mo2, moved2 = _permute(m_other, case["perm"], case["pseed"] + 1)
        moved = moved or moved2
    else:
        mo2 = m_other
    a = _apply(case, m, m_other, it)
    b = _apply(case, mp, mo2, it)
    out = {"a": a, "b": b, "moved": moved}
    if case["op"] == "rate":
        out["src_a"] = _content(m, it)
        out["src_b"] = _content(mp, it)
    return out


def emit_all(case, out):
    a, b = out["a"], out["b"]
    terms = []
    if a["t"] == "lists":
        terms.append(f"CSameLists {F.lst([M.ulist_coq(s) for s in a['v']])} {F.lst([M.ulist_coq(s) for s in b['v']])}")
    elif a["t"] == "pairs":
        f = lambda v: F.lst([f"({F.q(F.frac_from_json(x))}, {F.q(F.frac_from_json(y))})" for x, y in v])
        terms.append(f"CSamePairs {f(a['v'])} {f(b['v'])}")
    else:
        terms.append(f"CSameVal {F.q(F.frac_from_json(a['v']))} {F.q(F.frac_from_json(b['v']))}")
    if "src_a" in out:
        terms.append(f"CRatePerm 2 {F.lst([M.ulist_coq(s) for s in out['src_a']])} {F.lst([M.ulist_coq(s) for s in out['src_b']])}")
    return terms


def nontrivial(case, out):
    return bool(out.get("moved"))


def bucket(case, out):
    return f"{case['op']}/{case['game']}/{case['perm']}"


def classify(case, out, kind, sub=None):
    return None


def describe(case, out):
    return f"{case['op']} {case['game']} perm={case['perm']} conv={case['conv'] if case['op'] == 'convert' else ''} moved={out.get('moved')}"
