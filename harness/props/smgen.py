"""Shared by c02.py / c03.py: building blocks for StepMania texts and mapsets, serialisation of mapsets to Coq."""
from fractions import Fraction as Fr

from .. import coqfmt as F

TEXT_FIELDS = ["title", "subtitle", "artist", "title_translit", "subtitle_translit", "artist_translit", "genre", "credit",
               "banner", "background", "lyrics_path", "cd_title", "music", "display_bpm", "bg_changes", "fg_changes"]
TEXT_TAGS = ["TITLE", "SUBTITLE", "ARTIST", "TITLETRANSLIT", "SUBTITLETRANSLIT", "ARTISTTRANSLIT", "GENRE", "CREDIT",
             "BANNER", "BACKGROUND", "LYRICSPATH", "CDTITLE", "MUSIC", "DISPLAYBPM", "BGCHANGES", "FGCHANGES"]
SIMPLE = ["hits", "mines", "lifts", "fakes", "keysounds"]
HOLDS = ["holds", "rolls"]

WORDS = ["", "", "a", "Gravity", "EDEN", "song name", "x=y", "a,b", "#1 hit", "bg.png", "Ünï çødé", "曲名", "100%", "a - b",
         "(feat. z)", "m.mp3", "~", "A  B"]


def supported_types():
    from reamber.sm.SMMapMeta import SMMapChartTypes
    out = []
    for name, val in vars(SMMapChartTypes).items():
        if name.isupper() and isinstance(val, str):
            k = SMMapChartTypes.get_keys(val)
            if k is not None:
                out.append((val, int(k)))
    return out


def all_types():
    from reamber.sm.SMMapMeta import SMMapChartTypes
    return [val for name, val in vars(SMMapChartTypes).items() if name.isupper() and isinstance(val, str)]


def word(rng):
    return rng.choice(WORDS)


def dec(x: Fr, min_places=0) -> str:
    """Exact finite decimal expansion of x (x must have a 2^a 5^b denominator)."""
    x = Fr(x)
    sign = "-" if x < 0 else ""
    x = abs(x)
    places = 0
    while (x * 10 ** places).denominator != 1:
        places += 1
        if places > 40:
            raise ValueError("not a finite decimal")
    places = max(places, min_places)
    n = int(x * 10 ** places)
    s = str(n).rjust(places + 1, "0")
    return sign + (s[:-places] + "." + s[-places:] if places else s)


# 60000/bpm is an exact binary64 value with a short mantissa
EXACT_BPMS = [60, 75, 93.75, 100, 120, 125, 150, 160, 187.5, 200, 240, 250, 300, 375, 400, 480]


def bpm_value(rng):
    r = rng.random()
    if r < 0.45:
        return Fr(rng.choice([60, 75, 90, 100, 120, 125, 150, 160, 180, 200, 240, 300, 93.75, 187.5]))
    if r < 0.8:
        return Fr(rng.randint(3000, 30000), 100)
    return Fr(rng.randint(40000, 400000), 1000)


# ---------------------------------------------------------------- Coq serialisation
def txt(s: str) -> str:
    return F.lst([F.z(ord(c)) for c in s])


def fq(x) -> str:
    if isinstance(x, list):
        x = F.frac_from_json(x)
    return F.q(x)


def fj(x):
    """float/int/Fraction -> exact [num, den]; raises on NaN/inf."""
    if isinstance(x, float) and (x != x or x in (float("inf"), float("-inf"))):
        raise ValueError("non-finite number")
    return F.frac_json(Fr(x))


def coq_chart(c) -> str:
    simple = lambda l: F.lst([f"({fq(o)}, {F.z(k)})" for o, k in l])
    hold = lambda l: F.lst([f"({fq(o)}, {F.z(k)}, {fq(n)})" for o, k, n in l])
    bpms = F.lst([f"({fq(o)}, {fq(b)}, {fq(m)})" for o, b, m in c["bpms"]])
    return (f"(mkChart {txt(c['chart_type'])} {txt(c['description'])} {txt(c['difficulty'])} {F.z(c['difficulty_val'])} "
            f"{F.lst([fq(x) for x in c['groove_radar']])} {bpms} {simple(c['hits'])} {hold(c['holds'])} {hold(c['rolls'])} "
            f"{simple(c['mines'])} {simple(c['lifts'])} {simple(c['fakes'])} {simple(c['keysounds'])})")


def coq_set(s) -> str:
    off = "None" if s["offset"] is None else f"(Some {fq(s['offset'])})"
    return (f"(mkSet {F.lst([txt(s[f]) for f in TEXT_FIELDS])} {off} {fq(s['sample_start'])} {fq(s['sample_length'])} "
            f"{F.boolean(s['selectable'])} {F.lst([coq_chart(c) for c in s['maps']])})")


def coq_text(text: str):
    """A text as (distinct lines, line numbers): decoded in Coq by mk_text (join on newline)."""
    lines = text.split("\n")
    tbl, idx, seen = [], [], {}
    for l in lines:
        if l not in seen:
            seen[l] = len(tbl)
            tbl.append(l)
        idx.append(seen[l])
    return F.lst([txt(l) for l in tbl]), F.lst([F.z(i) for i in idx])


# ---------------------------------------------------------------- snapshot of a live SMMapSet
def snap_set(ms):
    """JSON snapshot of an SMMapSet (exact values)."""
    import numpy as np

    def num(x):
        if isinstance(x, (np.floating, np.integer)):
            x = x.item()
        return fj(x)

    def col(x):
        if isinstance(x, (np.floating, float)):
            if x != int(x):
                raise ValueError("non-integral column")
        return int(x)
    maps = []
    for m in ms.maps:
        c = dict(chart_type=str(m.chart_type), description=str(m.description), difficulty=str(m.difficulty),
                 difficulty_val=int(m.difficulty_val), groove_radar=[num(x) for x in m.groove_radar],
                 bpms=[[num(o), num(b), num(mt)] for o, b, mt in zip(m.bpms.offset, m.bpms.bpm, m.bpms.metronome)])
        for k in SIMPLE:
            l = getattr(m, k)
            c[k] = [[num(o), col(cc)] for o, cc in zip(l.offset, l.column)]
        for k in HOLDS:
            l = getattr(m, k)
            c[k] = [[num(o), col(cc), num(n)] for o, cc, n in zip(l.offset, l.column, l.length)]
        c["n_stops"] = len(m.stops)
        maps.append(c)
    out = {f: str(getattr(ms, f)) for f in TEXT_FIELDS}
    out.update(offset=None if ms.offset is None else num(ms.offset), sample_start=num(ms.sample_start),
               sample_length=num(ms.sample_length), selectable=bool(ms.selectable), maps=maps)
    return out
