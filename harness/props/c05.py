"""C05: BMS writing.  The generator builds in-memory charts from objects (BMSHit/BMSHold/BMSBpm lists), the driver
calls the public BMSMap.write(layout, no_sample_default), decodes the bytes (shift_jis, an oracle) and splits them at
CRLF; Coq compares the lines with the model bms_write (corr) and evaluates the reference interpreter bms_denote on the
lines against the chart (spec: every line valid, one object per hit and a head/LNOBJ pair per hold in the right lane,
at the in-memory time exactly on the snap grid and within 1/192 beat otherwise, tempo timeline reproduced).

Exact stream: the chart holds fractions.Fraction times/tempos and RAConst.MIN_TO_MSEC = Fraction(60000) (set from this
process): the writer's snap decisions are then exact and the lines must equal the model's.  Float stream: ordinary
floats; the model runs on the exact rational value of each float; inputs stay 1e-7 beat away from snap-decision
midpoints, oracle tolerance 1e-6 ms."""
from bisect import bisect_left
from fractions import Fraction as Fr
import sys

from .. import coqfmt as F
from . import c04 as R

ID = "C05"
RUNNER = "Corr.RunC05"
CASE_TYPE = "c05case"
RUNNER_TARGETS = ["Corr/RunC05.vo"]
PROOF_TARGETS = ["Props/C05.vo"]
PROPS_FILE = "Props/C05.v"
PROPS_MODULE = "Props.C05"
RULE = ("seeded generator of in-memory charts built from objects: each of the five layouts, 1..5 tempo points (4/4, on measure "
        "lines, integer / <=3-decimal / long-decimal tempos, rows possibly unsorted), hits and holds in any columns of the "
        "layout at on-grid times (every denominator <= 96) and arbitrary off-grid times, adjacent grid slots, several objects "
        "per measure and channel with different denominators (LCM grouping below and above 100), known / unknown / empty "
        "samples, custom LNOBJ and default ids, str and bytes header fields, misc headers; 30% of the charts (every layout) are written with "
        "BMSMap.write_file to a temporary file and the bytes read back from disk, the rest with BMSMap.write; a third of the charts (every "
        "layout, both routes) reach the judged write through a HISTORY of the object: built with other tempo values and times (tempo doubled, "
        "times halved), written once (discarded), then given the real values through the in-place column setters (m.bpms.bpm / .offset, "
        "m.hits.offset, m.holds.offset / .length) -- the judged output must be a function of the final state; plus out-of-domain cases (measure "
        ">= 1000, unknown column, too many tempo points); a case is non-trivial when it has >= 2 objects; distinct by hash of "
        "the canonical JSON of the input")
ASSUMPTIONS = [
    "shift_jis codec is an oracle: the written bytes are decoded by the harness, the model and the oracle work on lines",
    "str(float) of the initial tempo is an oracle: the '#BPM n' line is compared by parsed value (1e-9 relative)",
    "exact stream: chart of fractions.Fraction and RAConst.MIN_TO_MSEC = Fraction(60000) set from the harness process; float "
    "stream: the model runs on the exact value of the floats passed, binary64 rounding inside the writer is measured (inputs "
    "kept 1e-7 beat away from snap-decision midpoints), oracle tolerance 1e-6 ms",
    "pandas sort_values('channel') is not stable: the order of rows inside one (measure, channel, new_den) group is only "
    "observable when two rows collide in a slot, which the domain excludes",
    "domain (wf_wchart): first tempo point at time 0 (the format has no offset field), measure < 1000 (3-digit field), fewer than "
    "1295 tempo points, objects of a lane do not overlap a hold of that lane, ids are base-36 pairs different from 00 and LNOBJ",
]
TRUSTED = ["harness/tables/bms.py (layouts -> Tables.bms)"]
MANIFEST = dict(
    text="Coq 8.16.1: executable Gallina model of BMSMap.write (header with base-36 ids and ':.3f' tempos, TimingMap.snaps, "
         "den*metronome, find_lcm(<100) grouping, num*new_den/den slot fill with int(), line assembly) tied to the code on every "
         "run by in-Coq correspondence (exact on fractions.Fraction; float stream on the exact float values), plus the independent "
         "reference interpreter bms_denote evaluated on the bytes the implementation wrote, compared with the in-memory chart. "
         "Proved, whole file: C05_bms_write_denotes -- for every layout satisfying the layout obligations and every chart of the "
         "decidable domain write_dom (wf_wchart at tolerance 0: 4/4 on measure lines, first tempo point at 0, measure < 1000, < 1295 "
         "tempo points, no two objects of a lane in one grid slot, nothing inside a hold of its lane, ids base-36 other than 00/LNOBJ; "
         "tempo list in time order and, in reduced fractions, the millisecond form of a script of C10's on-grid domain; tempos that "
         "':.3f' prints without loss; one-word misc keys), whatever str(float) prints for #BPM: the write succeeds, bms_denote accepts "
         "the lines and they denote the chart -- every hit, hold head, LN tail and tempo object exactly once at its own position "
         "(multisets), column exactly, time within 1/192 beat of the in-memory time and EQUAL to it on the snap grid (C10_ms_roundtrip "
         "/ C10_position_roundtrip), sample registered under the written id, tempo changes at the in-memory times and tempos, "
         "title/artist/level/LNOBJ/WAV table/misc retained. C05_bms_write_read composes it with C04_bms_read_text: BMSMap.read of the "
         "written text is the chart (rows as multisets, same time bounds) whenever the written text lies in the reader's text-level "
         "domain (text_domb, read_guards: decidable on the written lines). C05_bms_write_read_chart: with chart-level hypotheses only "
         "(write_dom_any, header_guards, a #BPM rendering not ending in a blank) the written text is in the reader's domain, read(write(c)) "
         "returns and is c (tempo list included); the guards that reflect a real loss have refuted witnesses replayed on the code (title "
         "ending in a blank is stripped; a misc key starting with WAV is filed under samples). C05_bms_write_timeline: the bound as "
         "timeline_close_by at res_of FBms (for C09). Parts, each for all inputs: C05_write_note_lines_objs "
         "(the note section holds exactly the rows, nothing merged or dropped), C05_lane_pairs (any listing of a lane's hits and "
         "head/tail pairs is read back to them), find_lcm_spec, slot arithmetic, line shape, no-merge, codecs; layout injectivity by "
         "vm_compute on the regenerated tables. Without the ':.3f' guard the statement is refuted by a machine-checked witness = KNOWN "
         "finding bpm-3f-rounding. Tempo rows in ANY order: C05_bms_write_denotes_any_order -- for every chart of write_dom and EVERY "
         "permutation of its tempo rows (C10's sort_any_order: sorted + permutation + pairwise distinct offsets) the written lines denote "
         "the chart: hits/holds as above, the file's tempo changes are the rows in time order at the in-memory times and tempos, the tempo "
         "at position 0 is that of the earliest row (the channel-08 object the writer puts at measure 0 position 0 replaces '#BPM', which "
         "prints the FIRST row); the same on the decidable write_dom_any and for the round trip. 'The #BPM header shows the initial tempo' "
         "is refuted for rows out of time order (C05_header_bpm_initial_refuted; real code replayed: '#BPM 150.0' for a chart starting at "
         "120, read back correctly) and proved under the guard first_row_earliest. The reader's guards of the written file are derived from the chart "
         "alone (C05_written_read_guards: note lines in measure order, tempo rows on measure lines, hence the origin tempo object is the first "
         "tempo object listed and the tempo objects are pairwise on the grid); C05_bms_write_read_guarded leaves text_domb as the only "
         "hypothesis of the round trip.",
    note="Trusted: Coq kernel+VM, generator/serialiser, gen_tables, shift_jis and str(float) oracles. Not proved: that write_dom implies "
         "the reader's text-level domain for the written text (false in general: titles with surrounding blanks, lower-case sample ids; "
         "it is a decidable hypothesis of C05_bms_write_read, shown to hold on concrete charts with rows in and out of time order); "
         "float-stream rounding (measured, not proved). 200 of 283 generated quick cases (270 wf) lie in write_dom_any, the domain of the "
         "any-order theorem (188 in write_dom).",
    technique="Coq executable model + reference interpreter + vm_compute correspondence against the implementation",
    design="4/C05")

LAYOUTS = R.LAYOUTS
DENS = [1, 2, 3, 4, 5, 6, 7, 8, 9, 12, 16, 24, 32, 48, 64, 96, 11, 13, 25, 50, 95]
_TABLE = None


def _table():
    global _TABLE
    if _TABLE is None:
        from ..tables import timing
        _TABLE = timing.snapper_table()
    return _TABLE


def _near_midpoint(beats):
    """True when the fractional beat is within 1e-7 of a midpoint between neighbouring snap fractions."""
    t = _table()
    x = beats % 1
    i = bisect_left(t, x)
    if i == 0 or i >= len(t):
        return False
    return abs((x - t[i - 1]) - (t[i] - x)) < Fr(1, 10 ** 7)


class DFr(Fr):
    """Fraction whose str() is the decimal expansion when finite (what a float would print), for '#BPM n'."""

    def __str__(self):
        d = self.denominator
        k = 0
        while d % 10 == 0:
            d //= 10; k += 1
        while d % 2 == 0:
            d //= 2; k += 1
        while d % 5 == 0:
            d //= 5; k += 1
        if d != 1:
            return Fr.__str__(self)
        s = format(Fr(self), f".{max(k, 1)}f")
        return s


def _bpm(rng, exact, first, long_ok):
    r = rng.random()
    if not long_ok:
        r *= 0.88
    if r < 0.45:
        return Fr(rng.choice([60, 90, 100, 120, 125, 128, 150, 160, 175, 180, 200, 240, 300, 999]))
    if r < 0.7:
        return Fr(rng.randint(40 * 4, 400 * 4), 4)
    if r < 0.88:
        return Fr(rng.randint(40000, 400000), 1000)
    if r < 0.94 or first:
        return Fr(rng.randint(400000000, 4000000000), 10 ** 7)          # long decimals: '#BPMxx' loses digits
    return Fr(rng.choice([400, 500, 700, 1000]), rng.choice([3, 7, 9]))  # 133.333..., not a finite decimal


def gen_chart(rng, lname, exact):
    cfg = R._layout(lname)
    cols = [v for v in cfg.values() if isinstance(v, int) and not isinstance(v, bool)]
    conv = (lambda x: Fr(x)) if exact else (lambda x: Fr(float(x)))
    # ---- tempo points on measure lines
    nb = rng.choice([1, 1, 1, 2, 2, 3, 4, 5])
    long_ok = rng.random() < 0.1                     # tempos that ':.3f' cannot hold (known finding) in ~10% of the charts
    bpms = []
    off = Fr(0)
    for i in range(nb):
        b = conv(_bpm(rng, exact, i == 0, long_ok))
        bpms.append([conv(off), b, 4])
        off = bpms[-1][0] + rng.choice([1, 1, 2, 3, 4, 8, 30]) * 4 * Fr(60000) / b
    r = rng.random()
    far = r < 0.04                                   # measures >= 1000: outside the domain (3-digit field)
    # ---- objects
    seg_len = []
    for i in range(nb):
        if i + 1 < nb:
            seg_len.append((bpms[i + 1][0] - bpms[i][0]) / (Fr(60000) / bpms[i][1]))
        else:
            seg_len.append(Fr(rng.choice([4, 8, 16, 40]) if not far else 4400))
    use = rng.sample(cols, rng.randint(1, len(cols)))[:rng.choice([1, 2, 2, 3, 4, 6])]
    names = [f"s{j}.wav" for j in range(rng.choice([0, 1, 2, 4]))]
    ids = rng.sample(range(1, 1296), len(names) + 2)
    lnobj = rng.choice(["ZZ", "ZZ", "ZZ", R.b36(ids[-1])])
    dflt = rng.choice(["01", "01", "01", R.b36(ids[-2])])
    samples = [[R.b36(i), n] for i, n in zip(ids, names) if R.b36(i) not in (lnobj, dflt) or rng.random() < 0.02]
    if rng.random() < 0.3 and "01" not in [s[0] for s in samples] and names:
        samples.append(["01", "kick.wav"])           # the default id names a real sample
    hits, holds = [], []
    for col in use:
        n = rng.choice([0, 1, 1, 2, 2, 3, 4, 6])
        pts = {}
        for _ in range(n):
            i = rng.randrange(nb)
            kind = rng.random()
            if kind < 0.65:
                d = rng.choice(DENS)
                beats = Fr(rng.randrange(int(seg_len[i] * d)), d) if seg_len[i] * d >= 1 else Fr(0)
                grid = True
            elif kind < 0.75:                        # adjacent slots of the finest grid
                beats = Fr(rng.randrange(int(seg_len[i]) * 96), 96)
                grid = True
            else:
                beats = Fr(rng.randrange(int(seg_len[i] * 10 ** 6)), 10 ** 6) if exact or rng.random() < 0.5 \
                    else Fr(rng.random()) * seg_len[i]
                grid = False
            if beats >= seg_len[i]:
                continue
            t = conv(bpms[i][0] + beats * Fr(60000) / bpms[i][1])
            if t < bpms[i][0] or (i + 1 < nb and t >= bpms[i + 1][0]):
                continue
            real_beats = (t - bpms[i][0]) / (Fr(60000) / bpms[i][1])
            if not exact and _near_midpoint(real_beats):
                continue
            pts[t] = (i, real_beats, grid)
        ts = sorted(pts)
        # spacing: an off-grid object stays 1/40 beat away from its neighbours (no shared slot)
        keep = []
        for t in ts:
            i, rb, grid = pts[t]
            if keep:
                pi, prb, pgrid = pts[keep[-1]]
                gap = (t - keep[-1]) / (Fr(60000) / bpms[pi][1])
                if gap < Fr(1, 40) and not (grid and pgrid and rb.denominator <= 96 and prb.denominator <= 96 and exact):
                    continue
            keep.append(t)
        j = 0
        while j < len(keep):
            smp = rng.choice(names + ["", "", "unknown.wav"])
            if j + 1 < len(keep) and rng.random() < 0.3:
                holds.append([keep[j], col, conv(keep[j + 1] - keep[j]), smp])
                if not exact:
                    holds[-1][2] = Fr(float(keep[j + 1]) - float(keep[j]))
                j += 2
            else:
                hits.append([keep[j], col, smp])
                j += 1
    rng.shuffle(hits)
    rng.shuffle(holds)
    if rng.random() < 0.15:
        rng.shuffle(bpms)                                # unsorted tempo rows
        if exact and DFr(bpms[0][1]).__str__().count("/"):
            bpms.sort()
    if rng.random() < 0.03:
        hits.append([conv(Fr(rng.randint(0, 2000))), rng.choice([c for c in range(19) if c not in cols] or [18]), ""])   # KeyError
    case = {"layout": lname, "exact": exact, "dflt": dflt, "lnobj": lnobj,
            "hits": [[F.frac_json(t), c, s] for t, c, s in hits],
            "holds": [[F.frac_json(t), c, F.frac_json(l), s] for t, c, l, s in holds],
            "bpms": [[F.frac_json(o), F.frac_json(b), m] for o, b, m in bpms],
            "samples": samples,
            "title": rng.choice(R.TITLES), "title_bytes": rng.random() < 0.5,
            "artist": rng.choice(["x", "立秋 feat.ちょこ", "A B", ""]),
            "version": rng.choice(["12", "", "7"]),
            "misc": rng.sample([["GENRE", "Intelligence(7-OriginalEdit)"], ["PLAYER", "1"], ["RANK", "3"], ["TOTAL", "567"],
                                ["STAGEFILE", "bg a.bmp"]], rng.choice([0, 1, 3]))}
    return case


def generate(rng, tier):
    n = 280 if tier == "quick" else 7000
    cases = []
    for i in range(n):
        lname = LAYOUTS[i % 5] if i < 50 else rng.choice(LAYOUTS)
        cs = gen_chart(rng, lname, rng.random() < 0.55)
        cs["via_file"] = rng.random() < 0.3              # through BMSMap.write_file (every layout) instead of BMSMap.write
        cs["history"] = rng.random() < 0.34              # the object was written before with other tempo values / times
        cases.append(cs)
    if tier != "quick":
        for nb in (300, 1295):                           # many tempo points (quadratic in Coq); 1295 trips the writer's assert
            cases.append({"layout": "BME", "exact": True, "dflt": "01", "lnobj": "ZZ", "hits": [[[250, 1], 0, ""]], "holds": [],
                          "bpms": [[[2000 * k, 1], [120, 1], 4] for k in range(nb)], "samples": [], "title": "many", "title_bytes": True,
                          "artist": "x", "version": "1", "misc": []})
    return cases


# ------------------------------------------------------------------ implementation side
def num_f(x, exact):
    return x if exact else float(x)


def execute(case):
    from reamber.base.RAConst import RAConst
    from reamber.bms.BMSMap import BMSMap
    from reamber.bms import BMSHit, BMSHold
    from reamber.bms.BMSBpm import BMSBpm
    from reamber.bms.lists import BMSBpmList
    from reamber.bms.lists.notes import BMSHitList, BMSHoldList
    exact = case["exact"]
    fj = F.frac_from_json
    num = (lambda p: fj(p)) if exact else (lambda p: float(fj(p)))
    old = RAConst.MIN_TO_MSEC
    try:
        if exact:
            RAConst.MIN_TO_MSEC = Fr(60000)
        m = BMSMap()
        enc = lambda s: s.encode("shift_jis")
        bnum = (lambda b: DFr(b)) if exact else (lambda b: float(b))
        hist = bool(case.get("history"))
        # history: the object first holds OTHER tempo values / times (tempo doubled, every time halved: still 4/4 on measure
        # lines), is written once, and then gets the real values through the in-place column setters of its lists
        h2 = Fr(1, 2) if hist else Fr(1)
        m.hits = BMSHitList([BMSHit(num_f(fj(t) * h2, exact), int(c), enc(s)) for t, c, s in case["hits"]])
        m.holds = BMSHoldList([BMSHold(num_f(fj(t) * h2, exact), int(c), num_f(fj(l) * h2, exact), enc(s)) for t, c, l, s in case["holds"]])
        m.bpms = BMSBpmList([BMSBpm(num_f(fj(o) * h2, exact), bnum(fj(b) / h2), metronome=mt) for o, b, mt in case["bpms"]])
        m.samples = {enc(k): enc(v) for k, v in case["samples"]}
        m.ln_end_channel = enc(case["lnobj"])
        m.title = enc(case["title"]) if case["title_bytes"] else case["title"]
        m.artist = case["artist"]
        m.version = enc(case["version"])
        m.misc = {enc(k): enc(v) for k, v in case["misc"]}
        if hist:
            try:
                m.write(R._layout(case["layout"]), no_sample_default=enc(case["dflt"]))          # first write, discarded
            except (KeyError, IndexError, AssertionError, ValueError, ZeroDivisionError):
                pass
            if case["bpms"]:
                m.bpms.bpm = [bnum(fj(b)) for _, b, _ in case["bpms"]]
                m.bpms.offset = [num(o) for o, _, _ in case["bpms"]]
            if case["hits"]:
                m.hits.offset = [num(t) for t, _, _ in case["hits"]]
            if case["holds"]:
                m.holds.offset = [num(t) for t, _, _, _ in case["holds"]]
                m.holds.length = [num(l) for _, _, l, _ in case["holds"]]
        try:
            if case.get("via_file"):
                # BMSMap.write_file: the same bytes through a file; the layout and the default id must be forwarded
                import os
                import tempfile
                with tempfile.TemporaryDirectory() as td:
                    path = os.path.join(td, "chart.bms")
                    m.write_file(path, R._layout(case["layout"]), no_sample_default=enc(case["dflt"]))
                    with open(path, "rb") as f:
                        b = f.read()
            else:
                b = m.write(R._layout(case["layout"]), no_sample_default=enc(case["dflt"]))
        except (KeyError, IndexError, AssertionError, ValueError, ZeroDivisionError) as e:
            return {"v": None, "exc": type(e).__name__ + ": " + str(e)[:100]}
        text = b.decode("shift_jis")
        return {"v": text.split("\r\n"), "codec_roundtrip": text.encode("shift_jis") == b}
    finally:
        RAConst.MIN_TO_MSEC = old


# ------------------------------------------------------------------ Coq side
def emit(case, out):
    tol = "0" if case["exact"] else "(1#1000000)"
    ix = LAYOUTS.index(case["layout"])
    qj = R._qj
    T = R.coq_text
    hits = F.lst([f"(mkHit {F.z(c)} {qj(t)} {T(s)})" for t, c, s in case["hits"]])
    holds = F.lst([f"(mkHold {F.z(c)} {qj(t)} {qj(l)} {T(s)})" for t, c, l, s in case["holds"]])
    bpms = F.lst([f"(mkBco {qj(b)} {F.q(mt)} {qj(o)})" for o, b, mt in case["bpms"]])
    smp = F.lst([f"({T(k)}, {T(v)})" for k, v in case["samples"]])
    misc = F.lst([f"({T(k)}, {T(v)})" for k, v in case["misc"]])
    ch = (f"(mkW {hits} {holds} {bpms} {smp} {T(case['lnobj'])} {T(case['title'])} {T(case['artist'])} "
          f"{T(case['version'])} {misc})")
    o = "None" if out["v"] is None else "(Some " + R.coq_texts(out["v"]) + ")"
    return f"CWrite {tol} {ix}%nat {T(case['dflt'])} {ch} {o}"


def _long_decimals(case):
    """some tempo does not survive ':.3f' (exact stream: more than 3 decimals; float stream: not the float of its own
    3-decimal print)"""
    for _, b, _ in case["bpms"]:
        b = F.frac_from_json(b)
        if case["exact"]:
            if (b * 1000).denominator != 1:
                return True
        elif float(f"{float(b):.3f}") != float(b):
            return True
    return False


def nontrivial(case, out):
    return len(case["hits"]) + 2 * len(case["holds"]) >= 2


def bucket(case, out):
    k = case["layout"] + ("" if case["exact"] else "-float")
    k += "/bpms=%d" % min(4, len(case["bpms"]))
    k += "/holds" if case["holds"] else ""
    k += "/3f" if _long_decimals(case) else ""
    k += "/file" if case.get("via_file") else ""
    k += "/hist" if case.get("history") else ""
    if out.get("v") is None:
        k += "/exc"
    return k


def classify(case, out, kind):
    if kind == "spec" and out.get("v") is not None and _long_decimals(case):
        return "bpm-3f-rounding"
    return None


def describe(case, out):
    return (f"BMSMap.write layout={case['layout']} exact={case['exact']} hits={len(case['hits'])} holds={len(case['holds'])} "
            f"bpms={[float(F.frac_from_json(b)) for _, b, _ in case['bpms']]} exc={out.get('exc') if out else None}")


def shrink(case):
    for key in ("hits", "holds", "samples", "misc"):
        for i in range(len(case[key])):
            c = dict(case)
            c[key] = case[key][:i] + case[key][i + 1:]
            yield c
    if len(case["bpms"]) > 1:
        srt = sorted(case["bpms"], key=lambda r: F.frac_from_json(r[0]))
        last = srt[-1]
        t_last = F.frac_from_json(last[0])
        if not any(F.frac_from_json(h[0]) >= t_last for h in case["hits"]) and \
                not any(F.frac_from_json(h[0]) + F.frac_from_json(h[2]) >= t_last for h in case["holds"]):
            c = dict(case)
            c["bpms"] = [r for r in case["bpms"] if r is not last]
            yield c
