"""C04: BMS reading.  The generator writes BMS/BME/PMS texts (4/4 only), the implementation driver calls the
public BMSMap.read(lines, layout) and the serialiser hands (lines, chart) to Coq, where the model bms_read is
compared with the chart (corr) and the reference interpreter bms_denote is evaluated on the chart (spec).

Exact stream: RAConst.MIN_TO_MSEC = Fraction(60000) and the name `float` inside the module reamber.bms.BMSMap
bound to an exact decimal parser, both set from this process (no source hook): the reader then computes every
time in fractions.Fraction and must agree with the model exactly.  Rounded stream: the unmodified float path,
compared with tolerance 1e-6 ms."""
from fractions import Fraction as Fr
import math
import sys

from .. import coqfmt as F

ID = "C04"
RUNNER = "Corr.RunC04"
CASE_TYPE = "c04case"
RUNNER_TARGETS = ["Corr/RunC04.vo"]
PROOF_TARGETS = ["Props/C04.vo"]
PROPS_FILE = "Props/C04.v"
PROPS_MODULE = "Props.C04"
RULE = ("seeded generator of BMS texts: each of the five shipped layouts; header fields (title/artist/level/BPM/others, "
        "filled and unfilled, ASCII and shift_jis text), WAV and extended-BPM tables, LNOBJ; note objects per lane at "
        "measure fractions with subdivisions 1..192 (boundary-biased: 1,2,3,4,...,96,97,99,101,128,192), several lines "
        "per measure+channel (overlay), ignored channels, integer (03) and extended (08) tempo objects anywhere in a "
        "measure incl. measure 0 position 0, lines in time order or shuffled; about a third of the texts carry MIXED-CASE ids (WAV ids, "
        "#BPMxx ids, LNOBJ, data pairs) including ids that differ only in letter case (#WAV0a next to #WAV0A, #BPM0t / #BPM0T on channel 08, "
        "#LNOBJ zz with a playable #WAVZZ) -- judged as case kind CReadIds (wf_bms_lines_ids: outside the theorems' domain when a table key "
        "holds a lower-case id, still compared with the model and with the oracle); a quarter of the cases go through BMSMap.read_file from "
        "a shift_jis temp file instead of BMSMap.read; a case is non-trivial when it has >= 2 data "
        "lines with objects; distinct by hash of the canonical JSON of the input")
ASSUMPTIONS = [
    "shift_jis codec is an oracle: the model works on decoded lines; the harness decodes the implementation's bytes and "
    "only generates text that round-trips through the codec (tested per case)",
    "exact stream: implementation executed on fractions.Fraction (RAConst.MIN_TO_MSEC and the module-level name `float` of "
    "reamber.bms.BMSMap patched from the harness process); rounded stream: unmodified floats, tolerance 1e-6 ms, binary64 "
    "rounding is measured not proved",
    "Python float()/int() grammar is modelled for plain decimals / digit strings / two hex digits only (no '_', 'inf', 'nan', "
    "signs in ids); the generator stays inside that grammar and wf_bms_lines states it",
    "bpm > 0 (a zero tempo raises ZeroDivisionError in the code and is a division by zero = 0 in Q)",
]
TRUSTED = ["harness/tables/bms.py (layouts -> Tables.bms)"]
MANIFEST = dict(
    text="Coq 8.16.1: executable Gallina model of BMSMap.read on decoded lines (line classifier, header tables, pair positions "
         "Fraction(i,k)*4, 03/08 tempo, lane lookup per layout, per-lane stable sort by position then LNOBJ pairing, measure-0 "
         "override, times through the C10/C11 timing model) tied to the code on every run by in-Coq correspondence (exact on "
         "fractions.Fraction, and a rounded float stream), plus an independent reference interpreter bms_denote evaluated on every "
         "chart the implementation returns. Proved, on a TEXT-LEVEL decidable domain only: C04_bms_read_text -- for every layout "
         "satisfying the layout obligations (vm_compute on the regenerated tables) and every text with wf_bms_lines (the property's "
         "quantifier = what the runner evaluates as wf) and read_guards (tempo objects pairwise on the 1/96 grid, a tempo object at the "
         "origin listed first), lines in any order and overlaid: whenever the read returns a chart, it is the chart bms_denote assigns "
         "to the text, rows up to order (hits and holds as multisets: column, sample, time of the 03/08/#BPM script by integration; "
         "title/artist/level/LNOBJ/#BPMxx/#WAVxx tables; other headers in misc). Its parts, each for all inputs: C04_text_in_domain "
         "(the parsing refinement: the reader's line loop, header dict and pair loop collect exactly the format's header table and "
         "object list, the script lies in C10's domain), C04_lanes_order (columns ascending = layout order as multisets), "
         "C04_ln_pairing_refines, C04_tempo_script, C04_bms_read_denotes (per lane in time order, via C10's offsets_on_grid_b). "
         "C04_bms_read_returns: on that domain the read returns exactly when TimingMap.reseat() (C11) returns and the chart's tempo list "
         "is reseat's. C04_bms_read_initial_tempo: under the decidable text-level guard reseat_textb (script inside C11's wf_unseated "
         "and no_extend, no tempo object strictly inside measure 0) the read returns and the tempo list starts at 0 ms with the denoted "
         "initial tempo. C04_bms_read_tempo_list_on_lines: when every 03/08 object sits at position 0 of its measure (bms_tempo_on_lines) the read "
         "returns and the chart's tempo list is exactly the denoted tempo script (count, order, ms, bpm, metronome 4). C04_bms_read_header (whole file, outright); id/measure codecs inverse; pair position 4i/k. Without the grid "
         "guard the statement is refuted by a machine-checked witness (KNOWN finding tempo-offgrid-resnap).",
    note="Trusted: Coq kernel+VM, generator/serialiser, gen_tables, shift_jis codec (oracle). Not proved: the reseated tempo "
         "list beyond its first point when some tempo object is off the measure lines, the initial tempo when a "
         "tempo object lies strictly inside measure 0 (reseat re-expresses it as a shorter first measure), binary64 rounding "
         "(rounded stream, 1e-6 ms). The runner still evaluates read_theorem_domain per wf text as a redundant cross-check of "
         "C04_text_in_domain.",
    technique="Coq executable model + reference interpreter + vm_compute correspondence against the implementation",
    design="4/C04")

B36 = "0123456789ABCDEFGHIJKLMNOPQRSTUVWXYZ"
LAYOUTS = ["BMS", "BME", "PMS", "PMS_BME", "PMS_5B"]
SUBDIVS = [1, 2, 3, 4, 5, 6, 7, 8, 9, 12, 16, 24, 32, 48, 64, 96, 11, 13, 25, 97, 99, 101, 128, 144, 190, 191, 192]
GRID_SUBDIVS = [1, 2, 3, 4, 6, 8, 12, 16, 24, 32, 48, 64, 96, 192]      # pairwise differences stay on the 1/96 beat grid
TITLES = ["take", "searoad tracks =side blue= (LN-Applied)", "a b  c", "竹", "立秋 feat.ちょこ",
          "x", "[7KEYS] #1: intro", "cold breath", "ABC def", "ﾊﾟｲ"]


def b36(n):
    return B36[n // 36] + B36[n % 36]


def _layout(name):
    from reamber.bms.BMSChannel import BMSChannel
    return getattr(BMSChannel, name)


def _sjis_ok(s):
    try:
        return s.encode("shift_jis").decode("shift_jis") == s
    except Exception:
        return False


def _bpm_text(rng):
    r = rng.random()
    if r < 0.4:
        return str(rng.choice([60, 90, 100, 120, 125, 128, 150, 160, 180, 200, 219, 240, 300]))
    if r < 0.6:
        return f"{rng.randint(40, 400)}.{rng.choice(['5', '25', '75', '0', '125', '000'])}"
    if r < 0.85:
        return f"{rng.randint(40, 400)}.{rng.randint(0, 999):03d}"
    return f"{rng.randint(1, 999)}.{rng.randint(0, 9999999):07d}".rstrip("0").rstrip(".") or "1"


def _realise(rng, objs, keep_together=False):
    """objs: list of (pos Fraction in [0,1), id) for one (measure, channel) -> list of data strings (overlay)."""
    rng.shuffle(objs)
    nparts = rng.choice([1, 1, 1, 2, 2, 3]) if len(objs) > 1 else 1
    if keep_together:
        nparts = 1
        objs.sort()                                      # if the group must be split, its lines stay in time order
    parts = [objs[i::nparts] for i in range(nparts)]
    out = []
    for part in parts:
        if not part:
            continue
        L = 1
        for p, _ in part:
            L = L * p.denominator // math.gcd(L, p.denominator)
        groups = [part] if L <= 192 else [[o] for o in part]
        for g in groups:
            L = 1
            for p, _ in g:
                L = L * p.denominator // math.gcd(L, p.denominator)
            facs = [f for f in (1, 1, 1, 2, 3, 4, 8) if L * f <= 192]
            k = L * rng.choice(facs)
            data = ["00"] * k
            for p, ident in g:
                data[int(p * k)] = ident
            out.append("".join(data))
    return out


def gen_text(rng, lname):
    cfg = _layout(lname)
    lanes = [(k.decode(), v) for k, v in cfg.items() if isinstance(v, int) and not isinstance(v, bool)]
    wild = rng.random() < 0.2                      # tempo objects at arbitrary subdivisions (pairwise off-grid possible)
    M = rng.choice([1, 2, 3, 4, 4, 8, 8, 50, 999])
    hdr = []
    # --- tables.  mixed: ids are exact byte strings -- letters in either case, and ids that differ ONLY in case
    mixed = rng.random() < 0.35

    def mc(s):
        return "".join(c.lower() if (mixed and c.isalpha() and rng.random() < 0.5) else c for c in s)

    def letter_id():
        while True:
            i = b36(rng.randint(10, 1295))
            if any(c.isalpha() for c in i):
                return i

    lnobj = rng.choice([None, None, "ZZ", "ZZ", b36(rng.randint(1, 1295))])
    if lnobj and mixed:
        lnobj = rng.choice([lnobj, lnobj.lower(), mc(lnobj)])
    ids = rng.sample(range(1, 60), rng.choice([0, 1, 3, 6])) + rng.sample(range(60, 1296), rng.choice([0, 1]))
    wav_ids = [mc(b36(i)) for i in ids]
    if mixed and rng.random() < 0.6:                     # a pair of sample ids differing only in case
        base = letter_id()
        wav_ids += [base, base.lower()]
    if mixed and lnobj and lnobj.swapcase() != lnobj and rng.random() < 0.5:
        wav_ids.append(lnobj.swapcase())                 # a playable id that differs from LNOBJ only in case
    wav_ids = [w for w in dict.fromkeys(wav_ids) if w != lnobj and w != "00"]
    for w in wav_ids:
        hdr.append(f"#WAV{w} {rng.choice(['kick', 'snare 01', 'a_b', 'hat'])}{rng.randint(0, 99)}.wav")
    note_ids = wav_ids + [x for x in (mc(b36(i)) for i in rng.sample(range(1, 1296), 2)) if x != lnobj and x != "00"]
    ex = {}
    for i in rng.sample(range(1, 1296), rng.choice([0, 0, 1, 2, 3])):
        ex[mc(b36(i))] = _bpm_text(rng)
    if mixed and rng.random() < 0.5:                     # a pair of tempo ids differing only in case
        base = letter_id()
        ex[base] = _bpm_text(rng)
        ex[base.lower()] = _bpm_text(rng)
    for k, v in ex.items():
        hdr.append(f"#BPM{k} {v}")
    if lnobj:
        hdr.append(f"#LNOBJ {lnobj}")
    # --- plain header fields
    if rng.random() < 0.9:
        hdr.append("#TITLE " + rng.choice(TITLES))
    if rng.random() < 0.85:
        hdr.append("#ARTIST " + rng.choice(["sasakure.UK / obj:moya", "x", "立秋", "A B"]))
    if rng.random() < 0.85:
        hdr.append("#PLAYLEVEL " + str(rng.choice([0, 3, 12, 16, 99])))
    if rng.random() < 0.98:
        hdr.append("#BPM " + _bpm_text(rng))
    for extra in rng.sample(["#PLAYER 1", "#GENRE Intelligence(7-OriginalEdit)", "#RANK 3", "#TOTAL 567", "#STAGEFILE bga bg.bmp",
                             "#SUBTITLE [x: y]", "#DIFFICULTY 4", "#STAGEFILE", "#BACKBMP", "*---------------------- HEADER FIELD",
                             "", "#BMP01 a.bmp", "#LNTYPE 1"], rng.choice([0, 2, 4, 6])):
        hdr.append(extra)
    if rng.random() < 0.03:
        hdr.append(rng.choice(["#TITLE second title", "#BPM 99"]))          # duplicate key: outside wf, corr only
    # --- tempo objects
    tempos = {}
    for _ in range(rng.choice([0, 0, 1, 1, 2, 3, 4])):
        m = rng.randint(0, M)
        k = rng.choice(SUBDIVS) if wild else rng.choice(GRID_SUBDIVS)
        pos = Fr(rng.randrange(k), k) if rng.random() < 0.75 else Fr(0)
        if rng.random() < 0.12:
            m, pos = 0, Fr(0)
        if (m, pos) in tempos:
            continue
        if ex and rng.random() < 0.5:
            tempos[(m, pos)] = ("08", rng.choice(sorted(ex)))
        else:
            v = rng.choice([rng.randint(1, 255), rng.randint(60, 240), 120, 255, 16])
            h = "%02X" % v
            tempos[(m, pos)] = ("03", h.lower() if rng.random() < 0.2 else h)
    # --- note objects per lane
    per = {}
    use = rng.sample(lanes, rng.randint(1, len(lanes)))[:rng.choice([1, 2, 3, 5, 18])]
    for ch, col in use:
        n = rng.choice([0, 1, 2, 3, 4, 6])
        pts = set()
        for _ in range(n):
            m = rng.randint(0, M)
            k = rng.choice(SUBDIVS)
            pts.add((m, Fr(rng.randrange(k), k)))
        pts = sorted(pts)
        kinds = []
        for j, p in enumerate(pts):
            if lnobj and j > 0 and kinds[j - 1] != lnobj and rng.random() < 0.35:
                kinds.append(lnobj)
            else:
                kinds.append(rng.choice(note_ids))
        for (m, pos), ident in zip(pts, kinds):
            per.setdefault((m, ch), []).append((pos, ident))
    for (m, pos), (ch, ident) in tempos.items():
        per.setdefault((m, ch), []).append((pos, ident))
    # ignored channels
    for _ in range(rng.choice([0, 0, 1, 2])):
        m = rng.randint(0, M)
        k = rng.choice([1, 2, 4, 8])
        per.setdefault((m, rng.choice(["01", "04", "06", "1A", "D1"])), []).append((Fr(rng.randrange(k), k), rng.choice(note_ids)))
    data = []
    for (m, ch) in sorted(per):
        tail_here = lnobj is not None and any(ident == lnobj for _, ident in per[(m, ch)])
        for d in _realise(rng, list(per[(m, ch)]), keep_together=tail_here and rng.random() < 0.3):
            data.append(f"#{m:03d}{ch}:{d}")
    if rng.random() < 0.05:
        data.append(f"#{rng.randint(0, M):03d}{use[0][0]}:" + rng.choice(["0", "010", "", "00"]))     # odd / empty data
    r = rng.random()
    if r < 0.45:
        lines = hdr + data                               # time order
    elif r < 0.6:
        rng.shuffle(hdr)
        lines = hdr + ["", "*---------------------- MAIN DATA FIELD", ""] + data
    else:
        lines = hdr + data
        rng.shuffle(lines)                               # any order
    if rng.random() < 0.04:
        lines = [rng.choice(["", " ", "\t"]) + l + rng.choice(["", " ", "\r"]) for l in lines]
    return [l for l in lines if _sjis_ok(l)]


def generate(rng, tier):
    n = 360 if tier == "quick" else 9000
    cases = []
    for i in range(n):
        lname = LAYOUTS[i % 5] if i < 50 else rng.choice(LAYOUTS)
        exact = rng.random() < 0.7
        lines = gen_text(rng, lname)
        cases.append({"layout": lname, "exact": exact, "lines": lines, "via_file": rng.random() < 0.25})
    return cases


# ------------------------------------------------------------------ implementation side
def _exact_float(v):
    """float() replacement for the exact stream: same accepted inputs, exact value."""
    if isinstance(v, (bytes, bytearray)):
        s = bytes(v).decode("ascii")
    elif isinstance(v, str):
        s = v
    else:
        return Fr(v)
    float(s)                       # same ValueError as the original
    return Fr(s.strip())


def _txt(b):
    if isinstance(b, (bytes, bytearray)):
        return bytes(b).decode("shift_jis")
    return str(b)


def execute(case):
    from reamber.base.RAConst import RAConst
    from reamber.bms.BMSMap import BMSMap
    mod = sys.modules["reamber.bms.BMSMap"]
    exact = case["exact"]
    old = RAConst.MIN_TO_MSEC
    had = "float" in mod.__dict__
    try:
        if exact:
            RAConst.MIN_TO_MSEC = Fr(60000)
            mod.__dict__["float"] = _exact_float
        try:
            if case.get("via_file"):
                # BMSMap.read_file: the same text from a shift_jis file (codecs reader + strip), layout forwarded
                import os
                import tempfile
                with tempfile.TemporaryDirectory() as td:
                    path = os.path.join(td, "chart.bms")
                    with open(path, "wb") as f:
                        f.write("\n".join(case["lines"]).encode("shift_jis"))
                    m = BMSMap.read_file(path, _layout(case["layout"]))
            else:
                m = BMSMap.read(list(case["lines"]), _layout(case["layout"]))
        except (ValueError, KeyError, IndexError, ZeroDivisionError) as e:
            return {"v": None, "exc": type(e).__name__ + ": " + str(e)[:100]}
        except Exception as e:
            if type(e) is Exception and str(e).startswith("Failed to match LN Tail"):
                return {"v": None, "exc": "Exception: " + str(e)[:100]}
            raise
        q = lambda x: F.frac_json(Fr(x))
        v = {
            "hits": [[int(c), q(o), _txt(s)] for o, c, s in zip(m.hits.offset, m.hits.column, m.hits.sample)],
            "holds": [[int(c), q(o), q(l), _txt(s)] for o, c, l, s in
                      zip(m.holds.offset, m.holds.column, m.holds.length, m.holds.sample)],
            "bpms": [[q(o), q(b), q(mt)] for o, b, mt in zip(m.bpms.offset, m.bpms.bpm, m.bpms.metronome)],
            "title": _txt(m.title), "artist": _txt(m.artist), "version": _txt(m.version), "lnobj": _txt(m.ln_end_channel),
            "exbpms": [[_txt(k), q(x)] for k, x in m.exbpms.items()],
            "samples": [[_txt(k), _txt(x)] for k, x in m.samples.items()],
            "misc": [[_txt(k), _txt(x)] for k, x in m.misc.items()],
        }
        return {"v": v}
    finally:
        RAConst.MIN_TO_MSEC = old
        if not had:
            mod.__dict__.pop("float", None)


# ------------------------------------------------------------------ Coq side
def coq_text(s):
    """list of code points, runs of >= 8 equal characters compressed as  R c n  (decoded inside Coq by tx)."""
    cps = [ord(c) for c in s]
    segs, cur, i = [], [], 0
    while i < len(cps):
        j = i
        while j < len(cps) and cps[j] == cps[i]:
            j += 1
        if j - i >= 8:
            if cur:
                segs.append("L[" + ";".join(map(str, cur)) + "]")
                cur = []
            segs.append(f"R {cps[i]} {j - i}")
        else:
            cur.extend(cps[i:j])
        i = j
    if cur:
        segs.append("L[" + ";".join(map(str, cur)) + "]")
    return "(tx[" + ";".join(segs) + "])%Z"


def coq_texts(ls):
    return F.lst([coq_text(l) for l in ls])


def _qj(p):
    return F.q(F.frac_from_json(p))


def emit(case, out):
    tol = "0" if case["exact"] else "(1#1000000)"
    ix = LAYOUTS.index(case["layout"])
    v = out["v"]
    if v is None:
        o = "None"
    else:
        hits = F.lst([f"(mkHit {F.z(c)} {_qj(o)} {coq_text(s)})" for c, o, s in v["hits"]])
        holds = F.lst([f"(mkHold {F.z(c)} {_qj(o)} {_qj(l)} {coq_text(s)})" for c, o, l, s in v["holds"]])
        bpms = F.lst([f"(mkBco {_qj(b)} {_qj(mt)} {_qj(o)})" for o, b, mt in v["bpms"]])
        ex = F.lst([f"({coq_text(k)}, {_qj(x)})" for k, x in v["exbpms"]])
        smp = F.lst([f"({coq_text(k)}, {coq_text(x)})" for k, x in v["samples"]])
        misc = F.lst([f"({coq_text(k)}, {coq_text(x)})" for k, x in v["misc"]])
        meta = (f"(mkMeta {coq_text(v['title'])} {coq_text(v['artist'])} {coq_text(v['version'])} {coq_text(v['lnobj'])} "
                f"{ex} {smp} {misc} 0)")
        o = f"(Some (mkChart {hits} {holds} {bpms} {meta}))"
    return f"{'CReadIds' if _lower_ids(case) else 'CRead'} {tol} {ix}%nat {coq_texts(case['lines'])} {o}"


def _lower_ids(case):
    """some '#WAVxx' / '#BPMxx' key carries a lower-case id: outside wf_bms_lines (upper-case keys), inside wf_bms_lines_ids"""
    for raw in case["lines"]:
        l = raw.strip()
        k = l.split(" ", 1)[0]
        if len(k) == 6 and k[:4] in ("#WAV", "#BPM") and any(c.islower() for c in k[4:]):
            return True
    return False


# ------------------------------------------------------------------ reading of a text for bookkeeping / classification
def _objects(case):
    """(measure, pos, channel, id, line index, pair index) of every object of every syntactically plain data line."""
    out = []
    for li, raw in enumerate(case["lines"]):
        l = raw.strip()
        if len(l) < 7 or l[0] != "#" or not l[1:4].isdigit() or l[6] != ":" or " " in l:
            continue
        data = l[7:]
        k = len(data) // 2
        if k == 0 or len(data) % 2:
            continue
        for i in range(k):
            d = data[2 * i:2 * i + 2]
            if d != "00":
                out.append((int(l[1:4]), Fr(i, k), l[4:6], d, li, i))
    return out


def _traits(case):
    """Which known defect classes this text can exhibit (computed from the text alone)."""
    cfg = {k.decode(): v for k, v in _layout(case["layout"]).items()}
    objs = _objects(case)
    lnobj = None
    for raw in case["lines"]:
        l = raw.strip()
        if l.startswith("#LNOBJ "):
            lnobj = l.split(" ", 1)[1]
    traits = set()
    # (a) [repaired in f4fcb45, no longer a known class; kept as a descriptive trait only] an LN tail whose last parsed
    #     head is not the preceding object of the lane in time
    lanes = {}
    for o in objs:
        col = cfg.get(o[2])
        if isinstance(col, int):
            lanes.setdefault(col, []).append(o)
    for col, l in lanes.items():
        bytime = sorted(l, key=lambda o: (o[0], o[1]))
        for o in l:
            if o[3] != lnobj:
                continue
            idx = bytime.index(o)
            prev_time = bytime[idx - 1] if idx > 0 else None
            stack = []
            for p in l:                       # parse order
                if p is o:
                    break
                if p[3] == lnobj:
                    if stack:
                        stack.pop()
                else:
                    stack.append(p)
            last_parsed = stack[-1] if stack else None
            if last_parsed is not prev_time:
                traits.add("ln-lines-out-of-time-order")
    # (b) a tempo object whose beat distance to the previous tempo object is not on the 1/96 grid
    t = sorted({(o[0], o[1]) for o in objs if o[2] in ("03", "08")})
    prev = (0, Fr(0))
    for m, p in t:
        dist = (m - prev[0]) * 4 + (p - prev[1]) * 4
        if (dist % 1).denominator > 96:
            traits.add("tempo-offgrid-resnap")
        prev = (m, p)
    return traits


def nontrivial(case, out):
    return len({o[4] for o in _objects(case)}) >= 2


def bucket(case, out):
    objs = _objects(case)
    k = case["layout"] + ("" if case["exact"] else "-rounded")
    k += "/tempo=%d" % min(3, len([o for o in objs if o[2] in ("03", "08")]))
    k += "/ln" if any(l.strip().startswith("#LNOBJ") for l in case["lines"]) else ""
    k += "/ids" if _lower_ids(case) else ""
    k += "/file" if case.get("via_file") else ""
    if out.get("v") is None:
        k += "/exc"
    return k


def classify(case, out, kind):
    if kind != "spec":
        return None
    tr = _traits(case)
    v = out.get("v")
    if "tempo-offgrid-resnap" in tr and v is not None:
        return "tempo-offgrid-resnap"
    return None


def describe(case, out):
    return (f"BMSMap.read layout={case['layout']} exact={case['exact']} lines={len(case['lines'])} "
            f"objects={len(_objects(case))} traits={sorted(_traits(case))} exc={out.get('exc') if out else None}")


def shrink(case):
    ls = case["lines"]
    for i in range(len(ls)):
        c = dict(case)
        c["lines"] = ls[:i] + ls[i + 1:]
        yield c
