"""C10: timing engine.  Exact stream: the implementation is run on fractions.Fraction with
RAConst.MIN_TO_MSEC = Fraction(60000) (set from this process, no source hook), so model and
implementation must agree exactly.  Rounded stream: floats, tolerance."""
from fractions import Fraction as Fr
import math

from .. import coqfmt as F

ID = "C10"
RUNNER = "Corr.RunC10"
CASE_TYPE = "c10case"
RUNNER_TARGETS = ["Corr/RunC10.vo"]
PROOF_TARGETS = ["Props/C10.vo"]
PROPS_FILE = "Props/C10.v"
PROPS_MODULE = "Props.C10"
RULE = ("seeded generator of tempo scripts (1..6 changes, bpm from dyadic/decimal/awkward families, metronomes 1..8 "
        "changing on measure lines, pairwise on the 1/96 grid) and query multisets (unsorted, duplicates, grid points of "
        "every denominator, +-eps off grid; cumulative beats also at arbitrary off-grid times; tempo lists also handed over shuffled; 40 % of the position -> ms cases with query Snap objects carrying a metronome field of their own, 9 / 12 / 16, which says nothing about the position); 'snapper_div' cases: Snapper(divisions=...) with custom divisions listed in any order against the table of all fractions of denominator <= max(divisions) built by the harness; 'keeps' cases: the map built by BpmList.to_timing_map / from_bpm_changes_offset from lists in any order, at arbitrary ms positions, with repeated tempos, holds exactly the changes given; a case is non-trivial when it has >=2 tempo changes or >=2 distinct queries; "
        "distinct by hash of the canonical JSON of the input")
ASSUMPTIONS = [
    "binary64 rounding inside the implementation is not modelled: the exact stream runs the implementation on "
    "fractions.Fraction (duck typing, RAConst.MIN_TO_MSEC patched to Fraction(60000) in the harness process); "
    "the rounded stream is compared with tolerance 1e-6 ms",
    "numpy argsort on equal keys may order ties arbitrarily; equal snaps/offsets give equal results so this is unobservable",
]
TRUSTED = []
MANIFEST = dict(
    text="Machine-checked theorems (Coq 8.16.1, Props/C10.v, all closed under the global context) about an executable Gallina model of "
         "Snapper/Snap/TimingMap over exact rationals, for ALL inputs in boolean domains that the runner also evaluates on every case: "
         "(1) snapper: nearest allowed fraction, within 1/192, idempotent, for every table meeting the structural obligations (re-checked on the "
         "table regenerated from the live Snapper each run); (2) position->ms: offsets = piecewise-linear integration, in query order "
         "(C10_offsets_on_grid, incl. that re-derived positions are the script's); (3) ms->position->ms: snaps succeeds, query order, normalised "
         "positions, time within beat_length/192 of the query and equal on the snap grid relative to the active change, offsets(snaps(os)) returns "
         "those times (C10_ms_roundtrip), and snaps(times of on-grid positions) = the positions (C10_position_roundtrip); (4) cumulative beats, "
         "constant metronome: = measure*M+beat of the snapped position, within 1/192 of the integral of bpm/60000 and equal on the grid, differences "
         "= integrated beat distance, monotone in time for all times (C10_beats, C10_beats_of_positions); (5) tempo changes in any order with "
         "distinct offsets give the same map (C10_any_order, C10_any_order_on_grid). Nothing is partial. The model is tied to the code by in-Coq "
         "correspondence (implementation executed on fractions.Fraction, exact equality, tempo lists also shuffled) plus the theorems' conclusions "
         "evaluated on the implementation's outputs.",
    note="Trusted: Coq kernel+VM, harness generator/serialiser, gen_tables translator; binary64 rounding measured (rounded stream, tol 1e-6 ms) not proved; "
         "integer metronomes (runner: 1..8), beats for one shared metronome, queries at or after the first change; "
         "theorems are 'Closed under the global context'.",
    technique="Coq proof over executable model + vm_compute correspondence against the implementation",
    design="4/C10")

DENS = [1, 2, 3, 4, 5, 6, 7, 8, 9, 12, 16, 24, 32, 48, 64, 96, 11, 13, 27, 50, 95]


def _bpm(rng, exact):
    fam = rng.random()
    if fam < 0.4:
        return Fr(rng.choice([60, 75, 90, 100, 120, 125, 150, 160, 175, 180, 200, 240, 300, 60000]))
    if fam < 0.7:
        return Fr(rng.randint(30, 400) * 4 + rng.randint(0, 3), 4)
    if fam < 0.9:
        return Fr(rng.randint(3000, 40000), 100)
    return Fr(rng.randint(1, 10 ** 6), rng.randint(1, 5000))


def _script(rng, n=None, same_met=False):
    """Strictly increasing tempo changes, first at (0,0), pairwise on the 1/96 grid,
    metronome changes only on measure lines."""
    n = n or rng.choice([1, 1, 2, 2, 3, 3, 4, 5, 6])
    met = rng.choice([4, 4, 4, 3, 1, 2, 5, 6, 7, 8])
    l = [{"bpm": _bpm(rng, True), "met": met, "m": 0, "b": Fr(0)}]
    m, b = 0, Fr(0)
    for _ in range(n - 1):
        new_met = met if (same_met or rng.random() < 0.6) else rng.choice([1, 2, 3, 4, 5, 6, 7, 8])
        if new_met != met or rng.random() < 0.4:
            # on a measure line
            m = m + rng.choice([1, 1, 2, 3, 10]) if True else m
            b = Fr(0)
        else:
            d = rng.choice(DENS[:16])
            step = Fr(rng.randint(1, 6 * d), d)
            tot = m * met + b + step
            m, b = int(tot // met), tot % met
        met = new_met
        l.append({"bpm": _bpm(rng, True), "met": met, "m": m, "b": b})
    return l


def _active(l, m, b):
    cur = l[0]
    for c in l[1:]:
        if (c["m"], c["b"]) <= (m, b):
            cur = c
    return cur


def _pos_add(c, nxt, beats):
    """position `beats` beats after change c (inside c's segment), as (m, b) under c's metronome"""
    tot = c["m"] * c["met"] + c["b"] + beats
    return int(tot // c["met"]), tot % c["met"]


def _queries(rng, l, k=None, relgrid_only=False):
    k = k if k is not None else rng.choice([0, 1, 2, 3, 5, 8, 12])
    qs = []
    for _ in range(k):
        r = rng.random()
        if qs and r < 0.15:
            qs.append(dict(rng.choice(qs)))
            continue
        i = rng.randrange(len(l))
        c = l[i]
        nxt = l[i + 1] if i + 1 < len(l) else None
        if nxt is None:
            span = Fr(rng.choice([0, 1, 4, 9, 40]))
        else:
            span = (nxt["m"] - c["m"]) * c["met"] + (nxt["b"] - c["b"])
        d = rng.choice(DENS[:16]) if (relgrid_only or rng.random() < 0.8) else rng.choice(DENS)
        if r < 0.3 or span == 0:
            beats = Fr(0)
        else:
            beats = Fr(rng.randint(0, max(0, int(span * d) - (1 if nxt is not None else 0))), d)
            if nxt is not None and beats >= span:
                beats = Fr(0)
        m, b = _pos_add(c, nxt, beats)
        qs.append({"m": m, "b": b, "met": c["met"]})
    return qs


def _foreign_met(rng, case):
    """40 % of the position -> ms cases hand the queries over as Snap objects whose OWN metronome field (9, 12 or 16: larger than every
    beat value, so the constructor does not renormalise) differs from the metronome in force: the position is (measure, beat) under the
    tempo script's metronomes, the field of the query object says nothing about it, and the expected times are unchanged."""
    if rng.random() < 0.4:
        case["qmet"] = rng.choice([9, 12, 16])


def generate(rng, tier):
    n = 300 if tier == "quick" else 6000
    cases = []
    # snapper: grid points, near-grid, random
    for _ in range(n // 2):
        r = rng.random()
        d = rng.choice(DENS)
        base = Fr(rng.randint(0, 5 * d), d)
        if r < 0.35:
            x = base
        elif r < 0.7:
            x = base + Fr(rng.choice([-1, 1]), rng.choice([10 ** 3, 10 ** 6, 10 ** 9, 7919]))
        else:
            x = Fr(rng.randint(0, 10 ** 7), rng.randint(1, 10 ** 4))
        if x < 0:
            x = -x
        cases.append({"kind": "snapper", "x": F.frac_json(x)})
    # Snapper with custom divisions, listed in any order: the nearest fraction of denominator <= max(divisions)
    for i in range(30 if tier == "quick" else 800):
        divs = rng.choice([[4, 8, 16, 3, 6, 12], [16, 8, 4], [3, 4], [12, 16], [5, 7, 2], [32, 24, 9], [1], [6, 4, 2, 9, 5]])
        divs = list(divs)
        if rng.random() < 0.5:
            rng.shuffle(divs)
        d = rng.choice([max(divs), max(divs), rng.choice(divs), 96, 7])
        x = Fr(rng.randint(0, 4 * d), d) + (Fr(rng.choice([-1, 1]), rng.choice([10 ** 3, 10 ** 6, 7919])) if rng.random() < 0.4 else 0)
        if x < 0:
            x = -x
        cases.append({"kind": "snapper_div", "divs": divs, "x": F.frac_json(x)})
    # the timing map holds exactly the tempo changes given: lists in any order, at arbitrary millisecond positions
    # (on no grid), with neighbouring changes that repeat the previous tempo (re-sync points)
    for i in range(40 if tier == "quick" else 1500):
        k = rng.choice([1, 2, 3, 3, 4, 6])
        offs = sorted(rng.sample(range(-2000, 60000), k))
        given = []
        for j, o in enumerate(offs):
            if given and rng.random() < 0.45:
                bpm, met = given[-1][1], given[-1][2]          # same tempo again
            else:
                bpm, met = rng.choice([60, 75, 120, 150, 174, 240, 300]), rng.choice([4, 4, 4, 3, 5, 7])
            given.append([o + rng.choice([0, 0, 0.5, 0.25]), bpm, met])
        rng.shuffle(given)
        cases.append({"kind": "keeps", "given": given, "via": rng.choice(["bpmlist", "bpmlist", "offset"])})
    for i in range(n):
        l = _script(rng)
        init = rng.choice([Fr(0), Fr(0), Fr(rng.randint(-5000, 5000)), Fr(rng.randint(-10 ** 6, 10 ** 6), 64),
                           Fr(rng.randint(-10 ** 5, 10 ** 5), 1000)])
        qs = _queries(rng, l)
        jl = [{"bpm": F.frac_json(c["bpm"]), "met": c["met"], "m": c["m"], "b": F.frac_json(c["b"])} for c in l]
        jq = [{"m": q["m"], "b": F.frac_json(q["b"]), "met": q["met"]} for q in qs]
        r = rng.random()
        if rng.random() < 0.3 and len(l) >= 2:
            # tempo changes given in another order (as millisecond changes, or through BpmList.to_timing_map)
            via = rng.choice(["offset_shuffled", "offset_shuffled", "bpmlist"])
            kind = rng.choice(["offsets", "snaps", "beats"]) if all(c["met"] == l[0]["met"] for c in l) else rng.choice(["offsets", "snaps"])
            ex = via != "bpmlist"
            c = {"kind": kind, "exact": ex, "init": F.frac_json(init), "l": jl, "qs": jq, "via": via, "vseed": rng.randint(0, 10 ** 6)}
            if kind == "snaps":
                c["offs"] = []
            if kind == "beats":
                qs2 = _queries(rng, l, relgrid_only=True)
                c["qs"] = [{"m": q["m"], "b": F.frac_json(q["b"]), "met": q["met"]} for q in qs2]
            if not ex:
                # float stream: bpm values with an exact beat length, integer initial offset
                for cc, orig in zip(c["l"], l):
                    cc["bpm"] = F.frac_json(Fr(rng.choice([60, 75, 120, 150, 240, 300])))
                c["init"] = F.frac_json(Fr(rng.randint(-2000, 2000)))
            cases.append(c)
            continue
        if r < 0.3:
            cases.append({"kind": "offsets", "exact": True, "init": F.frac_json(init), "l": jl, "qs": jq})
            _foreign_met(rng, cases[-1])
        elif r < 0.4:
            cases.append({"kind": "offsets", "exact": False, "init": F.frac_json(init), "l": jl, "qs": jq})
            _foreign_met(rng, cases[-1])
        elif r < 0.5:
            cases.append({"kind": "rederive", "init": F.frac_json(init), "l": jl})
        elif r < 0.75:
            # offsets to snap: on-grid times, off-grid times
            os_ = []
            for q in qs:
                os_.append(("grid", q))
            offs = []
            for _ in range(rng.choice([1, 2, 4, 8])):
                offs.append(F.frac_json(init + Fr(rng.randint(0, 4 * 10 ** 6), rng.choice([1, 3, 7, 1000, 64]))))
            cases.append({"kind": "snaps", "exact": True, "init": F.frac_json(init), "l": jl, "qs": jq, "offs": offs})
        elif r < 0.85:
            offs = [F.frac_json(init + Fr(rng.randint(0, 4 * 10 ** 6), rng.choice([1, 3, 7, 1000, 64])))
                    for _ in range(rng.choice([1, 3, 6]))]
            cases.append({"kind": "snaps", "exact": False, "init": F.frac_json(init), "l": jl, "qs": jq, "offs": offs})
        else:
            l2 = _script(rng, same_met=True)
            qs2 = _queries(rng, l2, relgrid_only=rng.random() < 0.8)
            jl2 = [{"bpm": F.frac_json(c["bpm"]), "met": c["met"], "m": c["m"], "b": F.frac_json(c["b"])} for c in l2]
            jq2 = [{"m": q["m"], "b": F.frac_json(q["b"]), "met": q["met"]} for q in qs2]
            if rng.random() < 0.4:
                # cumulative beats at ARBITRARY times (times of grid positions + times off the grid, unsorted, duplicates)
                offs = [F.frac_json(init + Fr(rng.randint(0, 4 * 10 ** 6), rng.choice([1, 3, 7, 1000, 64])))
                        for _ in range(rng.choice([1, 2, 4, 8]))]
                if offs and rng.random() < 0.5:
                    offs.append(offs[0])
                cases.append({"kind": "beats_t", "exact": True, "init": F.frac_json(init), "l": jl2, "qs": jq2, "offs": offs})
            else:
                cases.append({"kind": "beats", "exact": True, "init": F.frac_json(init), "l": jl2, "qs": jq2})
    return cases


# ------------------------------------------------------------------ implementation side
def _mk(l, conv):
    from reamber.algorithms.timing.utils.BpmChangeSnap import BpmChangeSnap
    from reamber.algorithms.timing.utils.snap import Snap
    return [BpmChangeSnap(conv(F.frac_from_json(c["bpm"])), c["met"], Snap(c["m"], F.frac_from_json(c["b"]), c["met"]))
            for c in l]


def _grid(tm, qs):
    """query times on the grid = times of the given positions; when the map cannot convert them (a script outside every
    domain: TimingMap.offsets raises) nothing is asked on the grid - the explicit off-grid times remain"""
    if not qs:
        return []
    try:
        return [Fr(x) for x in tm.offsets(qs)]
    except (IndexError, ValueError, ZeroDivisionError, TypeError):
        return []


def _snapj(s):
    return {"m": int(s.measure), "b": F.frac_json(Fr(s.beat)), "met": F.frac_json(Fr(s.metronome))}


def execute(case):
    from reamber.base.RAConst import RAConst
    from reamber.algorithms.timing.TimingMap import TimingMap
    from reamber.algorithms.timing.utils.snap import Snap
    from reamber.algorithms.timing.utils.Snapper import Snapper
    kind = case["kind"]
    exact = case.get("exact", True)
    old = RAConst.MIN_TO_MSEC
    RAConst.MIN_TO_MSEC = Fr(60000) if exact else 60000.0
    conv = (lambda x: x) if exact else float
    try:
        if kind == "snapper":
            x = F.frac_from_json(case["x"])
            r = Snapper().snap(x)
            return {"v": F.frac_json(Fr(r))}
        if kind == "snapper_div":
            r = Snapper(divisions=tuple(case["divs"])).snap(F.frac_from_json(case["x"]))
            return {"v": F.frac_json(Fr(r))}
        if kind == "keeps":
            from reamber.algorithms.timing.utils.BpmChangeOffset import BpmChangeOffset
            if case["via"] == "bpmlist":
                from reamber.base.lists.BpmList import BpmList
                from reamber.base.Bpm import Bpm
                tm = BpmList([Bpm(offset=float(o), bpm=float(b), metronome=float(m)) for o, b, m in case["given"]]).to_timing_map()
            else:
                tm = TimingMap.from_bpm_changes_offset([BpmChangeOffset(float(b), float(m), float(o)) for o, b, m in case["given"]])
            return {"v": [[float(b.offset), float(b.bpm), float(b.metronome)] for b in tm.bpm_changes_offset]}
        init = conv(F.frac_from_json(case["init"]))
        try:
            tm = TimingMap.from_bpm_changes_snap(init, _mk(case["l"], conv), reseat=False)
            via = case.get("via")
            if via:
                # the same tempo changes handed over in millisecond form and in ANOTHER ORDER
                import random as _r
                from reamber.algorithms.timing.utils.BpmChangeOffset import BpmChangeOffset
                bcos = [BpmChangeOffset(b.bpm, b.metronome, b.offset) for b in tm.bpm_changes_offset]
                _r.Random(case.get("vseed", 0)).shuffle(bcos)
                if via == "offset_shuffled":
                    tm = TimingMap.from_bpm_changes_offset(bcos)
                else:
                    from reamber.base.lists.BpmList import BpmList
                    from reamber.base.Bpm import Bpm
                    tm = BpmList([Bpm(offset=float(b.offset), bpm=float(b.bpm), metronome=float(b.metronome)) for b in bcos]).to_timing_map()
            if kind == "rederive":
                bcs = tm.bpm_changes_snap()
                return {"v": [{"bpm": F.frac_json(Fr(b.bpm)), "met": F.frac_json(Fr(b.metronome)), "snap": _snapj(b.snap)} for b in bcs]}
            # (offsets: the query Snap objects may carry a metronome field of their own - see _foreign_met)
            qs = [Snap(q["m"], F.frac_from_json(q["b"]), case["qmet"] if (kind == "offsets" and "qmet" in case) else q["met"])
                  for q in case["qs"]]
            if kind == "offsets":
                r = tm.offsets(qs)
                return {"v": [F.frac_json(Fr(x)) for x in r]}
            if kind == "snaps":
                grid = _grid(tm, qs)
                offs = grid + [F.frac_from_json(o) for o in case["offs"]]
                offs = [conv(o) for o in offs]
                try:
                    r = tm.snaps(offs, Snapper())
                except (IndexError, ValueError, ZeroDivisionError, TypeError) as e:
                    # the model must be asked the same question: keep the query times with the exception
                    return {"offs": [F.frac_json(Fr(o)) for o in offs], "v": None, "exc": type(e).__name__ + ": " + str(e)[:100]}
                return {"offs": [F.frac_json(Fr(o)) for o in offs], "v": [_snapj(s) for s in r]}
            if kind == "beats":
                offs = _grid(tm, qs)
                try:
                    r = tm.beats(offs, Snapper())
                except (IndexError, ValueError, ZeroDivisionError, TypeError) as e:
                    return {"offs": [F.frac_json(o) for o in offs], "v": None, "exc": type(e).__name__ + ": " + str(e)[:100]}
                return {"offs": [F.frac_json(o) for o in offs], "v": [F.frac_json(Fr(x)) for x in r]}
            if kind == "beats_t":
                offs = (_grid(tm, qs)) + [F.frac_from_json(o) for o in case["offs"]]
                import random as _r
                _r.Random(len(offs)).shuffle(offs)
                try:
                    r = tm.beats(offs, Snapper())
                except (IndexError, ValueError, ZeroDivisionError, TypeError) as e:
                    return {"offs": [F.frac_json(o) for o in offs], "v": None, "exc": type(e).__name__ + ": " + str(e)[:100]}
                return {"offs": [F.frac_json(o) for o in offs], "v": [F.frac_json(Fr(x)) for x in r]}
        except (IndexError, ValueError, ZeroDivisionError, TypeError) as e:
            return {"v": None, "exc": type(e).__name__ + ": " + str(e)[:100]}
        raise ValueError("unknown kind")
    finally:
        RAConst.MIN_TO_MSEC = old


# ------------------------------------------------------------------ Coq side
def _bcs(c):
    met = F.q(c["met"])
    return f"(mkBcs {F.q(F.frac_from_json(c['bpm']))} {met} (mkSnap {F.z(c['m'])} {F.q(F.frac_from_json(c['b']))} {met}))"


def _snap(q):
    met = q["met"]
    met = F.frac_from_json(met) if isinstance(met, list) else met
    return f"(mkSnap {F.z(q['m'])} {F.q(F.frac_from_json(q['b']))} {F.q(met)})"


def emit(case, out):
    kind = case["kind"]
    if kind == "snapper":
        return f"CSnapper {F.q(F.frac_from_json(case['x']))} {F.q(F.frac_from_json(out['v']))}"
    if kind == "snapper_div":
        dmax = max(case["divs"])
        tbl = sorted({Fr(n, d) for d in range(1, dmax + 1) for n in range(0, d)}) + [Fr(1)]
        return f"CSnapperT {F.lst([F.q(v) for v in tbl])} {F.q(F.frac_from_json(case['x']))} {F.q(F.frac_from_json(out['v']))}"
    if kind == "keeps":
        bl = lambda rows: F.lst([f"(mkBco {F.q(Fr(b))} {F.q(Fr(m))} {F.q(Fr(o))})" for o, b, m in rows])
        return f"CKeeps {bl(case['given'])} {bl(out['v'])}"
    exact = case.get("exact", True)
    tol = "0" if exact else "(1#1000000)"
    init = F.q(F.frac_from_json(case["init"]))
    l = F.lst([_bcs(c) for c in case["l"]])
    if kind == "rederive":
        v = out["v"]
        o = "None" if v is None else "(Some " + F.lst(
            [f"(mkBcs {F.q(F.frac_from_json(b['bpm']))} {F.q(F.frac_from_json(b['met']))} {_snap(b['snap'])})" for b in v]) + ")"
        return f"CRederive {init} {l} {o}"
    qs = F.lst([_snap(q) for q in case["qs"]])
    if kind == "offsets":
        o = F.opt(out["v"], lambda v: F.lst([F.q(F.frac_from_json(x)) for x in v]))
        return f"COffsets {tol} {init} {l} {qs} {o}"
    if kind == "snaps":
        offs = F.lst([F.q(F.frac_from_json(x)) for x in out.get("offs", [])])
        o = F.opt(out["v"], lambda v: F.lst([_snap(s) for s in v]))
        return f"CSnaps {F.boolean(exact)} {tol} {init} {l} {offs} {o}"
    if kind == "beats":
        offs = F.lst([F.q(F.frac_from_json(x)) for x in out.get("offs", [])])
        o = F.opt(out["v"], lambda v: F.lst([F.q(F.frac_from_json(x)) for x in v]))
        return f"CBeats {tol} {init} {l} {qs} {offs} {o}"
    if kind == "beats_t":
        offs = F.lst([F.q(F.frac_from_json(x)) for x in out.get("offs", [])])
        o = F.opt(out["v"], lambda v: F.lst([F.q(F.frac_from_json(x)) for x in v]))
        return f"CBeatsT {tol} {init} {l} {offs} {o}"
    raise ValueError(kind)


def nontrivial(case, out):
    if case["kind"] == "snapper":
        return F.frac_from_json(case["x"]).denominator > 1
    if case["kind"] == "keeps":
        return len(case["given"]) >= 2
    if case["kind"] == "snapper_div":
        return F.frac_from_json(case["x"]).denominator > 1
    return len(case["l"]) >= 2 or len({(q["m"], tuple(q["b"])) for q in case.get("qs", [])}) >= 2


def bucket(case, out):
    k = case["kind"] + ("" if case.get("exact", True) else "-rounded")
    if case["kind"] == "keeps":
        return k + f"/changes={len(case['given'])}/{case['via']}"
    if case["kind"] == "snapper_div":
        return k + f"/max={max(case['divs'])}/" + ("ascending" if case["divs"] == sorted(case["divs"]) else "unordered")
    if case["kind"] != "snapper":
        k += f"/changes={len(case['l'])}"
        if out.get("v") is None:
            k += "/exc"
    return k


def classify(case, out, kind):
    return None


def describe(case, out):
    if case["kind"] == "snapper_div":
        return f"snapper divisions={case['divs']} x={case['x']} -> {out.get('v')}"
    if case["kind"] == "keeps":
        return f"keeps via={case['via']} given={case['given']} got={out.get('v')}"
    return f"{case['kind']} exact={case.get('exact', True)} changes={len(case.get('l', []))} queries={len(case.get('qs', []))}"


def shrink(case):
    if case["kind"] in ("snapper", "snapper_div"):
        return
    for i in range(len(case.get("qs", []))):
        c = dict(case); c["qs"] = case["qs"][:i] + case["qs"][i + 1:]
        yield c
    for i in range(len(case.get("offs", []))):
        c = dict(case); c["offs"] = case["offs"][:i] + case["offs"][i + 1:]
        yield c
    if case["kind"] == "keeps":
        for i in range(len(case["given"])):
            c = dict(case); c["given"] = case["given"][:i] + case["given"][i + 1:]
            yield c
        return
    if len(case["l"]) > 1:
        c = dict(case); c["l"] = case["l"][:-1]
        yield c
