"""C18: hitsound copy (reamber/algorithms/osu/hitsound_copy.py).

Charts are built from objects (OsuMap, OsuHitList, OsuHoldList, OsuSampleList).  Times are eighths of a
millisecond as integers (float-exact dyadics on the Python side, Z on the Coq side); file names are interned
per case as lists of ';'-separated segment ids.  pandas' default sort is not stable: the tie order the
implementation actually used is recorded by wrapping DataFrame.sort_values from this process for the duration
of the call (no source hook) and handed to the model, whose theorems hold for every sorting order."""
from collections import Counter
from fractions import Fraction as Fr
import copy
import math

from .. import coqfmt as F

ID = "C18"
RUNNER = "Corr.RunC18"
CASE_TYPE = "c18case"
RUNNER_TARGETS = ["Corr/RunC18.vo"]
PROOF_TARGETS = ["Props/C18.vo"]
PROPS_FILE = "Props/C18.v"
PROPS_MODULE = "Props.C18"
RULE = ("seeded generator of pairs of osu charts built from objects: 1..6 times (negative, fractional, shared or "
        "one-sided), per time 0..6 source notes (hits/holds; claps/finishes/whistles in every combination, stray bits, "
        "named samples, several volumes, soundless rows that pass the source filter) and 0..5 target notes (hits/holds, "
        "silent or carrying own sounds), more sounds than notes, several named samples of one volume on overflow, "
        "names with ';', empty lists, shuffled rows, event samples on both sides, a few large tie groups; "
        "non-trivial = at least one sound is placed or overflows; distinct by hash of the canonical JSON of the input")
ASSUMPTIONS = [
    "times are compared only for equality/order by the routine: every time of a case is an integer number of 1/8 ms "
    "(exact in binary64) and is passed to Coq as that integer",
    "strings are interned per case (a file name = list of its ';'-separated segment ids); the model only compares them",
    "pandas sort_values (default quicksort) may order ties arbitrarily: the order used is recorded by a wrapper installed "
    "by the harness around DataFrame.sort_values during the call and validated in Coq as a sorting permutation; the "
    "stable order is tried as well; the theorems hold for every sorting permutation",
    "'neither input is modified' is decided by the harness (deep snapshot of every list frame incl. labels/dtypes and of "
    "the scalar fields before the call, compared after) and enters the oracle as two booleans",
]
TRUSTED = ["harness-side snapshot comparison for input immutability (pandas .equals + labels + dtypes)"]
MANIFEST = dict(
    text="Machine-checked theorems (Coq 8.16.1) about an executable Gallina model of hitsound_copy as repaired (reset before the "
         "target frame is built, overflowing named samples all become event samples) on lists of note records (filter, any "
         "sorting order of ties, bit split, group by offset then volume, ';'-join/split, slot filling, overflow, re-split by NaN "
         "length).  Proved for ALL pairs of charts in the domain (source volumes >= 0, 16-bit hitsound sets, holds with a length) "
         "and every tie order: the result has exactly the target's notes (C18_notes_preserved); and, when no source file name "
         "contains ';' (C18_spec = C18_no_invention + C18_bounded + C18_named_conserved): every sound carried was in the source at "
         "that time with multiplicity, per time min(demand, notes) notes sound and everything is on the notes when it fits, every "
         "named sample of the source is on a note or an event sample.  The ';' case is refuted with a witness (known finding); the "
         "behaviour before the two repairs is refuted on the OLD model.  The boolean oracle specb is proved sound and complete for "
         "the declarative multiset specification and is evaluated in Coq on the implementation's output for every generated pair; "
         "the model is tied to the code by in-Coq correspondence.  'Neither input is modified' is a harness snapshot comparison, "
         "not a theorem.",
    note="Trusted: Coq kernel+VM, harness generator/serialiser, sort-order recorder, snapshot comparison for input immutability. "
         "Known finding: named-sample-semicolon-split.  Fixed (regressions raise): named-sample-overflow-break (19e0cd1), "
         "target-hitsounds-kept (a52f30c).",
    technique="Coq proof over executable model + vm_compute correspondence against the implementation",
    design="4/C18")

KEY_SEMI = "named-sample-semicolon-split"      # the only remaining known finding
# labels of input classes (evidence distribution only); the defects they used to trigger are fixed:
# named-sample-overflow-break by /repo 19e0cd1, target-hitsounds-kept by /repo a52f30c
KEY_LEAK = "loud-target"
KEY_BREAK = "multi-named-overflow"

FILES = ["a.wav", "b.wav", "c.wav", "d.ogg", "soft-hitclap2.wav", "x y.wav"]
SEMI = ["a;b.wav", ";", "c.wav;", ";;z", "p;q;r"]
BITS = [2, 4, 8, 6, 10, 12, 14, 2, 2, 4, 8, 14]
STRAY = [1, 3, 16, 15, 31, 17, 128, 65535]


# ------------------------------------------------------------------ generator
def _mk_note(rng, t, hold, hs=0, f="", v=0, ss=0, as_=0, cs=0):
    n = {"t": t, "c": rng.randint(0, 6), "hs": hs, "ss": ss, "as": as_, "cs": cs, "v": v, "f": f}
    if hold:
        n["l"] = rng.choice([1, 4, 8, 100, 800, 0, -3, 12345])
    return n


def _src_note(rng, t, vols, files, p_hold=0.3):
    r = rng.random()
    v = rng.choice(vols)
    hold = rng.random() < p_hold
    if r < 0.46:
        return _mk_note(rng, t, hold, hs=rng.choice(BITS), v=v)
    if r < 0.64:
        return _mk_note(rng, t, hold, f=rng.choice(files), v=v)
    if r < 0.72:
        return _mk_note(rng, t, hold, hs=rng.choice(BITS), f=rng.choice(files), v=v)
    if r < 0.80:  # soundless but passes the source filter
        return _mk_note(rng, t, hold, v=v, ss=rng.choice([0, 1, 2]), as_=rng.choice([0, 3]), cs=rng.choice([1, 0, 7]))
    if r < 0.88:
        return _mk_note(rng, t, hold, hs=rng.choice(STRAY), v=v, f=rng.choice(["", "", rng.choice(files)]))
    return _mk_note(rng, t, hold, v=v)


def _tgt_note(rng, t, loud, p_hold=0.35):
    hold = rng.random() < p_hold
    n = _mk_note(rng, t, hold, v=rng.choice([0, 0, 0, 30, 70]),
                 ss=rng.choice([0, 0, 1, 2]), as_=rng.choice([0, 0, 2]), cs=rng.choice([0, 0, 5]))
    if loud and rng.random() < 0.6:
        r = rng.random()
        if r < 0.5:
            n["hs"] = rng.choice(BITS + [1])
        elif r < 0.8:
            n["f"] = rng.choice(["t.wav", "u.wav", "a.wav"])
        else:
            n["hs"] = rng.choice(BITS)
            n["f"] = rng.choice(["t.wav", "a.wav"])
    return n


def _split(notes):
    return [n for n in notes if "l" not in n], [n for n in notes if "l" in n]


def _chart(rng, notes, samples):
    rng.shuffle(notes)
    hits, holds = _split(notes)
    return {"hits": hits, "holds": holds, "samples": samples}


def _samples(rng, times):
    out = []
    for _ in range(rng.choice([0, 0, 0, 1, 2])):
        out.append({"t": rng.choice(times + [999]), "f": rng.choice(FILES + ["bgm.mp3"]), "v": rng.choice([0, 50, 100])})
    return out


def _time(rng):
    r = rng.random()
    if r < 0.5:
        return 8 * rng.randint(0, 40)
    if r < 0.8:
        return rng.randint(-40, 400)
    return rng.choice([0, -8, -1, 1, 10 ** 7, 4, 12])


def _one(rng, big=False):
    k = rng.choice([1, 1, 2, 2, 3, 4, 6])
    times = []
    while len(times) < k:
        t = _time(rng)
        if t not in times:
            times.append(t)
    volpool = rng.choice([[0], [30], [20, 30], [0, 20, 50], [100, 5, 70, 30], [30, 30, 60]])
    files = list(FILES)
    scen = rng.random()
    semi = scen < 0.06
    if semi:
        files = files[:2] + SEMI
    loud_tgt = 0.06 <= scen < 0.26
    src, tgt = [], []
    late = rng.random() < 0.12
    if late:
        # late in a chart, times a millisecond or two apart: "the same time" must stay exact equality, whatever the magnitude
        base = 8 * rng.choice([150000, 400000, 10 ** 6, 3600000])
        times = [base + d for d in rng.sample([0, 1, 8, 16, -8, 24, 80], k=min(k, 7))]
    for j, t in enumerate(times):
        side = rng.random()
        if late and rng.random() < 0.7:
            side = 0.2 if j % 2 else 0.05          # alternately target-less / source-less neighbours
        ns = 0 if side < 0.12 else rng.choice([1, 1, 2, 2, 3, 4, 6] + ([12, 20] if big else []))
        nt = 0 if 0.12 <= side < 0.27 else rng.choice([1, 1, 2, 2, 3, 5] + ([10, 18] if big else []))
        for _ in range(ns):
            src.append(_src_note(rng, t, volpool, files))
        for _ in range(nt):
            tgt.append(_tgt_note(rng, t, loud_tgt))
    if 0.34 <= scen < 0.42:
        # several named samples of one volume, fewer notes than sounds (the overflow branch)
        t = rng.choice(times)
        v = rng.choice(volpool)
        for _ in range(rng.choice([2, 3, 4])):
            src.append(_mk_note(rng, t, rng.random() < 0.3, f=rng.choice(FILES), v=v))
        have = [n for n in tgt if n["t"] == t]
        keep = rng.choice([0, 1, 1, 2])
        for n in have[keep:]:
            tgt.remove(n)
    if 0.48 <= scen < 0.52:
        for n in rng.sample(src, min(len(src), 2)):
            n["v"] = rng.choice([-5, -1])           # outside the domain: clamped by the routine
    if 0.52 <= scen < 0.55 and tgt:
        n = rng.choice(tgt)
        n["l"] = None                               # outside the domain: a hold whose length is NaN
    if 0.55 <= scen < 0.59:
        src = []
    if 0.59 <= scen < 0.63:
        tgt = []
    return {"src": _chart(rng, src, _samples(rng, times)), "tgt": _chart(rng, tgt, _samples(rng, times))}


def _fixed():
    """hand-written boundary pairs (always run)"""
    def N(t, c, **k):
        d = {"t": t, "c": c, "hs": 0, "ss": 0, "as": 0, "cs": 0, "v": 0, "f": ""}
        d.update(k)
        return d
    E = {"hits": [], "holds": [], "samples": []}
    out = []
    out.append({"src": copy.deepcopy(E), "tgt": copy.deepcopy(E)})
    out.append({"src": {"hits": [N(8, 0, hs=2, v=30)], "holds": [], "samples": []},
                "tgt": {"hits": [N(8, 1)], "holds": [], "samples": []}})
    # one clap, finish, whistle of one volume share a note; second volume needs a second note
    out.append({"src": {"hits": [N(8, 0, hs=2, v=20), N(8, 1, hs=4, v=20), N(8, 2, hs=8, v=20), N(8, 3, hs=2, v=30)],
                        "holds": [N(8, 4, l=16, hs=12, v=40), N(8, 5, l=16, f="a.wav", v=20)], "samples": []},
                "tgt": {"hits": [N(8, 0), N(8, 1), N(8, 2)], "holds": [N(8, 3, l=80), N(16, 3, l=8)], "samples": []}})
    # three named samples of one volume, one note: the overflow `break`
    out.append({"src": {"hits": [N(0, 0, f="a.wav", v=30), N(0, 1, f="b.wav", v=30), N(0, 2, f="c.wav", v=30)],
                        "holds": [], "samples": []},
                "tgt": {"hits": [N(0, 0)], "holds": [], "samples": []}})
    # two named samples, no note at that time
    out.append({"src": {"hits": [N(0, 0, f="a.wav", v=30), N(0, 1, f="b.wav", v=30)], "holds": [], "samples": []},
                "tgt": {"hits": [N(8, 0)], "holds": [], "samples": []}})
    # target with sounds of its own
    out.append({"src": {"hits": [N(8, 0, hs=2, v=30)], "holds": [], "samples": []},
                "tgt": {"hits": [N(8, 0, hs=8, f="t.wav", v=44), N(16, 0, hs=4)], "holds": [N(16, 1, l=8, hs=2)],
                        "samples": [{"t": 5, "f": "x.wav", "v": 10}]}})
    # a name with ';'
    out.append({"src": {"hits": [N(8, 0, f="a;b.wav", v=5)], "holds": [], "samples": []},
                "tgt": {"hits": [N(8, 0), N(8, 1)], "holds": [], "samples": []}})
    return out


def generate(rng, tier):
    n = 420 if tier == "quick" else 12000
    cases = _fixed()
    for i in range(n):
        cases.append(_one(rng, big=(i % 25 == 24)))
    return cases


# ------------------------------------------------------------------ implementation side
def _build(ch):
    from reamber.osu.OsuMap import OsuMap
    from reamber.osu.OsuHit import OsuHit
    from reamber.osu.OsuHold import OsuHold
    from reamber.osu.OsuSample import OsuSample
    from reamber.osu.lists.notes.OsuHitList import OsuHitList
    from reamber.osu.lists.notes.OsuHoldList import OsuHoldList
    from reamber.osu.lists.OsuSampleList import OsuSampleList

    def kw(n):
        return dict(offset=n["t"] / 8, column=n["c"], hitsound_set=n["hs"], sample_set=n["ss"], addition_set=n["as"],
                    custom_set=n["cs"], volume=n["v"], hitsound_file=n["f"])
    m = OsuMap()
    m.hits = OsuHitList([OsuHit(**kw(n)) for n in ch["hits"]])
    m.holds = OsuHoldList([OsuHold(length=(float("nan") if n["l"] is None else n["l"] / 8), **kw(n)) for n in ch["holds"]])
    m.samples = OsuSampleList([OsuSample(offset=s["t"] / 8, sample_file=s["f"], volume=s["v"]) for s in ch["samples"]])
    return m


def _snapshot(m):
    snap = {}
    for k, v in list(m.objs.items()) + [("samples", m.samples)]:
        df = v.df
        snap[k] = (df.copy(deep=True), list(df.columns), list(df.index), [str(x) for x in df.dtypes], id(v))
    scal = {}
    for k, v in vars(m).items():
        if k not in ("objs", "samples"):
            scal[k] = copy.deepcopy(v)
    return snap, scal


def _same(m, before):
    snap, scal = before
    now = dict(list(m.objs.items()) + [("samples", m.samples)])
    if set(now) != set(snap):
        return False
    for k, (df0, cols, idx, dts, ident) in snap.items():
        v = now[k]
        df = v.df
        if id(v) != ident or list(df.columns) != cols or list(df.index) != idx or [str(x) for x in df.dtypes] != dts:
            return False
        if not df.equals(df0):
            return False
    for k, v in vars(m).items():
        if k not in ("objs", "samples"):
            if k not in scal or not (scal[k] == v):
                return False
    return True


def _t8(x):
    f = Fr(float(x)) * 8
    if f.denominator != 1:
        raise ValueError(f"time {x!r} is not a multiple of 1/8")
    return int(f)


def _int(x):
    if isinstance(x, float):
        if x != x or x != int(x):
            raise ValueError(f"non-integer cell {x!r}")
    return int(x)


def _rows(df, hold):
    out = []
    has_len = "length" in df.columns
    for _, r in df.iterrows():
        f = r["hitsound_file"]
        if not isinstance(f, str):
            raise ValueError(f"file cell is {f!r}")
        n = {"t": _t8(r["offset"]), "c": _int(r["column"]), "hs": _int(r["hitsound_set"]), "ss": _int(r["sample_set"]),
             "as": _int(r["addition_set"]), "cs": _int(r["custom_set"]), "v": _int(r["volume"]), "f": f}
        if has_len:
            l = float(r["length"])
            n["l"] = None if l != l else _t8(l)
        elif hold:
            raise ValueError("hold frame without length")
        out.append(n)
    return out


def execute(case):
    import numpy as np
    import pandas as pd
    from reamber.algorithms.osu.hitsound_copy import hitsound_copy
    src, tgt = _build(case["src"]), _build(case["tgt"])
    b_src, b_tgt = _snapshot(src), _snapshot(tgt)
    orig = pd.DataFrame.sort_values
    rec = []

    def wrapped(self, by=None, *a, **k):
        if isinstance(by, str) and by == "offset" and "__pos" not in self.columns and not k.get("inplace"):
            tmp = self.assign(__pos=np.arange(len(self)))
            res = orig(tmp, by, *a, **k)
            rec.append(("tgt" if "column" in self.columns else "src", [int(x) for x in res["__pos"]]))
            return res.drop(columns="__pos")
        return orig(self, by, *a, **k)
    pd.DataFrame.sort_values = wrapped
    try:
        res = hitsound_copy(src, tgt)
    finally:
        pd.DataFrame.sort_values = orig
    hits = _rows(res.hits.df, False)
    holds = _rows(res.holds.df, True)
    # a hit frame that kept a length column: rows are hits by position in the chart; keep the cell explicit
    smp = []
    for _, r in res.samples.df.iterrows():
        smp.append({"t": _t8(r["offset"]), "f": str(r["sample_file"]), "v": _int(r["volume"])})
    # the source frame has lost its "column" column by the time it is sorted; the target frame has it
    r_src = [p for k, p in rec if k == "src"]
    r_tgt = [p for k, p in rec if k == "tgt"]
    orders = [[r_src[0] if len(r_src) == 1 else None, r_tgt[0] if len(r_tgt) == 1 else None]] if rec else []
    return {"v": {"hits": hits, "holds": holds, "samples": smp}, "orders": orders,
            "src_same": _same(src, b_src), "tgt_same": _same(tgt, b_tgt),
            "aliased": res is tgt or res.hits is tgt.hits or res.holds is tgt.holds}


# ------------------------------------------------------------------ Coq side
def _names(case, out):
    segs = set()
    for ch in (case["src"], case["tgt"], out["v"]):
        for n in ch["hits"] + ch["holds"] + ch["samples"]:
            for s in n["f"].split(";"):
                if s:
                    segs.add(s)
    return {s: i + 1 for i, s in enumerate(sorted(segs))}


def _nm(tbl, f):
    return "[" + ";".join(str(tbl[s]) if s else "0" for s in f.split(";")) + "]%Z"


def _zz(n):
    n = int(n)
    return f"({n})" if n < 0 else str(n)


def _note(tbl, n, hold):
    tail = f"{_zz(n['hs'])} {_zz(n['ss'])} {_zz(n['as'])} {_zz(n['cs'])} {_zz(n['v'])} {_nm(tbl, n['f'])}"
    if hold:
        l = n.get("l")
        ls = "None" if l is None else f"(Some {_zz(l)}%Z)"
        return f"L {_zz(n['t'])} {_zz(n['c'])} {ls} {tail}"
    return f"H {_zz(n['t'])} {_zz(n['c'])} {tail}"


def _chart_term(tbl, ch, out_side=False):
    hits = []
    for n in ch["hits"]:
        # an output hit row that still has a non-NaN length is serialised as such (never silently dropped)
        if out_side and n.get("l") is not None:
            hits.append(_note(tbl, n, True))
        else:
            hits.append(_note(tbl, n, False))
    holds = [_note(tbl, n, True) for n in ch["holds"]]
    smp = [f"mkS {_zz(s['t'])} {_nm(tbl, s['f'])} {_zz(s['v'])}" for s in ch["samples"]]
    return f"(mkM {F.lst(hits)} {F.lst(holds)} {F.lst(smp)})"


def emit(case, out):
    tbl = _names(case, out)
    def po(p):
        return "None" if p is None else f"(Some {F.lst([str(i) for i in p])}%nat)"
    orders = F.lst([f"({po(a)}, {po(b)})" for a, b in out["orders"]])
    return (f"C18 {_chart_term(tbl, case['src'])} {_chart_term(tbl, case['tgt'])} {orders} "
            f"{_chart_term(tbl, out['v'], True)} {F.boolean(out['src_same'])} {F.boolean(out['tgt_same'] and not out['aliased'])}")


# ------------------------------------------------------------------ independent Python re-check of the property
ALLBITS = [1 << i for i in range(16)]


def _all(ch):
    return ch["hits"] + ch["holds"]


def _natoms(notes, bits, split=False):
    c = Counter()
    for n in notes:
        for b in bits:
            if n["hs"] & b == b:
                c[(n["t"], "b", b, n["v"])] += 1
        if n["f"] != "":
            if split:
                for s in n["f"].split(";"):
                    if s:
                        c[(n["t"], "f", s, n["v"])] += 1
            else:
                c[(n["t"], "f", n["f"], n["v"])] += 1
    return c


def _fatoms(notes, split=False):
    return Counter({k: v for k, v in _natoms(notes, [], split).items()})


def _satoms(samples):
    c = Counter()
    for s in samples:
        if s["f"] != "":
            c[(s["t"], "f", s["f"], s["v"])] += 1
    return c


def _le(a, b):
    return all(b.get(k, 0) >= v for k, v in a.items())


def _nfiles(n, split):
    if n["f"] == "":
        return 0
    return len([s for s in n["f"].split(";") if s]) if split else 1


def _demand(src_notes, t, split=False):
    vols = {n["v"] for n in src_notes if n["t"] == t}
    d = 0
    for v in vols:
        g = [n for n in src_notes if n["t"] == t and n["v"] == v]
        d += max(sum(1 for n in g if n["hs"] & b == b) for b in (2, 4, 8)) + sum(_nfiles(n, split) for n in g)
    return d


def in_domain(case):
    s, t = case["src"], case["tgt"]
    return (all(n["v"] >= 0 and 0 <= n["hs"] < 65536 for n in _all(s))
            and all(n.get("l") is not None for n in t["holds"]))


def components(case, out, leak=False, split=False, brk=False):
    src, tgt, res = case["src"], case["tgt"], out["v"]
    sn, tn, rn = _all(src), _all(tgt), _all(res)
    comp = {}
    ident = lambda ch: Counter([(n["t"], n["c"], None, "hit") for n in ch["hits"]]
                               + [(n["t"], n["c"], n.get("l"), "hold") for n in ch["holds"]])
    comp["notes"] = ident(res) == ident(tgt) and all(n.get("l") is None for n in res["hits"])
    # no invention
    carried = _natoms(rn, ALLBITS) + _satoms(res["samples"])
    have = _natoms(sn, ALLBITS, split)
    ok = all(0 <= n["hs"] < 65536 for n in rn)
    if leak:
        excess = carried - have
        budget = Counter()
        for k, v in _natoms(tn, ALLBITS).items():
            budget[k[:3]] += v
        ex3 = Counter()
        for k, v in excess.items():
            ex3[k[:3]] += v
        ok = ok and _le(ex3, budget)
    else:
        ok = ok and _le(carried, have)
    comp["noinv"] = ok
    # as many as the notes can hold
    ok = True
    for t in {n["t"] for n in sn + tn + rn}:
        d = _demand(sn, t, split)
        k = sum(1 for n in tn if n["t"] == t)
        ns = sum(1 for n in rn if n["t"] == t and (n["hs"] != 0 or n["f"] != ""))
        if not leak and ns != min(d, k):
            ok = False
        if d <= k:
            want = Counter({a: v for a, v in _natoms(sn, [2, 4, 8], split).items() if a[0] == t})
            got = Counter({a: v for a, v in _natoms(rn, ALLBITS).items() if a[0] == t})
            if not _le(want, got):
                ok = False
    comp["bounded"] = ok
    # named samples conserved
    want = _fatoms(sn, split)
    got = _fatoms(rn) + _satoms(res["samples"])
    if brk:
        ok = True
        lost = want - got
        lost_tv = Counter()
        for (t, _, _, v), c in lost.items():
            lost_tv[(t, v)] += c
        for (t, v), c in lost_tv.items():
            m = sum(_nfiles(n, split) for n in sn if n["t"] == t and n["v"] == v)
            d = _demand(sn, t, split)
            k = sum(1 for n in tn if n["t"] == t)
            ns = sum(1 for s in res["samples"] if s["t"] == t and s["v"] == v)
            if not (d > k and m >= 2 and c <= m - 1 and ns >= 1):
                ok = False
        comp["named"] = ok
    else:
        comp["named"] = _le(want, got)
    comp["unmodified"] = bool(out["src_same"] and out["tgt_same"] and not out["aliased"])
    return comp


def py_oracle(case, out):
    if out.get("v") is None or not in_domain(case):
        return True
    return all(components(case, out).values())


def _classes(case):
    src, tgt = case["src"], case["tgt"]
    sn, tn = _all(src), _all(tgt)
    cl = []
    if any(n["hs"] != 0 or n["f"] != "" for n in tn):
        cl.append(KEY_LEAK)
    if any(";" in n["f"] for n in sn):
        cl.append(KEY_SEMI)
    for split in (False, True):
        for t in {n["t"] for n in sn}:
            k = sum(1 for n in tn if n["t"] == t)
            if _demand(sn, t, split) > k:
                for v in {n["v"] for n in sn if n["t"] == t}:
                    if sum(_nfiles(n, split) for n in sn if n["t"] == t and n["v"] == v) >= 2 and KEY_BREAK not in cl:
                        cl.append(KEY_BREAK)
    return cl


def classify(case, out, kind):
    """Only the ';' split is a known defect now.  A violation is attributed to it only when a source name contains
    ';' AND the output satisfies every part of the specification once the pieces of such names are counted as the
    source's samples; anything else (including a regression of the two repaired defects) -> None -> VIOLATION."""
    if kind != "spec" or out.get("v") is None or not in_domain(case):
        return None
    if not any(";" in n["f"] for n in _all(case["src"])):
        return None
    if all(components(case, out, split=True).values()):
        return KEY_SEMI
    return None


# ------------------------------------------------------------------ evidence helpers
def nontrivial(case, out):
    if out.get("v") is None:
        return False
    res = out["v"]
    return any(n["hs"] != 0 or n["f"] != "" for n in _all(res)) or bool(res["samples"])


def bucket(case, out):
    sn, tn = _all(case["src"]), _all(case["tgt"])
    b = []
    if not sn:
        b.append("src-empty")
    if not tn:
        b.append("tgt-empty")
    if not in_domain(case):
        b.append("outside-domain")
    cl = _classes(case)
    b.extend(cl)
    over = any(_demand(sn, t) > sum(1 for n in tn if n["t"] == t) for t in {n["t"] for n in sn})
    b.append("overflow" if over else "fits")
    if out.get("v") and out["v"]["samples"]:
        b.append("event-samples")
    if max(len(sn), len(tn)) > 16:
        b.append("large")
    return "/".join(b)


def describe(case, out):
    sn, tn = _all(case["src"]), _all(case["tgt"])
    comp = components(case, out) if out.get("v") else {}
    return (f"src notes={len(sn)} tgt notes={len(tn)} classes={_classes(case)} "
            f"failing parts={[k for k, v in comp.items() if not v]}")


def shrink(case):
    for side in ("src", "tgt"):
        for lst in ("hits", "holds", "samples"):
            for i in range(len(case[side][lst])):
                c = copy.deepcopy(case)
                del c[side][lst][i]
                yield c
    for side in ("src", "tgt"):
        for lst in ("hits", "holds"):
            for i, n in enumerate(case[side][lst]):
                for fld in ("ss", "as", "cs"):
                    if n[fld] != 0:
                        c = copy.deepcopy(case)
                        c[side][lst][i][fld] = 0
                        yield c

