"""C12: stacking writes through.  Histories of stack operations are run on real charts of the five games;
every transition (lists before, stacker copy before, op, lists after, stacker copy after) is checked in Coq
against the stacker model (corr) and against "apply the assignment to each list separately" (spec)."""
import random
from fractions import Fraction as Fr

import numpy as np
import pandas as pd

from .. import coqfmt as F
from .. import frames as FR
from .. import maps as M

ID = "C12"
RUNNER = "Corr.RunC12"
CASE_TYPE = "c12case"
RUNNER_TARGETS = ["Corr/RunC12.vo"]
PROOF_TARGETS = ["Props/C12.vo"]
PROPS_FILE = "Props/C12.v"
PROPS_MODULE = "Props.C12"
RULE = ("random charts of the five games (every list of the game incl. osu/Quaver SVs and StepMania mines/rolls/stops; empty lists; "
        "non-default row labels) and mapsets of 2-3 charts (40 % with an additional chart whose lists are all empty); histories of 1-6 stack operations: whole-column = + - * / with scalar or "
        "per-row operand on every stack property, conditional loc assignment on one or several columns with random and "
        "condition-derived boolean masks, re-stacking with include_types; one Coq case per transition plus one per stack(); "
        "non-trivial = the stack has >= 2 rows; distinct by hash of canonical JSON")
ASSUMPTIONS = [
    "a stale stacker (used after the lists were changed by something else) is outside 'sequences of stack operations'; "
    "every transition's start state is checked to be coherent (stacker copy = lists), otherwise the case is outside the domain",
    "row labels and dtypes of the written-back frames are not part of C12's statement (write-back renumbers labels and floats int columns)",
    "values are dyadic rationals and operands are chosen so that binary64 arithmetic is exact",
]
TRUSTED = ["harness/frames.py, harness/maps.py (chart construction and snapshots)"]
MANIFEST = dict(
    text="Coq invariant proof: the stacker's copy stays coherent with the lists (initially and after every edit) and every edit through "
         "the stack (whole-column or conditional loc assignment, scalar or per-row operand) leaves the lists exactly as the same assignment "
         "applied to each list separately - lengths, order, other columns, lists lacking the property untouched - for all charts and all "
         "operation sequences; tied to Map.Stacker/MapSet.Stacker by per-transition correspondence on real charts of all five games.",
    note="Trusted: Coq kernel+VM, harness snapshots; pandas alignment semantics modelled only as far as the stacker uses them; "
         "stale stackers excluded by the coherence precondition (checked per transition).",
    technique="Coq invariant/refinement proof + vm_compute correspondence per transition",
    design="4/C12")

NUMERIC_PROPS = {"offset", "column", "length", "bpm", "metronome", "hitsound_set", "sample_set", "sample_set_index",
                 "addition_set", "custom_set", "volume", "multiplier", "pan"}


def _gen_ops(rng, game, n_ops):
    ops = []
    keys = ["offset", "offset", "column", "length", "bpm", "metronome"]
    if game == "osu":
        keys += ["volume", "hitsound_set", "sample_set"]
    for _ in range(n_ops):
        r = rng.random()
        aop = rng.choice(["set", "add", "sub", "mul", "div"])
        v = rng.choice([1, 2, 4, 0.5, 8, 3, 250, -250, 0.25])
        if aop == "div":
            v = rng.choice([2, 4, 0.5, 8])
        if r < 0.15:
            inc = rng.choice([None, ["HitList", "HoldList"], ["NoteList"], ["BpmList"], ["HoldList"], ["HitList", "BpmList"]])
            ops.append({"op": "restack", "include": inc})
        elif r < 0.55:
            ops.append({"op": "assign", "key": rng.choice(keys), "aop": aop, "v": v,
                        "vector": rng.random() < 0.3, "vseed": rng.randint(0, 10 ** 6)})
        else:
            k = rng.choice([1, 1, 2])
            cols = rng.sample(["offset", "column", "length", "bpm", "metronome"], k)
            mask = rng.choice(["random", "random", "all", "none", "cond"])
            ops.append({"op": "loc", "cols": cols, "as_str": k == 1 and rng.random() < 0.5, "aop": aop, "v": v,
                        "mask": mask, "mseed": rng.randint(0, 10 ** 6),
                        "cond": {"col": rng.randint(0, 6), "t": M.rand_time(rng), "both": rng.random() < 0.5}})
    return ops


def generate(rng, tier):
    cases = []
    n = 30 if tier == "quick" else 500
    for game in M.GAMES:
        for _ in range(n):
            spec = M.gen_map_spec(rng, game, max_rows=rng.choice([2, 4, 6]))
            cases.append({"kind": "map", "map": spec, "ops": _gen_ops(rng, game, rng.choice([1, 2, 4, 6])),
                          "include0": rng.choice([None, None, ["HitList", "HoldList"], ["NoteList"]])})
        for _ in range(max(2, n // 4)):
            specs = [M.gen_map_spec(rng, game, max_rows=3) for _ in range(rng.choice([2, 3]))]
            if rng.random() < 0.4:
                # a chart whose lists are ALL empty somewhere in the set (it has no row in the set's stacked frame)
                e = M.gen_map_spec(rng, game, max_rows=1)
                for ls in e["lists"].values():
                    ls["rows"] = []
                specs.insert(rng.randrange(len(specs)), e)
            ops = [{"op": "assign", "key": rng.choice(["offset", "column", "length", "bpm", "metronome"]),
                    "aop": rng.choice(["add", "sub", "mul", "div"]), "v": rng.choice([2, 4, 0.5, 8])}
                   for _ in range(rng.choice([1, 2, 3]))]
            cases.append({"kind": "mapset", "game": game, "maps": specs, "ops": ops})
    return cases


# ------------------------------------------------------------------ implementation side
def _types(names):
    if names is None:
        return None
    from reamber.base.lists.notes.HitList import HitList
    from reamber.base.lists.notes.HoldList import HoldList
    from reamber.base.lists.notes.NoteList import NoteList
    from reamber.base.lists.BpmList import BpmList
    d = {"HitList": HitList, "HoldList": HoldList, "NoteList": NoteList, "BpmList": BpmList}
    return tuple(d[n] for n in names)


def _stacked_frame(stack, m=None):
    """the stacker's joined copy: its `_stacked` frame (reamber itself reads it, e.g. full_ln), or - should an
    implementation keep it elsewhere - rebuilt through the public indexer stack[col]"""
    df = getattr(stack, "_stacked", None)
    if df is not None:
        return df
    cols = []
    for lst in (m.objs.values() if m is not None else []):
        for c in lst.df.columns:
            if c not in cols:
                cols.append(c)
    out = {}
    for c in cols:
        try:
            out[c] = stack[c]
        except KeyError:
            pass
    return pd.DataFrame(out)


def _stack_rows(stack, it, m=None):
    df = _stacked_frame(stack, m)
    cols = [c for c in df.columns if str(c) not in ("index", "level_0")]
    colvals = [list(df[c].tolist()) for c in cols]
    ids = [FR.col_id(c) for c in cols]
    return {"cols": ids, "rows": [[[ids[j], FR.cell_json(colvals[j][i], it)] for j in range(len(cols))] for i in range(len(df))]}


def _members(m, stack, include=None):
    names = []
    un = getattr(stack, "_unstacked", None)
    if un is None:
        return [k for k, v in m.objs.items() if include is None or isinstance(v, include)]
    for u in un:
        for k, v in m.objs.items():
            if v is u:
                names.append(k)
                break
        else:
            raise RuntimeError("stacked list is not a list of the map")
    return names


_AOP = {"add": lambda a, b: a + b, "sub": lambda a, b: a - b, "mul": lambda a, b: a * b, "div": lambda a, b: a / b}


def _apply(stack, o, n):
    """performs the stack edit; returns the op as recorded for Coq"""
    v = o["v"]
    if o["op"] == "assign":
        key = o["key"]
        operand = v
        rec = {"op": "assign", "key": FR.col_id(key), "aop": o["aop"], "v": F.frac_json(Fr(v)), "vec": None}
        if o.get("vector"):
            r2 = random.Random(o["vseed"])
            pool = [1, 2, 4, 0.5, 8, 0.25] if o["aop"] in ("div", "mul") else [1, 2, 4, 0.5, 250, -250, 8]
            vec = [r2.choice(pool) for _ in range(n)]
            operand = np.array(vec, dtype=float)
            rec["vec"] = [F.frac_json(Fr(x)) for x in vec]
        if o["aop"] == "set":
            stack[key] = operand
        else:
            stack[key] = _AOP[o["aop"]](stack[key], operand)
        return rec
    if o["op"] == "loc":
        if o["mask"] == "all":
            mask = [True] * n
        elif o["mask"] == "none":
            mask = [False] * n
        elif o["mask"] == "cond":
            c = o["cond"]
            ms = (stack.column >= c["col"])
            if c["both"]:
                ms = ms & (stack.offset > c["t"])
            mask = [bool(b) for b in ms.tolist()]
        else:
            r2 = random.Random(o["mseed"])
            mask = [r2.random() < 0.5 for _ in range(n)]
        cols = o["cols"][0] if o["as_str"] else list(o["cols"])
        ms = pd.Series(mask, index=_stacked_frame(stack).index, dtype=bool) if n else pd.Series([], dtype=bool)
        if o["aop"] == "set":
            stack.loc[ms, cols] = v
        elif o["aop"] == "add":
            stack.loc[ms, cols] += v
        elif o["aop"] == "sub":
            stack.loc[ms, cols] -= v
        elif o["aop"] == "mul":
            stack.loc[ms, cols] *= v
        else:
            stack.loc[ms, cols] /= v
        return {"op": "loc", "mask": mask, "cols": [FR.col_id(c) for c in o["cols"]], "aop": o["aop"], "v": F.frac_json(Fr(v))}
    raise ValueError(o["op"])


def _snap(m, it):
    return {k: M.snapshot_list(v, it) for k, v in m.objs.items()}


def execute(case):
    it = FR.Interner()
    out = {"steps": []}
    if case["kind"] == "map":
        m = M.build_map(case["map"])
        stack = m.stack(_types(case["include0"]))
        mem = _members(m, stack)
        out["steps"].append({"t": "init", "members": mem, "lists": _snap(m, it), "rows": _stack_rows(stack, it)})
        for o in case["ops"]:
            if o["op"] == "restack":
                try:
                    stack = m.stack(_types(o["include"]))
                except ValueError:
                    continue            # pd.concat of no objects: nothing to stack
                mem = _members(m, stack)
                out["steps"].append({"t": "init", "members": mem, "lists": _snap(m, it), "rows": _stack_rows(stack, it)})
                continue
            before = _snap(m, it)
            rows_b = _stack_rows(stack, it)
            types_b = {k: type(v).__name__ for k, v in m.objs.items()}
            try:
                rec = _apply(stack, o, len(_stacked_frame(stack, m)))
            except KeyError as e:
                # the property exists in no stacked list (e.g. bpm on a notes-only stack)
                out["steps"].append({"t": "keyerror", "op": o, "exc": str(e)[:60]})
                continue
            except (ValueError, TypeError) as e:
                # same situation on a stack of empty lists only: pandas raises these instead of KeyError
                sf = _stacked_frame(stack, m)
                wanted = [o["key"]] if o["op"] == "assign" else o["cols"]
                have = {c for k in mem for c in m.objs[k].df.columns}
                if len(sf) == 0 and any(c not in have for c in wanted) and _snap(m, it) == before:
                    out["steps"].append({"t": "keyerror", "op": o, "exc": str(e)[:60]})
                    continue
                raise
            after = _snap(m, it)
            out["steps"].append({"t": "step", "members": mem, "before": before, "rows_b": rows_b, "op": rec, "after": after,
                                 "rows_a": _stack_rows(stack, it),
                                 "types_same": types_b == {k: type(v).__name__ for k, v in m.objs.items()}})
        return out
    maps = [M.build_map(s) for s in case["maps"]]
    ms = M.build_mapset(case["game"], maps)
    st = ms.stack()
    for o in case["ops"]:
        befores = [_snap(m, it) for m in maps]
        rows_b = [_stack_rows(s, it) for s in st.stackers]
        key = o["key"]
        try:
            st[key] = _AOP[o["aop"]](st[key], o["v"])
        except KeyError as e:
            out["steps"].append({"t": "keyerror", "op": o, "exc": str(e)[:60]})
            continue
        for k, m in enumerate(maps):
            if all(len(v) == 0 for v in m.objs.values()):
                continue          # a chart without any row: nothing to edit (its neighbours in the set are judged)
            out["steps"].append({"t": "step", "members": list(m.objs.keys()), "before": befores[k], "rows_b": rows_b[k],
                                 "op": {"op": "assign", "key": FR.col_id(key), "aop": o["aop"], "v": F.frac_json(Fr(o["v"])), "vec": None},
                                 "after": _snap(m, it), "rows_a": _stack_rows(st.stackers[k], it), "types_same": True})
    return out


# ------------------------------------------------------------------ Coq side
def _arows(r):
    return F.lst([F.lst([f"({F.z(k)}, {FR.cell_coq(c)})" for k, c in row]) for row in r["rows"]])


def _aop(a):
    return {"set": "ASet", "add": "AAdd", "sub": "ASub", "mul": "AMul", "div": "ADiv"}[a]


def _op_coq(o):
    v = F.q(F.frac_from_json(o["v"]))
    if o["op"] == "assign":
        if o["vec"] is not None:
            opd = "(OVector " + F.lst([F.q(F.frac_from_json(x)) for x in o["vec"]]) + ")"
        else:
            opd = f"(OScalar {v})"
        return f"(SAssign {F.z(o['key'])} {_aop(o['aop'])} {opd})"
    return f"(SLoc {F.lst([F.boolean(b) for b in o['mask']])} {F.lst([F.z(c) for c in o['cols']])} {_aop(o['aop'])} {v})"


def _allcols(lists):
    s = set()
    for l in lists.values():
        s.update(l["frame"]["cols"])
    return F.lst([F.z(c) for c in sorted(s)])


def emit_all(case, out):
    terms = []
    for s in out["steps"]:
        if s["t"] == "init":
            ls = F.lst([M.ulist_coq(s["lists"][k]) for k in s["members"]])
            terms.append(f"CInit {ls} {_allcols(s['lists'])} {_arows(s['rows'])}")
        elif s["t"] == "step":
            mem = s["members"]
            rest = [k for k in s["before"] if k not in mem]
            terms.append(
                f"CStep {F.lst([M.ulist_coq(s['before'][k]) for k in mem])} {_allcols(s['before'])} {_arows(s['rows_b'])} "
                f"{_op_coq(s['op'])} {F.lst([M.ulist_coq(s['after'][k]) for k in mem])} {_arows(s['rows_a'])} "
                f"{F.lst([M.ulist_coq(s['before'][k]) for k in rest])} {F.lst([M.ulist_coq(s['after'][k]) for k in rest])}")
    return terms


def py_oracle(case, out):
    """list types must be unchanged by every edit"""
    return all(s.get("types_same", True) for s in out["steps"])


def nontrivial(case, out):
    return any(s["t"] == "step" and len(s["rows_b"]["rows"]) >= 2 for s in out["steps"])


def bucket(case, out):
    g = case["map"]["game"] if case["kind"] == "map" else case["game"]
    return f"{case['kind']}/{g}/steps={sum(1 for s in out['steps'] if s['t'] == 'step')}"


def classify(case, out, kind, sub=None):
    return None


def describe(case, out):
    return f"{case['kind']} ops={[o['op'] + ':' + str(o.get('key', o.get('cols'))) + ':' + o.get('aop', '') for o in case['ops']]}"


def shrink(case):
    for i in range(len(case["ops"])):
        c = dict(case)
        c["ops"] = case["ops"][:i] + case["ops"][i + 1:]
        if c["ops"]:
            yield c
