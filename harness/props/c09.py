"""C09: read -> convert -> write.  A case = a SOURCE FILE in one of the five formats (inside the domain of C01 / C02 / C04 /
C06 / C07) + a target game the library can write (+ the BMS layout / column shift when the target is BMS).  The real pipeline
B.write(AToB.convert(A.read(file))) is run, every written target (one per StepMania chart / O2Jam difficulty) becomes one Coq
term, and INSIDE COQ the reference interpreters of both formats (written by the C01..C07 engineers, independent of reamber's
readers) decide: the target text is well-formed in B and its timeline (notes kind/column/time/length + tempo points) equals
the source file's timeline to within the coarser of the two formats' resolutions (Formats/Timeline.v, Corr/RunC09.v).

Source files come from one structured generator (`gen_abstract`: a small musical chart on a beat grid: 1..3 tempo points,
<= 9 notes) rendered into each format's dialect, plus files drawn from the other properties' own generators (c01 / c02 / c04 /
c06 / c07) whenever the target is a millisecond format (those accept any timeline)."""
from fractions import Fraction as Fr
import copy
import math
import struct

from .. import coqfmt as F

ID = "C09"
RUNNER = "Corr.RunC09"
CASE_TYPE = "c09case"
RUNNER_TARGETS = ["Corr/RunC09.vo"]
PROOF_TARGETS = ["Props/C09.vo"]
PROPS_FILE = "Props/C09.v"
PROPS_MODULE = "Props.C09"

SOURCES = ["osu", "qua", "sm", "bms", "o2j"]
TARGETS = ["osu", "qua", "sm", "bms"]
PAIRS = [(a, b) for a in SOURCES for b in TARGETS if a != b]          # the 16 converters
CONVERTER = {("osu", "qua"): "OsuToQua", ("osu", "sm"): "OsuToSM", ("osu", "bms"): "OsuToBMS",
             ("qua", "osu"): "QuaToOsu", ("qua", "sm"): "QuaToSM", ("qua", "bms"): "QuaToBMS",
             ("sm", "osu"): "SMToOsu", ("sm", "qua"): "SMToQua", ("sm", "bms"): "SMToBMS",
             ("bms", "osu"): "BMSToOsu", ("bms", "qua"): "BMSToQua", ("bms", "sm"): "BMSToSM",
             ("o2j", "osu"): "O2JToOsu", ("o2j", "qua"): "O2JToQua", ("o2j", "sm"): "O2JToSM", ("o2j", "bms"): "O2JToBMS"}
LAYOUTS = ["BMS", "BME", "PMS", "PMS_BME", "PMS_5B"]
LAYOUT_KEYS = {"BMS": 14, "BME": 16, "PMS": 9, "PMS_BME": 18, "PMS_5B": 5}
SM_TYPES = {4: "dance-single", 8: "dance-double", 6: "dance-solo", 3: "dance-threepanel", 7: "kb7-single"}
SM_EXTRA_TYPES = {"dance-couple": 4, "dance-routine": 8}
QUA_KEYS = [4, 7, 8]

# 60000/bpm exact in binary64 with a short mantissa
EXACT_BPMS = [60, 75, 93.75, 100, 120, 125, 150, 160, 187.5, 200, 240, 250, 300, 375, 400, 480]
ROUND_BPMS = ["133.33", "175.083", "87.5", "222.22", "99.999", "140", "180", "174", "128.5", "90.125", "200.001"]
LONG_BPMS = ["133.3333", "175.08333", "120.00049"]           # more than three decimals (BMS ':.3f' finding)
WORDS = ["", "Alpha", "Re Zero", "xi", "Camellia feat Nanahira", "Hard", "Insane 7K", "mapper_01", "A B C", "竹", "Ünï"]


# ====================================================================================== abstract chart
def time_of(t0, tempo, beat):
    """ms of a beat position: piecewise-linear integration over the tempo script (beat, bpm), sorted, first at beat 0"""
    t, b0, bpm = Fr(t0), Fr(0), tempo[0][1]
    for (b1, v1) in tempo[1:]:
        if b1 <= beat:
            t += (b1 - b0) * Fr(60000) / bpm
            b0, bpm = b1, v1
        else:
            break
    return t + (beat - b0) * Fr(60000) / bpm


def gen_abstract(rng, keys, *, exact=False, t0_zero=False, tempo_style=None, grid=None, full_cols=True, max_notes=None,
                 int_bpm=False, bpm3=True):
    """A small musical chart: tempo script in beats (first change at beat 0, which sounds at t0 ms), notes on a beat grid.
    Per column the notes are laid out along a cursor, so long notes of a column never overlap and no two objects share a
    position.  full_cols: the last column is used (converters derive the key count from the largest column used)."""
    style = tempo_style or rng.choice(["one", "one", "lines", "lines", "beats", "half", "quarter", "eighth"])
    n_t = 1 if style == "one" else rng.choice([2, 2, 3])

    def bpm():
        if int_bpm:
            return Fr(rng.choice([60, 90, 100, 120, 128, 150, 160, 180, 200, 240, 255, 75]))
        if exact:
            return Fr(rng.choice(EXACT_BPMS))
        r = rng.random()
        if r < 0.5:
            return Fr(rng.choice(EXACT_BPMS))
        if r < 0.93 or bpm3:
            return Fr(rng.choice(ROUND_BPMS))
        return Fr(rng.choice(LONG_BPMS))
    tempo = [(Fr(0), bpm())]
    for _ in range(n_t - 1):
        step = {"lines": Fr(4) * rng.choice([1, 1, 2, 3]), "beats": Fr(rng.choice([1, 2, 3, 5, 6])),
                "half": Fr(rng.choice([1, 3, 5, 9]), 2), "quarter": Fr(rng.choice([1, 3, 5, 7, 9]), 4),
                "eighth": Fr(rng.choice([1, 3, 5, 9, 11]), 8)}[style]
        v = bpm()
        while v == tempo[-1][1]:
            v = bpm() if not int_bpm else tempo[-1][1] + 30
        tempo.append((tempo[-1][0] + step, v))
    if style == "eighth" and rng.random() < 0.5:                       # a large tempo ratio at an x.125 beat
        tempo[0] = (Fr(0), Fr(60))
        tempo[1] = (tempo[1][0], Fr(240) if not int_bpm else Fr(240))
    if t0_zero:
        t0 = Fr(0)
    else:
        t0 = Fr(rng.choice([0, 0, 500, 1000, 37, 1250, 2000, 333, -250, 64]))
        if not exact and rng.random() < 0.2:
            t0 = Fr(rng.randint(-400, 3000))
    g = grid or rng.choice([1, 2, 2, 4, 4, 4, 3, 8, 12, 16, 6, 5, 24, 48])
    last_beat = tempo[-1][0] + rng.choice([4, 8, 8, 12])
    cols = list(range(keys))
    use = rng.sample(cols, min(keys, rng.choice([1, 2, 3, 4, 7])))
    if full_cols and keys - 1 not in use:
        use[0] = keys - 1
    budget = max_notes or rng.choice([2, 4, 6, 9])
    notes = []
    for c in use:
        cur = Fr(rng.randrange(0, 4 * g), g)
        while cur < last_beat and len(notes) < budget:
            if rng.random() < 0.3:
                ln = Fr(rng.randint(1, 3 * g), g) if g > 1 else Fr(rng.randint(1, 3))
                ln = max(ln, Fr(1, 4))
                notes.append([c, cur, ln])
                cur += ln
            else:
                notes.append([c, cur, None])
            cur += max(Fr(rng.randint(1, 4 * g), g), Fr(1, 4))
    if notes and rng.random() < 0.35:                                    # an object exactly at beat 0
        notes[0][1] = Fr(0)
        c0 = notes[0][0]
        others = [n for n in notes[1:] if n[0] == c0]
        end0 = notes[0][2] or Fr(0)
        notes = [notes[0]] + [n for n in notes[1:] if not (n[0] == c0 and n[1] <= end0 + Fr(1, 4))]
    notes.sort(key=lambda n: (n[1], n[0]))
    return {"keys": keys, "t0": t0, "tempo": tempo, "notes": [tuple(n) for n in notes], "grid": g, "style": style,
            "exact": exact}


def _jit(rng, t, mode):
    """millisecond formats: the time actually stored in the file"""
    if mode == "int":
        return Fr(math.floor(t + Fr(1, 2)))
    if mode == "frac":
        return Fr(math.floor(t * 8 + Fr(1, 2)), 8)
    return Fr(t)


def dec(x, places=None):
    """decimal text of a rational: exact when finite, else rounded to `places` (default 12 significant) digits"""
    x = Fr(x)
    d = x.denominator
    while d % 2 == 0:
        d //= 2
    while d % 5 == 0:
        d //= 5
    if d == 1 and places is None:
        k = 0
        while (x * 10 ** k).denominator != 1:
            k += 1
        n = int(x * 10 ** k)
        s = "-" if n < 0 else ""
        n = abs(n)
        ip, fp = divmod(n, 10 ** k)
        return f"{s}{ip}" + (f".{fp:0{k}d}" if k else "")
    return f"{float(x):.{places if places is not None else 9}f}"


def _pd(s):
    """exact value of a decimal text (what the reference interpreters' parse_dec gives)"""
    return Fr(s)


# ====================================================================================== renderers (file + exact timeline)
# a timeline is {"notes": [(kind, col, t, len)], "tempo": [(t, bpm)]} with Fractions; kind 0 = hit, 1 = hold
def render_osu(rng, ab, mode="int", extras=True):
    k = ab["keys"]
    lines = ["osu file format v14", "", "[General]", f"AudioFilename: {rng.choice(['audio.mp3', 'a b.ogg', ''])}",
             f"PreviewTime: {rng.choice([-1, 0, 12345])}", "Mode: 3", "", "[Metadata]",
             f"Title:{rng.choice(WORDS)}", f"TitleUnicode:{rng.choice(WORDS)}", f"Artist:{rng.choice(WORDS)}",
             f"Creator:{rng.choice(WORDS)}", f"Version:{rng.choice(WORDS)}", "", "[Difficulty]", f"CircleSize:{k}",
             "OverallDifficulty:8", "", "[Events]", "//Background and Video events",
             f'0,0,"{rng.choice(["bg.png", "b g.jpg", ""])}",0,0', "", "[TimingPoints]"]
    tl = {"notes": [], "tempo": []}
    svs = []
    for (b, v) in ab["tempo"]:
        t = _jit(rng, time_of(ab["t0"], ab["tempo"], b), mode)
        bl = dec(Fr(60000) / v, None if ab["exact"] else 12)
        lines.append(f"{dec(t)},{bl},4,0,0,{rng.randint(0, 100)},1,{rng.choice([0, 0, 1])}")
        tl["tempo"].append((_pd(dec(t)), Fr(60000) / _pd(bl)))
        if extras and rng.random() < 0.3:
            st = t + rng.choice([0, 250, -100])
            svs.append(f"{dec(st)},{rng.choice(['-100', '-50', '-200', '-80'])},4,0,0,50,0,0")
    lines += svs
    lines += ["", "", "[HitObjects]"]
    for (c, b, ln) in ab["notes"]:
        t = _jit(rng, time_of(ab["t0"], ab["tempo"], b), mode)
        x = (512 * c + 256) // k
        if ln is None:
            lines.append(f"{x},192,{dec(t)},1,0,0:0:0:0:")
            tl["notes"].append((0, c, _pd(dec(t)), Fr(0)))
        else:
            e = _jit(rng, time_of(ab["t0"], ab["tempo"], b + ln), mode)
            lines.append(f"{x},192,{dec(t)},128,0,{dec(e)}:0:0:0:0:")
            tl["notes"].append((1, c, _pd(dec(t)), _pd(dec(e)) - _pd(dec(t))))
    return lines, tl


def render_qua(rng, ab, extras=True):
    k = ab["keys"]
    doc = {"AudioFile": rng.choice(["audio.mp3", "a b.ogg"]), "Mode": f"Keys{k}", "Title": rng.choice(WORDS),
           "Artist": rng.choice(WORDS), "Creator": rng.choice(WORDS), "DifficultyName": rng.choice(WORDS),
           "BackgroundFile": rng.choice(["bg.png", ""]), "SongPreviewTime": rng.choice([0, 12345])}
    tl = {"notes": [], "tempo": []}
    tps, hos, svs = [], [], []
    for (b, v) in ab["tempo"]:
        t = int(_jit(rng, time_of(ab["t0"], ab["tempo"], b), "int"))
        vv = float(v) if v.denominator != 1 or rng.random() < 0.5 else int(v)
        tps.append({"StartTime": t, "Bpm": vv})
        tl["tempo"].append((Fr(t), Fr(vv)))
        if extras and rng.random() < 0.3:
            svs.append({"StartTime": t + rng.choice([0, 250, -100]), "Multiplier": rng.choice([0.5, 2.0, 1.25])})
    for (c, b, ln) in ab["notes"]:
        t = int(_jit(rng, time_of(ab["t0"], ab["tempo"], b), "int"))
        rec = {"StartTime": t, "Lane": c + 1, "KeySounds": []}
        if ln is not None:
            e = int(_jit(rng, time_of(ab["t0"], ab["tempo"], b + ln), "int"))
            rec["EndTime"] = e
            tl["notes"].append((1, c, Fr(t), Fr(e - t)))
        else:
            tl["notes"].append((0, c, Fr(t), Fr(0)))
        hos.append(rec)
    doc["TimingPoints"] = tps
    doc["SliderVelocities"] = svs
    doc["HitObjects"] = hos
    return doc, tl


def _sm_rows(ab, keys, extra_kinds, rng):
    """measures of row strings; every measure uses the smallest multiple-of-4 row count that holds its objects"""
    ev = {}                                                   # beat -> {col: char}

    def put(b, c, ch):
        ev.setdefault(b, {})[c] = ch
    for (c, b, ln) in ab["notes"]:
        if ln is None:
            put(b, c, "1")
        else:
            put(b, c, "2")
            put(b + ln, c, "3")
    extras = []
    if extra_kinds and ab["notes"]:
        # StepMania-only objects (mine / lift / fake / keysound, and one roll) in free cells
        last = max(b + (ln or 0) for (_, b, ln) in ab["notes"])
        busy = {}
        for (c, b, ln) in ab["notes"]:
            busy.setdefault(c, []).append((b, b + (ln or 0)))
        for _ in range(rng.choice([0, 1, 2])):
            c = rng.randrange(keys)
            b = Fr(rng.randrange(0, int(last) * 4 + 4), 4)
            if all(not (s <= b <= e) for s, e in busy.get(c, [])) and c not in ev.get(b, {}):
                ch = rng.choice("MLFK")
                put(b, c, ch)
                extras.append((ch, c, b))
        if rng.random() < 0.4:
            c = rng.randrange(keys)
            b = last + 1
            put(b, c, "4")
            put(b + 2, c, "3")
            extras.append(("roll", c, b))
    if not ev:
        return [["0" * keys] * 4], extras
    n_meas = int(max(ev) // 4) + 1
    out = []
    for m in range(n_meas):
        here = {b - 4 * m: cs for b, cs in ev.items() if 4 * m <= b < 4 * m + 4}
        n = 4
        for b in here:
            d = (b / 4).denominator
            n = n * d // math.gcd(n, d)
        while n % 4:
            n *= 2
        rows = [["0"] * keys for _ in range(n)]
        for b, cs in here.items():
            r = b / 4 * n
            assert r.denominator == 1
            for c, ch in cs.items():
                rows[int(r)][c] = ch
        out.append(["".join(r) for r in rows])
    return out, extras


def render_sm(rng, ab, n_charts=1, extra_kinds=True, stops=True, ab2=None):
    k = ab["keys"]
    ty = SM_TYPES[k] if rng.random() < 0.85 or k not in (4, 8) else {4: "dance-couple", 8: "dance-routine"}[k]
    lines = []
    for tag in ["TITLE", "ARTIST", "CREDIT", "MUSIC", "BACKGROUND", "TITLETRANSLIT"]:
        if rng.random() < 0.7:
            lines.append(f"#{tag}:{rng.choice(WORDS)};")
    off = -ab["t0"] / 1000
    lines.append(f"#OFFSET:{dec(off)};")
    pairs = [f"{dec(b, 3) if b.denominator in (1, 2, 4, 8) else dec(b)}={dec(v, 3) if rng.random() < 0.5 else dec(v)}"
             for (b, v) in ab["tempo"]]
    lines.append("#BPMS:" + rng.choice([",", ",\n"]).join(pairs) + ";")
    if stops:
        lines.append("#STOPS:;")
    lines.append(f"#SAMPLESTART:{rng.choice(['0.000', '12.5'])};")
    if rng.random() < 0.5:
        lines.append("#SELECTABLE:YES;")
    tempo = [(_pd(p.split("=")[0]), _pd(p.split("=")[1])) for p in pairs]
    t0 = -_pd(dec(off)) * 1000
    tls = []
    charts = [ab] + ([ab2] if ab2 is not None else [])
    for ci, a in enumerate(charts):
        rows, _ = _sm_rows(a, k, extra_kinds, rng)
        lines.append(f"//--------------- {ty} - ----------------")
        lines.append("#NOTES:")
        lines += [f"     {ty}:", f"     {rng.choice(['', 'desc', 'K. Ward'])}:", f"     {rng.choice(['Easy', 'Hard', 'Challenge'])}:",
                  f"     {rng.choice([1, 9, 14])}:", "     0.5,0.5,0.5,0.5,0.5:"]
        for i, m in enumerate(rows):
            if i:
                lines.append(",")
            lines += m
        lines.append(";")
        tl = {"notes": [], "tempo": [(time_of(t0, tempo, b), v) for (b, v) in tempo]}
        for (c, b, ln) in a["notes"]:
            t = time_of(t0, tempo, b)
            if ln is None:
                tl["notes"].append((0, c, t, Fr(0)))
            else:
                tl["notes"].append((1, c, t, time_of(t0, tempo, b + ln) - t))
        tls.append(tl)
    return "\n".join(lines) + "\n", tls


B36 = "0123456789ABCDEFGHIJKLMNOPQRSTUVWXYZ"


def b36(n):
    return B36[n // 36] + B36[n % 36]


def _layout(name):
    from reamber.bms.BMSChannel import BMSChannel
    return getattr(BMSChannel, name)


def render_bms(rng, ab, lname, sample_style="ascii"):
    """ab must have t0 = 0.  Tempo values: channel 03 for integers <= 255, else the #BPMxx table (channel 08)."""
    cfg = _layout(lname)
    chan = {v: k.decode() for k, v in cfg.items() if isinstance(v, int) and not isinstance(v, bool)}
    hdr = []
    if rng.random() < 0.9:
        hdr.append("#TITLE " + rng.choice(["take", "a b  c", "竹", "x", "[7KEYS] #1: intro"]))
    if rng.random() < 0.8:
        hdr.append("#ARTIST " + rng.choice(["x", "立秋", "A B"]))
    if rng.random() < 0.8:
        hdr.append("#PLAYLEVEL " + str(rng.choice([0, 3, 12])))
    hdr.append("#LNOBJ ZZ")
    wavs = {"ascii": ["kick.wav", "snare 01.wav"], "none": [], "sjis": ["ドラム.wav", "kick.wav"]}[sample_style]
    ids = ["01", "02", "0A"]
    for i, w in enumerate(wavs):
        hdr.append(f"#WAV{ids[i]} {w}")
    per = {}
    ext = {}
    tempo_txt = []
    bpm0 = ab["tempo"][0][1]
    first_in_objects = rng.random() < 0.3
    hdr.append("#BPM " + dec(bpm0 if not first_in_objects else Fr(rng.choice([100, 130, 200]))))
    tempo_script = []
    for i, (b, v) in enumerate(ab["tempo"]):
        if i == 0 and not first_in_objects:
            tempo_script.append((b, _pd(dec(bpm0))))
            continue
        m, pos = int(b // 4), (b % 4) / 4
        if v.denominator == 1 and v <= 255 and rng.random() < 0.7:
            per.setdefault((m, "03"), []).append((pos, "%02X" % int(v)))
            tempo_script.append((b, v))
        else:
            key = b36(len(ext) + 1)
            ext[key] = dec(v)
            per.setdefault((m, "08"), []).append((pos, key))
            tempo_script.append((b, _pd(dec(v))))
    for kx, v in ext.items():
        hdr.append(f"#BPM{kx} {v}")
    note_ids = ids[:max(1, len(wavs))] + ["0Z"]
    for (c, b, ln) in ab["notes"]:
        m, pos = int(b // 4), (b % 4) / 4
        per.setdefault((m, chan[c]), []).append((pos, rng.choice(note_ids)))
        if ln is not None:
            e = b + ln
            per.setdefault((int(e // 4), chan[c]), []).append(((e % 4) / 4, "ZZ"))
    data = []
    for (m, ch) in sorted(per):
        L = 1
        for p, _ in per[(m, ch)]:
            L = L * p.denominator // math.gcd(L, p.denominator)
        L *= rng.choice([1, 1, 2, 4]) if L <= 48 else 1
        seq = ["00"] * L
        for p, ident in per[(m, ch)]:
            seq[int(p * L)] = ident
        data.append(f"#{m:03d}{ch}:" + "".join(seq))
    if rng.random() < 0.3:
        rng.shuffle(data)
    lines = hdr + [""] + data
    tl = {"notes": [], "tempo": [(time_of(0, tempo_script, b), v) for (b, v) in tempo_script]}
    for (c, b, ln) in ab["notes"]:
        t = time_of(0, tempo_script, b)
        if ln is None:
            tl["notes"].append((0, c, t, Fr(0)))
        else:
            tl["notes"].append((1, c, t, time_of(0, tempo_script, b + ln) - t))
    return lines, tl


def _f32(x):
    return struct.unpack("<f", struct.pack("<f", float(x)))[0]


def _bits(v):
    return struct.unpack("<I", struct.pack("<f", v))[0]


def render_o2j(rng, abs3):
    """abs3: three abstract charts (7 keys, t0 = 0), one per difficulty; they share the header tempo (= their first tempo)"""
    hb = _f32(abs3[0]["tempo"][0][1])
    hdr = {"song_id": rng.choice([0, 1, 300]), "signature": [111, 106, 110], "encode_version": _bits(_f32(2.9)), "genre": 2,
           "bpm": _bits(hb), "level": [rng.choice([1, 5, 12]) for _ in range(3)] + [0],
           "event_count": [0, 0, 0], "note_count": [0, 0, 0], "measure_count": [0, 0, 0],
           "old_encode_version": 29, "old_song_id": 1, "old_genre": [], "bmp_size": 0, "old_file_version": 0,
           "title": [ord(c) for c in rng.choice(["", "Alpha", "Re Zero", "A B C"])],
           "artist": [ord(c) for c in rng.choice(["", "xi", "Camellia"])],
           "noter": [ord(c) for c in rng.choice(["", "mapper_01"])], "ojm_file": [ord(c) for c in "o2ma100.ojm"],
           "cover_size": 0, "time": [60, 60, 60], "note_offset": [300, 300, 300], "cover_offset": 0}
    levels, tls = [], []
    for ab in abs3:
        pk = []
        script = [(Fr(0), Fr(hb))]
        groups = {}
        r0 = rng.random()                                      # first tempo of the difficulty: the header tempo alone (typical),
        for i, (b, v) in enumerate(ab["tempo"]):               # a tempo event at position 0 repeating it, or one replacing it
            fv = Fr(_f32(v))
            if i == 0:
                if r0 < 0.55:
                    continue
                if r0 < 0.85:
                    fv = Fr(hb)
                script = []
            m, pos = int(b // 4), (b % 4) / 4
            groups.setdefault((m, 1), []).append((pos, list(struct.pack("<f", float(fv)))))
            script.append((b, fv))
        for (c, b, ln) in ab["notes"]:
            m, pos = int(b // 4), (b % 4) / 4
            vol_pan = rng.choice([0, 0x08, 0xF0])
            if ln is None:
                groups.setdefault((m, c + 2), []).append((pos, list(struct.pack("<hBB", rng.choice([1, 2, 300]), vol_pan, 0))))
            else:
                e = b + ln
                groups.setdefault((m, c + 2), []).append((pos, list(struct.pack("<hBB", 1, vol_pan, 2))))
                groups.setdefault((int(e // 4), c + 2), []).append(((e % 4) / 4, list(struct.pack("<hBB", 1, vol_pan, 3))))
        for (m, ch) in sorted(groups):
            L = 1
            for p, _ in groups[(m, ch)]:
                L = L * p.denominator // math.gcd(L, p.denominator)
            L *= rng.choice([1, 1, 2, 4]) if L <= 48 else 1
            pk.append({"m": m, "ch": ch, "n": L, "ev": sorted([[int(p * L), bs] for p, bs in groups[(m, ch)]])})
        if rng.random() < 0.3:
            pk.append({"m": rng.randint(0, 2), "ch": rng.randint(9, 22), "n": 2, "ev": [[1, list(struct.pack("<hBB", 5, 0, 0))]]})
        levels.append(pk)
        full = script if script[0][0] == 0 else [(Fr(0), Fr(hb))] + script
        tl = {"notes": [], "tempo": [(time_of(0, full, b), v) for (b, v) in full]}
        for (c, b, ln) in ab["notes"]:
            t = time_of(0, full, b)
            if ln is None:
                tl["notes"].append((0, c, t, Fr(0)))
            else:
                tl["notes"].append((1, c, t, time_of(0, full, b + ln) - t))
        tls.append(tl)
    return {"hdr": hdr, "levels": levels, "trail": []}, tls


# ====================================================================================== the real pipeline
EXPECTED = (ValueError, KeyError, IndexError, TypeError, AttributeError, ZeroDivisionError, AssertionError, UnicodeError)


def _jfr(x):
    return F.frac_json(Fr(x))


def _tl_json(tl):
    return {"notes": [[k, c, _jfr(t), _jfr(ln)] for (k, c, t, ln) in tl["notes"]], "tempo": [[_jfr(t), _jfr(v)] for (t, v) in tl["tempo"]]}


def _tl_from(j):
    return {"notes": [(k, c, F.frac_from_json(t), F.frac_from_json(ln)) for k, c, t, ln in j["notes"]],
            "tempo": [(F.frac_from_json(t), F.frac_from_json(v)) for t, v in j["tempo"]]}


def read_source(case):
    kind = case["src"]
    if kind == "osu":
        from reamber.osu.OsuMap import OsuMap
        return OsuMap.read(list(case["file"]))
    if kind == "qua":
        import yaml
        from reamber.quaver.QuaMap import QuaMap
        return QuaMap.read(yaml.safe_dump(case["file"], default_flow_style=False, allow_unicode=True, sort_keys=False).split("\n"))
    if kind == "sm":
        from reamber.sm.SMMapSet import SMMapSet
        return SMMapSet.read(case["file"])
    if kind == "bms":
        from reamber.bms.BMSMap import BMSMap
        return BMSMap.read(list(case["file"]), _layout(case["src_layout"]))
    if kind == "o2j":
        from reamber.o2jam.O2JMapSet import O2JMapSet
        from . import c07
        return O2JMapSet.read(c07.build_bytes(case["file"]))
    raise ValueError(kind)


def write_target(case, m):
    """-> the written file in the JSON form the Coq side consumes"""
    tgt = case["tgt"]
    if tgt == "osu":
        return "\n".join(m.write()).split("\n")
    if tgt == "qua":
        import yaml
        from . import c06
        text = m.write()
        doc = yaml.safe_load(text)
        return c06.tj(doc)
    if tgt == "sm":
        return m.write()
    if tgt == "bms":
        b = m.write(note_channel_config=_layout(case["tgt_layout"]))
        return b.decode("shift_jis").split("\r\n")
    raise ValueError(tgt)


def execute(case):
    import reamber.algorithms.convert as conv
    cv = getattr(conv, CONVERTER[(case["src"], case["tgt"])])
    out = {"targets": None}
    try:
        m = read_source(case)
    except EXPECTED as e:
        out["exc"] = "read: " + type(e).__name__ + ": " + str(e)[:100]
        return out
    try:
        kw = {}
        if case["tgt"] == "bms" and case["src"] != "sm" and case.get("shift") is not None:
            kw["move_right_by"] = case["shift"]
        res = cv.convert(m, **kw)
    except EXPECTED as e:
        out["exc"] = "convert: " + type(e).__name__ + ": " + str(e)[:100]
        return out
    charts = res if isinstance(res, list) else [res]
    targets = []
    for ch in charts:
        try:
            targets.append({"v": write_target(case, ch)})
        except EXPECTED as e:
            targets.append({"v": None, "exc": "write: " + type(e).__name__ + ": " + str(e)[:100]})
    out["targets"] = targets
    return out


# ====================================================================================== python reference readers of the TARGETS
# (independent of reamber's readers; used for py_oracle / classification; the verdict is Coq's)
def tl_osu(lines):
    ls = [l.strip() for l in lines]
    sec, keys = None, None
    tl = {"notes": [], "tempo": []}
    for l in ls:
        if l.startswith("[") and l.endswith("]"):
            sec = l
            continue
        if not l:
            continue
        if sec == "[Difficulty]" and l.startswith("CircleSize:"):
            keys = int(Fr(l.split(":", 1)[1].strip()))
        elif sec == "[TimingPoints]":
            f = [x.strip() for x in l.split(",")]
            if int(f[6]) == 1:
                tl["tempo"].append((Fr(f[0]), Fr(60000) / Fr(f[1])))
        elif sec == "[HitObjects]":
            f = [x.strip() for x in l.split(",")]
            x, t, ty = int(f[0]), Fr(f[2]), int(f[3])
            c = max(0, min(keys - 1, x * keys // 512))
            if ty & 128:
                e = Fr(f[5].split(":")[0])
                tl["notes"].append((1, c, t, e - t))
            else:
                tl["notes"].append((0, c, t, Fr(0)))
    return tl


def _num(t):
    if "i" in t:
        return Fr(t["i"])
    return F.frac_from_json(t["f"])


def tl_qua(tree):
    d = dict(tree["m"])
    tl = {"notes": [], "tempo": []}
    for r in d["HitObjects"]["l"]:
        r = dict(r["m"])
        t = _num(r["StartTime"]) if "StartTime" in r else Fr(0)
        c = (r["Lane"]["i"] if "Lane" in r else 1) - 1
        if "EndTime" in r:
            tl["notes"].append((1, c, t, _num(r["EndTime"]) - t))
        else:
            tl["notes"].append((0, c, t, Fr(0)))
    for r in d["TimingPoints"]["l"]:
        r = dict(r["m"])
        tl["tempo"].append((_num(r["StartTime"]) if "StartTime" in r else Fr(0), _num(r["Bpm"]) if "Bpm" in r else Fr(120)))
    return tl


def sm_parse(text):
    """-> (offset_ms, [(beat, bpm)] sorted, [(type, [measures of rows])]) or raises"""
    txt = "\n".join(l.split("//")[0] for l in text.split("\n"))
    pieces = txt.split(";")
    if pieces[-1].strip():
        raise ValueError("text after the last ';'")
    items = []
    for p in pieces[:-1]:
        p = p.strip()
        if not p.startswith("#") or ":" not in p:
            raise ValueError("not an item: " + p[:20])
        tag, val = p.split(":", 1)
        items.append((tag, val))
    fields = {t: v.strip() for t, v in items if t != "#NOTES"}
    off = Fr(fields["#OFFSET"])
    pairs = sorted(((Fr(a.strip().split("=")[0]), Fr(a.strip().split("=")[1])) for a in fields["#BPMS"].split(",")),
                   key=lambda x: x[0])
    charts = []
    for t, v in items:
        if t == "#NOTES":
            f = [x.strip() for x in v.split(":")]
            if len(f) != 6:
                raise ValueError("NOTES fields")
            meas = [[r.strip() for r in m.split("\n") if r.strip()] for m in (f[5].split(",") if f[5] else [])]
            charts.append((f[0], meas))
    return -off * 1000, pairs, charts


SM_KEYS = {"dance-single": 4, "dance-double": 8, "dance-solo": 6, "dance-couple": 4, "dance-threepanel": 3, "dance-routine": 8,
           "kb7-single": 7}


def tl_sm(text, k=0):
    t0, pairs, charts = sm_parse(text)
    if pairs[0][0] != 0:
        raise ValueError("first tempo change not at beat 0")
    ty, meas = charts[k]
    keys = SM_KEYS[ty]
    tl = {"notes": [], "tempo": [(time_of(t0, pairs, b), v) for b, v in pairs]}
    openh = {}
    for m, rows in enumerate(meas):
        n = len(rows)
        if n == 0:
            raise ValueError("empty measure")
        for r, row in enumerate(rows):
            if len(row) != keys:
                raise ValueError("row width")
            t = time_of(t0, pairs, Fr(4 * m) + Fr(4 * r, n))
            for c, ch in enumerate(row):
                if ch == "1":
                    tl["notes"].append((0, c, t, Fr(0)))
                elif ch in "24":
                    if c in openh:
                        raise ValueError("head while open")
                    openh[c] = (ch, t)
                elif ch == "3":
                    if c not in openh:
                        raise ValueError("tail without head")
                    h, t1 = openh.pop(c)
                    if h == "2":
                        tl["notes"].append((1, c, t1, t - t1))
                elif ch not in "0MLFK":
                    raise ValueError("symbol")
    if openh:
        raise ValueError("open head")
    return tl


def tl_bms(lines, lname):
    cfg = _layout(lname)
    lane = {k.decode(): v for k, v in cfg.items() if isinstance(v, int) and not isinstance(v, bool)}
    hdr, objs = {}, []
    for l in lines:
        if not l.startswith("#"):
            continue
        mm = None
        if len(l) >= 7 and l[1:4].isdigit() and l[6] == ":":
            m, ch, data = int(l[1:4]), l[4:6], l[7:]
            if len(data) % 2 or not data:
                raise ValueError("odd data")
            k = len(data) // 2
            for i in range(k):
                d = data[2 * i:2 * i + 2]
                if d != "00":
                    objs.append((Fr(4 * m) + Fr(4 * i, k), ch, d))
        else:
            sp = l[1:].split(" ", 1)
            if len(sp) == 2:
                hdr[sp[0]] = sp[1]
    ext = {k[3:]: Fr(v) for k, v in hdr.items() if k.startswith("BPM") and len(k) == 5}
    tempo = []
    for (b, ch, d) in objs:
        if ch == "03":
            tempo.append((b, Fr(int(d, 16))))
        elif ch == "08":
            tempo.append((b, ext[d]))
    tempo.sort(key=lambda x: x[0])
    if not tempo or tempo[0][0] != 0:
        tempo = [(Fr(0), Fr(hdr["BPM"]))] + tempo
    lnobj = hdr.get("LNOBJ", "")
    tl = {"notes": [], "tempo": [(time_of(0, tempo, b), v) for b, v in tempo]}
    for ch, col in lane.items():
        mine = sorted([(b, d) for (b, c2, d) in objs if c2 == ch], key=lambda x: x[0])
        prev = None
        for (b, d) in mine:
            if d == lnobj:
                if prev is None:
                    raise ValueError("tail without head")
                t1 = time_of(0, tempo, prev)
                tl["notes"].append((1, col, t1, time_of(0, tempo, b) - t1))
                prev = None
            else:
                if prev is not None:
                    tl["notes"].append((0, col, time_of(0, tempo, prev), Fr(0)))
                prev = b
        if prev is not None:
            tl["notes"].append((0, col, time_of(0, tempo, prev), Fr(0)))
    return tl


def tl_target(case, v, k=0):
    tgt = case["tgt"]
    if tgt == "osu":
        return tl_osu(v)
    if tgt == "qua":
        return tl_qua(v)
    if tgt == "sm":
        return tl_sm(v, 0)
    return tl_bms(v, case["tgt_layout"])


# ---------------------------------------------------------------------------------- timeline comparison (python mirror)
TOL = Fr(1, 10 ** 6)


def norm_tempo(tempo):
    """sorted by time (stable); of several points at one time the last one counts"""
    s = sorted(enumerate(tempo), key=lambda x: (x[1][0], x[0]))
    out = []
    for _, p in s:
        if out and out[-1][0] == p[0]:
            out[-1] = p
        else:
            out.append(p)
    return out


def bl_at(tempo, t):
    cur = tempo[0]
    for p in tempo[1:]:
        if p[0] <= t:
            cur = p
    return Fr(60000) / cur[1]


def res_of(fmt, tempo, t):
    """resolution of a format at source time t, in ms (tempo = the normalised source tempo points)"""
    if fmt in ("osu", "qua"):
        return Fr(1)
    if fmt == "o2j" or not tempo:
        return Fr(0)
    b = bl_at(tempo, t)
    b = max(b, bl_at(tempo, t + b / 96), bl_at(tempo, t - b / 96))
    return b / (96 if fmt == "sm" else 192)


def match(src, tgt, bound, shift=0, dt=0):
    """None when the target timeline equals the source timeline (notes as multisets per kind and column, start and end
    within bound(t); tempo points within bound, same value); else a short reason"""
    st = norm_tempo(src["tempo"])
    a = sorted((k, c + shift, t, t + ln) for (k, c, t, ln) in src["notes"])
    b = sorted((k, c, t - dt, t + ln - dt) for (k, c, t, ln) in tgt["notes"])
    if len(a) != len(b):
        return f"note count {len(a)} -> {len(b)}"
    used = [False] * len(b)
    for x in a:
        ok = False
        for j, y in enumerate(b):
            if not used[j] and x[0] == y[0] and x[1] == y[1] and abs(x[2] - y[2]) <= bound(x[2]) and abs(x[3] - y[3]) <= bound(x[3]):
                used[j] = ok = True
                break
        if not ok:
            return f"note {x[0]}/{x[1]} at {float(x[2]):.4f} unmatched"
    tt = norm_tempo([(t - dt, v) for (t, v) in tgt["tempo"]])
    if len(st) != len(tt):
        return f"tempo count {len(st)} -> {len(tt)}"
    for (t1, v1), (t2, v2) in zip(st, tt):
        if abs(t1 - t2) > bound(t1):
            return f"tempo point at {float(t1):.4f} moved to {float(t2):.4f}"
        if abs(v1 - v2) > Fr(1, 10 ** 9) * (1 + abs(v1)):
            return f"tempo value {float(v1)} -> {float(v2)}"
    return None


def bound_for(case, src_tl):
    st = norm_tempo(src_tl["tempo"])
    a, b = case["src"], case["tgt"]
    return lambda t: max(res_of(a, st, t), res_of(b, st, t)) + TOL


# ====================================================================================== generator
def _sjis_ok(s):
    try:
        return s.encode("shift_jis").decode("shift_jis") == s
    except Exception:
        return False


def _keys_for(rng, a, b):
    """a key count both games support"""
    if a == "o2j":
        return 7
    if a == "qua" or b == "qua":
        return rng.choice([4, 7]) if (a == "sm" or b == "sm" or rng.random() < 0.8) else 8
    if a == "sm" or b == "sm":
        return rng.choice([4, 7, 4, 7, 6, 8, 3])
    return rng.choice([4, 7, 4, 7, 5, 9, 1, 10])                      # osu <-> bms


def gen_case(rng, a, b, **kw):
    exact = kw.get("exact", rng.random() < 0.45)
    keys = kw.get("keys") or _keys_for(rng, a, b)
    case = {"src": a, "tgt": b, "keys": keys}
    t0_zero = kw.get("t0_zero", a in ("bms", "o2j") or (b == "bms" and rng.random() < 0.85) or (b == "sm" and rng.random() < 0.5))
    opts = dict(exact=exact, t0_zero=t0_zero, tempo_style=kw.get("tempo_style"), grid=kw.get("grid"),
                full_cols=kw.get("full_cols", rng.random() < 0.93), bpm3=kw.get("bpm3", rng.random() < 0.9))
    ab = gen_abstract(rng, keys, **opts)
    if a == "osu":
        case["file"], tl = render_osu(rng, ab, mode=kw.get("mode") or rng.choice(["int", "int", "int", "frac", "exact"]))
        tls = [tl]
    elif a == "qua":
        case["file"], tl = render_qua(rng, ab)
        tls = [tl]
    elif a == "sm":
        ab2 = None
        if rng.random() < 0.3:
            ab2 = gen_abstract(rng, keys, **opts)
            ab2["tempo"], ab2["t0"] = ab["tempo"], ab["t0"]
        case["file"], tls = render_sm(rng, ab, ab2=ab2, stops=kw.get("stops", True), extra_kinds=kw.get("extra_kinds", True))
    elif a == "bms":
        ln = kw.get("src_layout") or rng.choice([l for l in LAYOUTS if LAYOUT_KEYS[l] >= keys])
        case["src_layout"] = ln
        case["file"], tl = render_bms(rng, ab, ln, sample_style=kw.get("sample_style") or rng.choice(["ascii", "ascii", "none", "sjis"]))
        tls = [tl]
    else:
        abs3 = [ab] + [gen_abstract(rng, 7, **opts) for _ in range(2)]
        case["file"], tls = render_o2j(rng, abs3)
    case["shift"] = 0
    if b == "bms":
        case["shift"] = 1 if a == "o2j" else (kw.get("shift") if kw.get("shift") is not None else rng.choice([0, 0, 0, 1]))
        if a == "sm":
            case["shift"] = 0
        need = keys + case["shift"]
        case["tgt_layout"] = kw.get("tgt_layout") or rng.choice([l for l in LAYOUTS if LAYOUT_KEYS[l] >= need])
    case["tls"] = [_tl_json(t) for t in tls]
    case["feat"] = {"style": ab["style"], "grid": ab["grid"], "t0": _jfr(ab["t0"]), "exact": exact}
    return case


def generate(rng, tier):
    per = 14 if tier == "quick" else 400
    cases = []
    for (a, b) in PAIRS:
        for _ in range(per):
            cases.append(gen_case(rng, a, b))
    return cases
