"""C09: read -> convert -> write.  A case = a SOURCE FILE in one of the five formats (inside the domain of C01 / C02 / C04 /
C06 / C07) + a target game the library can write (+ the BMS layout / column shift when the target is BMS).  The real pipeline
B.write(AToB.convert(A.read(file))) is run, every written target (one per StepMania chart / O2Jam difficulty) becomes one Coq
term, and INSIDE COQ the reference interpreters of both formats (written by the C01..C07 engineers, independent of reamber's
readers) decide: the target text is well-formed in B and its timeline (notes kind/column/time/length + tempo points) equals
the source file's timeline to within the coarser of the two formats' resolutions (Formats/Timeline.v, Corr/RunC09.v).

Source files come from one structured generator (`gen_abstract`: a small musical chart on a beat grid: 1..3 tempo points,
<= 9 notes) rendered into each format's dialect, plus files drawn from the other properties' own generators (c01 / c02 / c04 /
c06 / c07) whenever the target is a millisecond format (those accept any timeline)."""
from fractions import Fraction as Fr
import copy
import math
import struct

from .. import coqfmt as F

ID = "C09"
RUNNER = "Corr.RunC09"
CASE_TYPE = "c09case"
RUNNER_TARGETS = ["Corr/RunC09.vo"]
PROOF_TARGETS = ["Props/C09.vo"]
PROPS_FILE = "Props/C09.v"
PROPS_MODULE = "Props.C09"

RULE = ("seeded generator of SOURCE FILES: a small musical chart on a beat grid (1..3 tempo points on measure lines / beats / half / "
        "quarter / eighth beats, bpm from a float-exact family or arbitrary decimals, first tempo point at 0 ms or not, <= 9 hits and "
        "long notes on grids 1/1..1/48 incl. triplets / fifths, an object exactly at beat 0, every key count the target game has) "
        "rendered into each of the five formats' dialects (osu: integer / fractional / exact times, scroll velocities; Quaver: "
        "integer times, scroll velocities; StepMania: 1..2 charts sharing the tempo list, rolls / mines / lifts / fakes / keysounds "
        "besides the taps and holds; BMS: each of the five layouts, channel 03 and 08 tempo objects, header tempo replaced at 0/0, "
        "LNOBJ long notes, #WAV tables; O2Jam: three difficulties, header tempo alone or a tempo event at position 0) x each of the 16 "
        "source->target pairs (BMS targets: a random layout holding the key count, column shift 0/1; O2JToBMS with its default shift); "
        "per pair 10 plain cases + 2 per directed scenario (t0, sv_early, offline, topcol, cs, nohdr, sjis_wav, ev0, eighth, "
        "bpm4, pad, nostops, empty) + files from the generators of C01 / C06 / C07 for millisecond targets; the committed corpus (one minimal "
        "file per known finding) runs first; one Coq term per written target (StepMania chart / O2Jam difficulty); non-trivial: the "
        "source chart has at least one note; distinct by hash of the case")
ASSUMPTIONS = [
    "corr is the composition of the DENOTATIONS (source denotation -> what the target writer's rounding rule does to each time -> "
    "target denotation), not of the reader / cast / writer models; only O2Jam -> Quaver is composed from the models, in the theorem",
    "resolutions: osu / Quaver 1 ms; StepMania 1/96 beat; BMS 1/192 beat; O2Jam 0; beat resolutions in ms = beat length of the tempo "
    "point in force at the SOURCE time t (largest of t, t +- one 1/96-beat step); the bound of a pair is the larger of the two + 1e-6 ms",
    "the common timeline = taps and long notes (kind, column, start, end) + tempo points (time, bpm; of several at one time the last "
    "counts); scroll velocities, key sounds, samples, metadata and StepMania's rolls / mines / lifts / fakes / keysounds are outside it "
    "(SMTo* drops the latter silently)",
    "composition domain (conv_ok, evaluated in Coq): key count the target game has, columns inside it (BMS: lanes of the layout), "
    "objects of one column and tempo points further apart than twice the resolution, long notes longer than that on a grid format, "
    "grid targets: positive tempo, nothing before the first tempo point, BMS: first tempo point at 0 ms (the format has no offset: "
    "reamber then shifts the whole chart, stated as a domain guard as in C05); generator invariants not re-checked in Coq: "
    "BMS measures < 1000, metadata encodable in shift_jis for BMS targets, no zero SV multiplier for osu targets",
    "well-formed BMS target = DESIGN B.4's written form (valid lines, one object per measure/channel/position, denotes), not C04's "
    "reader dialect (which forbids empty header values)",
    "Quaver files cross the boundary as YAML trees (PyYAML is C06's oracle); OJN files as the abstract file whose bytes are "
    "c07.build_bytes (C07 checks bytes = encode_file on every one of its cases)",
    "binary64: source times are exact rationals of the FILE; int() of a float within 1e-6 of an integer may land on either side "
    "(trunc_ok); tempo values compared to 1e-6 bpm",
]
TRUSTED = ["the reference interpreters of C01 / C02 / C04 / C06 / C07 (osu_denote, sm_denote, bms_denote, qua_denote, ojn_denote) as the "
           "meaning of a file", "PyYAML (tree level), python struct (OJN bytes)",
           "harness/props/c09.py diagnose(): decides which failing cases are listed findings (a failure is 'known' only when the "
           "timelines agree once the listed cause is compensated)"]
MANIFEST = dict(
    text="End-to-end check of the documented pipeline B.write(AToB.convert(A.read(file))) for all 16 converters: generated source "
         "FILES of the five formats (inside the domains of C01/C02/C04/C06/C07) are run through the real code and the two files are "
         "judged inside Coq by the formats' reference interpreters (independent of reamber's readers): the written file is "
         "well-formed in the target format and its timeline (notes: kind, column, start, end; tempo points) equals the source "
         "file's to within the coarser of the two formats' resolutions at the local tempo (Formats/Timeline.v, Corr/RunC09.v); a "
         "sharper correspondence relation (truncation toward zero / nearest snap, composed from the denotations) catches changes "
         "that stay inside the resolution. Proved for all inputs (Props/C09.v, 66 closed theorems): the comparison is reflexive, "
         "symmetric, triangular, monotone, order- and shift-invariant and the runner's oracle is sound for it; every adapter maps "
         "the format's own 'same denotation' to 'same timeline'; and END-TO-END theorems for all 16 pairs by composing the "
         "whole-file reader theorem of the source (C01/C06/C02/C04/C07), the GENERATED converter description (C08's conv_chart over "
         "Tables.convert, re-translated from the converters' source on every run) applied to every frame-level chart carrying the "
         "rows read, and the whole-file writer theorem of the target (C06/C01/C03/C05): the written file is well formed and "
         "timeline_close to the source file (1 ms to Quaver / osu!, exact inside C03's exact domain, to BMS inside C05's write_dom "
         "within 1/192 beat at the local tempo by C05_bms_write_timeline and exact on the snap grid), the converted chart's "
         "membership in the writer's domain proved for Quaver targets and a decidable hypothesis otherwise. All 16 pairs are full: "
         "ten (osu / Quaver / O2Jam sources) with no further hypothesis, the six StepMania / BMS-source pairs under a decidable guard "
         "on the TEXT, every tempo change on a measure line (sm_tempo_on_lines / bms_tempo_on_lines, where "
         "C02_sm_read_tempo_list_on_lines / C04_bms_read_tempo_list_on_lines determine the chart's tempo list); tempo changes off "
         "the measure lines are outside on purpose, that is the open finding tempo-reseated; the general per-chart forms (chart's "
         "tempo list equals the file's: sm_tempo_same / bms_tempo_same) stay under their _partial names; the metadata path is "
         "not composed. "
         "The check found ten defect "
         "classes of the pinned tree (27 pair:cause keys, each with a minimal file in corpus/C09). Six are repaired in /repo and "
         "recorded as 'fixed' (a recurrence raises a VIOLATION labelled regression:<key>; reverting any of the commits makes the "
         "check fire): StepMania #OFFSET not the first timing point (OsuToSM, QuaToSM: cdbdcdf), SMToOsu CircleSize (24f5d51), key "
         "count taken from the largest used column in OsuToSM / QuaToSM / O2JToSM (5e5686a), two-decimal #BPMS beats (6b5cf38), BMS "
         "header (31e60b2) and sample-name (d05f0bf) crashes; three of them are _refuted theorems about the OLD written files with "
         "_current twins on what the repaired tree writes. Five remain known findings: reseated tempo lists of StepMania / BMS "
         "sources, the key count of BMS sources (no key-count attribute), duplicate O2Jam tempo at 0 in BMS, ':.3f' BMS tempos, and (found by the "
         "thorough tier) StepMania rows floored in measures capped at 384 rows after a tempo point that is not on a 1/96-beat row.",
    note="Trusted: Coq kernel+VM, the reference interpreters of the component properties, generator / serialiser / diagnose() of "
         "harness/props/c09.py, PyYAML and struct. corr is a composition of denotations, not of the component models (except in the "
         "O2Jam -> Quaver theorem). Known findings (15 keys) are listed per pair in findings/C09.json and keep being generated; any other "
         "violation, including a recurrence of a fixed one, raises. Not covered: scroll velocities and metadata through the pipeline (C08 checks the wiring), rolls / mines "
         "dropped by SMTo*, BMS charts whose first tempo point is not at 0 ms (shifted by the writer; treated as outside the format).",
    technique="Coq proof (composition of C06/C07/C08 theorems) + reference interpreters evaluated by vm_compute on the implementation's files",
    design="4/C09, B")

SOURCES = ["osu", "qua", "sm", "bms", "o2j"]
TARGETS = ["osu", "qua", "sm", "bms"]
PAIRS = [(a, b) for a in SOURCES for b in TARGETS if a != b]          # the 16 converters
CONVERTER = {("osu", "qua"): "OsuToQua", ("osu", "sm"): "OsuToSM", ("osu", "bms"): "OsuToBMS",
             ("qua", "osu"): "QuaToOsu", ("qua", "sm"): "QuaToSM", ("qua", "bms"): "QuaToBMS",
             ("sm", "osu"): "SMToOsu", ("sm", "qua"): "SMToQua", ("sm", "bms"): "SMToBMS",
             ("bms", "osu"): "BMSToOsu", ("bms", "qua"): "BMSToQua", ("bms", "sm"): "BMSToSM",
             ("o2j", "osu"): "O2JToOsu", ("o2j", "qua"): "O2JToQua", ("o2j", "sm"): "O2JToSM", ("o2j", "bms"): "O2JToBMS"}
LAYOUTS = ["BMS", "BME", "PMS", "PMS_BME", "PMS_5B"]
LAYOUT_KEYS = {"BMS": 14, "BME": 16, "PMS": 9, "PMS_BME": 18, "PMS_5B": 5}
SM_TYPES = {4: "dance-single", 8: "dance-double", 6: "dance-solo", 3: "dance-threepanel", 7: "kb7-single"}
SM_EXTRA_TYPES = {"dance-couple": 4, "dance-routine": 8}
QUA_KEYS = [4, 7, 8]

# 60000/bpm exact in binary64 with a short mantissa
EXACT_BPMS = [60, 75, 93.75, 100, 120, 125, 150, 160, 187.5, 200, 240, 250, 300, 375, 400, 480]
ROUND_BPMS = ["133.33", "175.083", "87.5", "222.22", "99.999", "140", "180", "174", "128.5", "90.125", "200.001"]
LONG_BPMS = ["133.3333", "175.08333", "120.00049"]           # more than three decimals (BMS ':.3f' finding)
WORDS = ["", "Alpha", "Re Zero", "xi", "Camellia feat Nanahira", "Hard", "Insane 7K", "mapper_01", "A B C", "竹", "Ünï"]


# ====================================================================================== abstract chart
def time_of(t0, tempo, beat):
    """ms of a beat position: piecewise-linear integration over the tempo script (beat, bpm), sorted, first at beat 0"""
    t, b0, bpm = Fr(t0), Fr(0), tempo[0][1]
    for (b1, v1) in tempo[1:]:
        if b1 <= beat:
            t += (b1 - b0) * Fr(60000) / bpm
            b0, bpm = b1, v1
        else:
            break
    return t + (beat - b0) * Fr(60000) / bpm


def gen_abstract(rng, keys, **kw):
    """see _gen_abstract; re-drawn until the tempo points are further apart than four 1/96-beat steps of the slowest tempo"""
    for _ in range(50):
        ab = _gen_abstract(rng, keys, **kw)
        tp = [(time_of(ab["t0"], ab["tempo"], b), v) for b, v in ab["tempo"]]
        slow = max(Fr(60000) / v for _, v in tp)
        if all(t2 - t1 > 4 * slow / 96 for (t1, _), (t2, _) in zip(tp, tp[1:])):
            return ab
    return ab


def _gen_abstract(rng, keys, *, exact=False, t0_zero=False, tempo_style=None, grid=None, full_cols=True, max_notes=None,
                  int_bpm=False, bpm3=True, long_bpm=False, start_beat=0, t0_nonzero=False, big_ratio=False):
    """A small musical chart: tempo script in beats (first change at beat 0, which sounds at t0 ms), notes on a beat grid.
    Per column the notes are laid out along a cursor, so long notes of a column never overlap and no two objects share a
    position.  full_cols: the last column is used (converters derive the key count from the largest column used)."""
    style = tempo_style or rng.choice(["one", "one", "lines", "lines", "beats", "half", "quarter", "eighth"])
    n_t = 1 if style == "one" else rng.choice([2, 2, 3])

    def bpm():
        if int_bpm:
            return Fr(rng.choice([60, 90, 100, 120, 128, 150, 160, 180, 200, 240, 255, 75]))
        if exact:
            return Fr(rng.choice(EXACT_BPMS))
        r = rng.random()
        if r < 0.5:
            return Fr(rng.choice(EXACT_BPMS))
        if long_bpm:
            return Fr(rng.choice(LONG_BPMS))
        return Fr(rng.choice(ROUND_BPMS))
    tempo = [(Fr(0), bpm())]
    for _ in range(n_t - 1):
        step = {"lines": Fr(4) * rng.choice([1, 1, 2, 3]), "beats": Fr(rng.choice([1, 2, 3, 5, 6])),
                "half": Fr(rng.choice([1, 3, 5, 9]), 2), "quarter": Fr(rng.choice([1, 3, 5, 7, 9]), 4),
                "eighth": Fr(rng.choice([1, 3, 5, 9, 11]), 8)}[style]
        v = bpm()
        while v == tempo[-1][1]:
            v = bpm() if not int_bpm else tempo[-1][1] + 30
        tempo.append((tempo[-1][0] + step, v))
    if big_ratio:                                                      # a large tempo ratio at an x.125 beat
        tempo = [(Fr(0), Fr(60)), (tempo[1][0], Fr(240))] + [(b, Fr(240) + 60 * i) for i, (b, _) in enumerate(tempo[2:], 1)]
    if t0_zero:
        t0 = Fr(0)
    elif t0_nonzero:
        t0 = Fr(rng.choice([500, 1000, 37, 1250, 2000, 333, -250, 64]))
    else:
        t0 = Fr(rng.choice([0, 0, 500, 1000, 37, 1250, 2000, 333, -250, 64]))
        if not exact and rng.random() < 0.2:
            t0 = Fr(rng.randint(-400, 3000))
    g = grid or rng.choice([1, 2, 2, 4, 4, 4, 3, 8, 12, 16, 6, 5, 24, 48])
    last_beat = tempo[-1][0] + rng.choice([4, 8, 8, 12])
    cols = list(range(keys))
    use = rng.sample(cols, min(keys, rng.choice([1, 2, 3, 4, 7])))
    if full_cols:
        use = [keys - 1] + [c for c in use if c != keys - 1][:max(0, len(use) - 1)]
    budget = max_notes or rng.choice([2, 4, 6, 9])
    per_col = budget // len(use) + 1
    notes = []
    for c in use:
        cur = Fr(rng.randrange(0, 4 * g), g) + start_beat
        mine = 0
        while cur < last_beat + start_beat and len(notes) < budget and mine < per_col:
            mine += 1
            if rng.random() < 0.3:
                ln = Fr(rng.randint(1, 3 * g), g) if g > 1 else Fr(rng.randint(1, 3))
                ln = max(ln, Fr(1, 4))
                notes.append([c, cur, ln])
                cur += ln
            else:
                notes.append([c, cur, None])
            cur += max(Fr(rng.randint(1, 4 * g), g), Fr(1, 4))
    if notes and rng.random() < 0.35 and not start_beat:                 # an object exactly at beat 0
        notes[0][1] = Fr(0)
        c0 = notes[0][0]
        others = [n for n in notes[1:] if n[0] == c0]
        end0 = notes[0][2] or Fr(0)
        notes = [notes[0]] + [n for n in notes[1:] if not (n[0] == c0 and n[1] <= end0 + Fr(1, 4))]
    notes.sort(key=lambda n: (n[1], n[0]))
    return {"keys": keys, "t0": t0, "tempo": tempo, "notes": [tuple(n) for n in notes], "grid": g, "style": style,
            "exact": exact}


def _jit(rng, t, mode):
    """millisecond formats: the time actually stored in the file"""
    if mode == "int":
        return Fr(math.floor(t + Fr(1, 2)))
    if mode == "frac":
        return Fr(math.floor(t * 8 + Fr(1, 2)), 8)
    return Fr(t)


def dec(x, places=None):
    """decimal text of a rational: exact when finite, else rounded to `places` (default 12 significant) digits"""
    x = Fr(x)
    d = x.denominator
    while d % 2 == 0:
        d //= 2
    while d % 5 == 0:
        d //= 5
    if d == 1 and places is None:
        k = 0
        while (x * 10 ** k).denominator != 1:
            k += 1
        n = int(x * 10 ** k)
        s = "-" if n < 0 else ""
        n = abs(n)
        ip, fp = divmod(n, 10 ** k)
        return f"{s}{ip}" + (f".{fp:0{k}d}" if k else "")
    return f"{float(x):.{places if places is not None else 9}f}"


def _pd(s):
    """exact value of a decimal text (what the reference interpreters' parse_dec gives)"""
    return Fr(s)


# ====================================================================================== renderers (file + exact timeline)
# a timeline is {"notes": [(kind, col, t, len)], "tempo": [(t, bpm)]} with Fractions; kind 0 = hit, 1 = hold
def render_osu(rng, ab, mode="int", extras=True):
    k = ab["keys"]
    lines = ["osu file format v14", "", "[General]", f"AudioFilename: {rng.choice(['audio.mp3', 'a b.ogg', ''])}",
             f"PreviewTime: {rng.choice([-1, 0, 12345])}", "Mode: 3", "", "[Metadata]",
             f"Title:{rng.choice(WORDS)}", f"TitleUnicode:{rng.choice(WORDS)}", f"Artist:{rng.choice(WORDS)}",
             f"Creator:{rng.choice(WORDS)}", f"Version:{rng.choice(WORDS)}", "", "[Difficulty]", f"CircleSize:{k}",
             "OverallDifficulty:8", "", "[Events]", "//Background and Video events",
             f'0,0,"{rng.choice(["bg.png", "b g.jpg", ""])}",0,0', "", "[TimingPoints]"]
    tl = {"notes": [], "tempo": []}
    svs = []
    for (b, v) in ab["tempo"]:
        t = _jit(rng, time_of(ab["t0"], ab["tempo"], b), mode)
        bl = dec(Fr(60000) / v, None if ab["exact"] else 12)
        lines.append(f"{dec(t)},{bl},{rng.choice([4, 4, 4, 3, 5, 7, 1])},0,0,{rng.randint(0, 100)},1,{rng.choice([0, 0, 1])}")
        tl["tempo"].append((_pd(dec(t)), Fr(60000) / _pd(bl)))
        if extras and rng.random() < 0.3:
            st = t + rng.choice([0, 250, -100])
            svs.append(f"{dec(st)},{rng.choice(['-100', '-50', '-200', '-80'])},4,0,0,50,0,0")
    lines += svs
    lines += ["", "", "[HitObjects]"]
    for (c, b, ln) in ab["notes"]:
        t = _jit(rng, time_of(ab["t0"], ab["tempo"], b), mode)
        x = (512 * c + 256) // k
        if ln is None:
            lines.append(f"{x},192,{dec(t)},1,0,0:0:0:0:")
            tl["notes"].append((0, c, _pd(dec(t)), Fr(0)))
        else:
            e = _jit(rng, time_of(ab["t0"], ab["tempo"], b + ln), mode)
            lines.append(f"{x},192,{dec(t)},128,0,{dec(e)}:0:0:0:0:")
            tl["notes"].append((1, c, _pd(dec(t)), _pd(dec(e)) - _pd(dec(t))))
    return lines, tl


def render_qua(rng, ab, extras=True, sv_early=False):
    k = ab["keys"]
    doc = {"AudioFile": rng.choice(["audio.mp3", "a b.ogg"]), "Mode": f"Keys{k}", "Title": rng.choice(WORDS),
           "Artist": rng.choice(WORDS), "Creator": rng.choice(WORDS), "DifficultyName": rng.choice(WORDS),
           "BackgroundFile": rng.choice(["bg.png", ""]), "SongPreviewTime": rng.choice([0, 12345])}
    tl = {"notes": [], "tempo": []}
    tps, hos, svs = [], [], []
    for (b, v) in ab["tempo"]:
        t = int(_jit(rng, time_of(ab["t0"], ab["tempo"], b), "int"))
        vv = float(v) if v.denominator != 1 or rng.random() < 0.5 else int(v)
        tps.append({"StartTime": t, "Bpm": vv})
        tl["tempo"].append((Fr(t), Fr(vv)))
        if extras and rng.random() < 0.3:
            svs.append({"StartTime": t + rng.choice([0, 250, -100, -1]), "Multiplier": rng.choice([0.5, 2.0, 1.25])})
    if sv_early:
        svs.insert(0, {"StartTime": tps[0]["StartTime"] - rng.choice([100, 1, 7, 2500]), "Multiplier": 1.5})
    for (c, b, ln) in ab["notes"]:
        t = int(_jit(rng, time_of(ab["t0"], ab["tempo"], b), "int"))
        rec = {"StartTime": t, "Lane": c + 1, "KeySounds": []}
        if ln is not None:
            e = int(_jit(rng, time_of(ab["t0"], ab["tempo"], b + ln), "int"))
            rec["EndTime"] = e
            tl["notes"].append((1, c, Fr(t), Fr(e - t)))
        else:
            tl["notes"].append((0, c, Fr(t), Fr(0)))
        hos.append(rec)
    doc["TimingPoints"] = tps
    doc["SliderVelocities"] = svs
    doc["HitObjects"] = hos
    return doc, tl


def _sm_rows(ab, keys, extra_kinds, rng):
    """measures of row strings; every measure uses the smallest multiple-of-4 row count that holds its objects"""
    ev = {}                                                   # beat -> {col: char}

    def put(b, c, ch):
        ev.setdefault(b, {})[c] = ch
    for (c, b, ln) in ab["notes"]:
        if ln is None:
            put(b, c, "1")
        else:
            put(b, c, "2")
            put(b + ln, c, "3")
    extras = []
    if extra_kinds and ab["notes"]:
        # StepMania-only objects (mine / lift / fake / keysound, and one roll) in free cells
        last = max(b + (ln or 0) for (_, b, ln) in ab["notes"])
        busy = {}
        for (c, b, ln) in ab["notes"]:
            busy.setdefault(c, []).append((b, b + (ln or 0)))
        for _ in range(rng.choice([0, 1, 2])):
            c = rng.randrange(keys)
            b = Fr(rng.randrange(0, int(last) * 4 + 4), 4)
            if all(not (s <= b <= e) for s, e in busy.get(c, [])) and c not in ev.get(b, {}):
                ch = rng.choice("MLFK")
                put(b, c, ch)
                extras.append((ch, c, b))
        if rng.random() < 0.4:
            c = rng.randrange(keys)
            b = last + 1
            put(b, c, "4")
            put(b + 2, c, "3")
            extras.append(("roll", c, b))
    if not ev:
        return [["0" * keys] * 4], extras
    n_meas = int(max(ev) // 4) + 1
    out = []
    for m in range(n_meas):
        here = {b - 4 * m: cs for b, cs in ev.items() if 4 * m <= b < 4 * m + 4}
        n = 4
        for b in here:
            d = (b / 4).denominator
            n = n * d // math.gcd(n, d)
        while n % 4:
            n *= 2
        rows = [["0"] * keys for _ in range(n)]
        for b, cs in here.items():
            r = b / 4 * n
            assert r.denominator == 1
            for c, ch in cs.items():
                rows[int(r)][c] = ch
        out.append(["".join(r) for r in rows])
    return out, extras


def render_sm(rng, ab, n_charts=1, extra_kinds=True, stops=True, ab2=None):
    k = ab["keys"]
    ty = SM_TYPES[k] if rng.random() < 0.85 or k not in (4, 8) else {4: "dance-couple", 8: "dance-routine"}[k]
    lines = []
    for tag in ["TITLE", "ARTIST", "CREDIT", "MUSIC", "BACKGROUND", "TITLETRANSLIT"]:
        if rng.random() < 0.7:
            lines.append(f"#{tag}:{rng.choice(WORDS)};")
    off = -ab["t0"] / 1000
    lines.append(f"#OFFSET:{dec(off)};")
    pairs = [f"{dec(b, 3) if b.denominator in (1, 2, 4, 8) else dec(b)}={dec(v, 3) if rng.random() < 0.5 else dec(v)}"
             for (b, v) in ab["tempo"]]
    lines.append("#BPMS:" + rng.choice([",", ",\n"]).join(pairs) + ";")
    if stops:
        lines.append("#STOPS:;")
    lines.append(f"#SAMPLESTART:{rng.choice(['0.000', '12.5'])};")
    if rng.random() < 0.5:
        lines.append("#SELECTABLE:YES;")
    tempo = [(_pd(p.split("=")[0]), _pd(p.split("=")[1])) for p in pairs]
    t0 = -_pd(dec(off)) * 1000
    tls = []
    charts = [ab] + ([ab2] if ab2 is not None else [])
    for ci, a in enumerate(charts):
        rows, _ = _sm_rows(a, k, extra_kinds, rng)
        lines.append(f"//--------------- {ty} - ----------------")
        lines.append("#NOTES:")
        lines += [f"     {ty}:", f"     {rng.choice(['', 'desc', 'K. Ward'])}:", f"     {rng.choice(['Easy', 'Hard', 'Challenge'])}:",
                  f"     {rng.choice([1, 9, 14])}:", "     0.5,0.5,0.5,0.5,0.5:"]
        for i, m in enumerate(rows):
            if i:
                lines.append(",")
            lines += m
        lines.append(";")
        tl = {"notes": [], "tempo": [(time_of(t0, tempo, b), v) for (b, v) in tempo]}
        for (c, b, ln) in a["notes"]:
            t = time_of(t0, tempo, b)
            if ln is None:
                tl["notes"].append((0, c, t, Fr(0)))
            else:
                tl["notes"].append((1, c, t, time_of(t0, tempo, b + ln) - t))
        tls.append(tl)
    return "\n".join(lines) + "\n", tls


B36 = "0123456789ABCDEFGHIJKLMNOPQRSTUVWXYZ"


def b36(n):
    return B36[n // 36] + B36[n % 36]


def _layout(name):
    from reamber.bms.BMSChannel import BMSChannel
    return getattr(BMSChannel, name)


def render_bms(rng, ab, lname, sample_style="ascii", headers="all"):
    """ab must have t0 = 0.  Tempo values: channel 03 for integers <= 255, else the #BPMxx table (channel 08)."""
    cfg = _layout(lname)
    chan = {v: k.decode() for k, v in cfg.items() if isinstance(v, int) and not isinstance(v, bool)}
    hdr = []
    drop = rng.choice(["TITLE", "ARTIST", "PLAYLEVEL"]) if headers == "drop" else None
    if drop != "TITLE":
        hdr.append("#TITLE " + rng.choice(["take", "a b  c", "竹", "x", "[7KEYS] #1: intro"]))
    if drop != "ARTIST":
        hdr.append("#ARTIST " + rng.choice(["x", "立秋", "A B"]))
    if drop != "PLAYLEVEL":
        hdr.append("#PLAYLEVEL " + str(rng.choice([0, 3, 12])))
    hdr.append("#LNOBJ ZZ")
    wavs = {"ascii": ["kick.wav", "snare 01.wav"], "none": [], "sjis": ["ドラム.wav", "kick.wav"]}[sample_style]
    ids = ["01", "02", "0A"]
    for i, w in enumerate(wavs):
        hdr.append(f"#WAV{ids[i]} {w}")
    per = {}
    ext = {}
    tempo_txt = []
    bpm0 = ab["tempo"][0][1]
    first_in_objects = rng.random() < 0.3
    hdr.append("#BPM " + dec(bpm0 if not first_in_objects else Fr(rng.choice([100, 130, 200]))))
    tempo_script = []
    for i, (b, v) in enumerate(ab["tempo"]):
        if i == 0 and not first_in_objects:
            tempo_script.append((b, _pd(dec(bpm0))))
            continue
        m, pos = int(b // 4), (b % 4) / 4
        if v.denominator == 1 and v <= 255 and rng.random() < 0.7:
            per.setdefault((m, "03"), []).append((pos, "%02X" % int(v)))
            tempo_script.append((b, v))
        else:
            key = b36(len(ext) + 1)
            ext[key] = dec(v)
            per.setdefault((m, "08"), []).append((pos, key))
            tempo_script.append((b, _pd(dec(v))))
    for kx, v in ext.items():
        hdr.append(f"#BPM{kx} {v}")
    note_ids = ids[:max(1, len(wavs))] + ["0Z"]
    for (c, b, ln) in ab["notes"]:
        m, pos = int(b // 4), (b % 4) / 4
        per.setdefault((m, chan[c]), []).append((pos, rng.choice(note_ids)))
        if ln is not None:
            e = b + ln
            per.setdefault((int(e // 4), chan[c]), []).append(((e % 4) / 4, "ZZ"))
    data = []
    for (m, ch) in sorted(per):
        L = 1
        for p, _ in per[(m, ch)]:
            L = L * p.denominator // math.gcd(L, p.denominator)
        L *= rng.choice([1, 1, 2, 4]) if L <= 48 else 1
        seq = ["00"] * L
        for p, ident in per[(m, ch)]:
            seq[int(p * L)] = ident
        data.append(f"#{m:03d}{ch}:" + "".join(seq))
    if rng.random() < 0.3:
        rng.shuffle(data)
    lines = hdr + [""] + data
    tl = {"notes": [], "tempo": [(time_of(0, tempo_script, b), v) for (b, v) in tempo_script]}
    for (c, b, ln) in ab["notes"]:
        t = time_of(0, tempo_script, b)
        if ln is None:
            tl["notes"].append((0, c, t, Fr(0)))
        else:
            tl["notes"].append((1, c, t, time_of(0, tempo_script, b + ln) - t))
    return lines, tl


def _f32(x):
    return struct.unpack("<f", struct.pack("<f", float(x)))[0]


def _bits(v):
    return struct.unpack("<I", struct.pack("<f", v))[0]


def render_o2j(rng, abs3, first="mixed"):
    """abs3: three abstract charts (7 keys, t0 = 0), one per difficulty; they share the header tempo (= their first tempo)"""
    hb = _f32(abs3[0]["tempo"][0][1])
    hdr = {"song_id": rng.choice([0, 1, 300]), "signature": [111, 106, 110], "encode_version": _bits(_f32(2.9)), "genre": 2,
           "bpm": _bits(hb), "level": [rng.choice([1, 5, 12]) for _ in range(3)] + [0],
           "event_count": [0, 0, 0], "note_count": [0, 0, 0], "measure_count": [0, 0, 0],
           "old_encode_version": 29, "old_song_id": 1, "old_genre": [], "bmp_size": 0, "old_file_version": 0,
           "title": [ord(c) for c in rng.choice(["", "Alpha", "Re Zero", "A B C"])],
           "artist": [ord(c) for c in rng.choice(["", "xi", "Camellia"])],
           "noter": [ord(c) for c in rng.choice(["", "mapper_01"])], "ojm_file": [ord(c) for c in "o2ma100.ojm"],
           "cover_size": 0, "time": [60, 60, 60], "note_offset": [300, 300, 300], "cover_offset": 0}
    levels, tls = [], []
    for ab in abs3:
        pk = []
        script = [(Fr(0), Fr(hb))]
        groups = {}
        r0 = {"mixed": rng.random() * 0.85, "header": 0.0, "event": 0.9}[first]
        #                                                        first tempo of the difficulty: the header tempo alone (typical),
        for i, (b, v) in enumerate(ab["tempo"]):               # a tempo event at position 0 repeating it, or one replacing it
            fv = Fr(_f32(v))
            if i == 0:
                if r0 < 0.55:
                    continue
                if r0 < 0.85:
                    fv = Fr(hb)
                script = []
            m, pos = int(b // 4), (b % 4) / 4
            groups.setdefault((m, 1), []).append((pos, list(struct.pack("<f", float(fv)))))
            script.append((b, fv))
        for (c, b, ln) in ab["notes"]:
            m, pos = int(b // 4), (b % 4) / 4
            vol_pan = rng.choice([0, 0x08, 0xF0])
            if ln is None:
                groups.setdefault((m, c + 2), []).append((pos, list(struct.pack("<hBB", rng.choice([1, 2, 300]), vol_pan, 0))))
            else:
                e = b + ln
                groups.setdefault((m, c + 2), []).append((pos, list(struct.pack("<hBB", 1, vol_pan, 2))))
                groups.setdefault((int(e // 4), c + 2), []).append(((e % 4) / 4, list(struct.pack("<hBB", 1, vol_pan, 3))))
        for (m, ch) in sorted(groups):
            L = 1
            for p, _ in groups[(m, ch)]:
                L = L * p.denominator // math.gcd(L, p.denominator)
            L *= rng.choice([1, 1, 2, 4]) if L <= 48 else 1
            pk.append({"m": m, "ch": ch, "n": L, "ev": sorted([[int(p * L), bs] for p, bs in groups[(m, ch)]])})
        if rng.random() < 0.3:
            pk.append({"m": rng.randint(0, 2), "ch": rng.randint(9, 22), "n": 2, "ev": [[1, list(struct.pack("<hBB", 5, 0, 0))]]})
        levels.append(pk)
        full = script if script[0][0] == 0 else [(Fr(0), Fr(hb))] + script
        tl = {"notes": [], "tempo": [(time_of(0, full, b), v) for (b, v) in full]}
        for (c, b, ln) in ab["notes"]:
            t = time_of(0, full, b)
            if ln is None:
                tl["notes"].append((0, c, t, Fr(0)))
            else:
                tl["notes"].append((1, c, t, time_of(0, full, b + ln) - t))
        tls.append(tl)
    return {"hdr": hdr, "levels": levels, "trail": []}, tls


# ====================================================================================== the real pipeline
EXPECTED = (ValueError, KeyError, IndexError, TypeError, AttributeError, ZeroDivisionError, AssertionError, UnicodeError)


def _jfr(x):
    return F.frac_json(Fr(x))


def _tl_json(tl):
    return {"notes": [[k, c, _jfr(t), _jfr(ln)] for (k, c, t, ln) in tl["notes"]], "tempo": [[_jfr(t), _jfr(v)] for (t, v) in tl["tempo"]]}


def _tl_from(j):
    return {"notes": [(k, c, F.frac_from_json(t), F.frac_from_json(ln)) for k, c, t, ln in j["notes"]],
            "tempo": [(F.frac_from_json(t), F.frac_from_json(v)) for t, v in j["tempo"]]}


def read_source(case):
    kind = case["src"]
    if kind == "osu":
        from reamber.osu.OsuMap import OsuMap
        return OsuMap.read(list(case["file"]))
    if kind == "qua":
        import yaml
        from reamber.quaver.QuaMap import QuaMap
        return QuaMap.read(yaml.safe_dump(case["file"], default_flow_style=False, allow_unicode=True, sort_keys=False).split("\n"))
    if kind == "sm":
        from reamber.sm.SMMapSet import SMMapSet
        return SMMapSet.read(case["file"])
    if kind == "bms":
        from reamber.bms.BMSMap import BMSMap
        return BMSMap.read(list(case["file"]), _layout(case["src_layout"]))
    if kind == "o2j":
        from reamber.o2jam.O2JMapSet import O2JMapSet
        from . import c07
        return O2JMapSet.read(c07.build_bytes(case["file"]))
    raise ValueError(kind)


def write_target(case, m):
    """-> the written file in the JSON form the Coq side consumes"""
    tgt = case["tgt"]
    if tgt == "osu":
        return "\n".join(m.write()).split("\n")
    if tgt == "qua":
        import yaml
        from . import c06
        text = m.write()
        doc = yaml.safe_load(text)
        return c06.tj(doc)
    if tgt == "sm":
        return m.write()
    if tgt == "bms":
        b = m.write(note_channel_config=_layout(case["tgt_layout"]))
        return b.decode("shift_jis").split("\r\n")
    raise ValueError(tgt)


def execute(case):
    import reamber.algorithms.convert as conv
    cv = getattr(conv, CONVERTER[(case["src"], case["tgt"])])
    out = {"targets": None}
    try:
        m = read_source(case)
    except EXPECTED as e:
        out["exc"] = "read: " + type(e).__name__ + ": " + str(e)[:100]
        return out
    try:
        kw = {}
        if case["tgt"] == "bms" and case["src"] in ("osu", "qua") and case.get("shift"):
            kw["move_right_by"] = case["shift"]                 # O2JToBMS: the documented default (1) is what is expected
        res = cv.convert(m, **kw)
    except EXPECTED as e:
        out["exc"] = "convert: " + type(e).__name__ + ": " + str(e)[:100]
        return out
    charts = res if isinstance(res, list) else [res]
    targets = []
    for ch in charts:
        try:
            targets.append({"v": write_target(case, ch)})
        except EXPECTED as e:
            targets.append({"v": None, "exc": "write: " + type(e).__name__ + ": " + str(e)[:100]})
    out["targets"] = targets
    return out


# ====================================================================================== python reference readers of the TARGETS
# (independent of reamber's readers; used for py_oracle / classification; the verdict is Coq's)
def tl_osu(lines):
    ls = [l.strip() for l in lines]
    sec, keys = None, None
    tl = {"notes": [], "tempo": []}
    for l in ls:
        if l.startswith("[") and l.endswith("]"):
            sec = l
            continue
        if not l:
            continue
        if sec == "[Difficulty]" and l.startswith("CircleSize:"):
            keys = int(Fr(l.split(":", 1)[1].strip()))
        elif sec == "[TimingPoints]":
            f = [x.strip() for x in l.split(",")]
            if int(f[6]) == 1:
                tl["tempo"].append((Fr(f[0]), Fr(60000) / Fr(f[1])))
        elif sec == "[HitObjects]":
            f = [x.strip() for x in l.split(",")]
            x, t, ty = int(f[0]), Fr(f[2]), int(f[3])
            c = max(0, min(keys - 1, x * keys // 512))
            if ty & 128:
                e = Fr(f[5].split(":")[0])
                tl["notes"].append((1, c, t, e - t))
            else:
                tl["notes"].append((0, c, t, Fr(0)))
    return tl


def _num(t):
    if "i" in t:
        return Fr(t["i"])
    return F.frac_from_json(t["f"])


def tl_qua(tree):
    d = dict(tree["m"])
    tl = {"notes": [], "tempo": []}
    for r in d["HitObjects"]["l"]:
        r = dict(r["m"])
        t = _num(r["StartTime"]) if "StartTime" in r else Fr(0)
        c = (r["Lane"]["i"] if "Lane" in r else 1) - 1
        if "EndTime" in r:
            tl["notes"].append((1, c, t, _num(r["EndTime"]) - t))
        else:
            tl["notes"].append((0, c, t, Fr(0)))
    for r in d["TimingPoints"]["l"]:
        r = dict(r["m"])
        tl["tempo"].append((_num(r["StartTime"]) if "StartTime" in r else Fr(0), _num(r["Bpm"]) if "Bpm" in r else Fr(120)))
    return tl


def sm_parse(text):
    """-> (offset_ms, [(beat, bpm)] sorted, [(type, [measures of rows])]) or raises"""
    txt = "\n".join(l.split("//")[0] for l in text.split("\n"))
    pieces = txt.split(";")
    if pieces[-1].strip():
        raise ValueError("text after the last ';'")
    items = []
    for p in pieces[:-1]:
        p = p.strip()
        if not p.startswith("#") or ":" not in p:
            raise ValueError("not an item: " + p[:20])
        tag, val = p.split(":", 1)
        items.append((tag, val))
    fields = {t: v.strip() for t, v in items if t != "#NOTES"}
    off = Fr(fields["#OFFSET"])
    pairs = sorted(((Fr(a.strip().split("=")[0]), Fr(a.strip().split("=")[1])) for a in fields["#BPMS"].split(",")),
                   key=lambda x: x[0])
    charts = []
    for t, v in items:
        if t == "#NOTES":
            f = [x.strip() for x in v.split(":")]
            if len(f) != 6:
                raise ValueError("NOTES fields")
            meas = [[r.strip() for r in m.split("\n") if r.strip()] for m in (f[5].split(",") if f[5] else [])]
            charts.append((f[0], meas))
    return -off * 1000, pairs, charts


SM_KEYS = {"dance-single": 4, "dance-double": 8, "dance-solo": 6, "dance-couple": 4, "dance-threepanel": 3, "dance-routine": 8,
           "kb7-single": 7}


def tl_sm(text, k=0):
    t0, pairs, charts = sm_parse(text)
    if pairs[0][0] != 0:
        raise ValueError("first tempo change not at beat 0")
    ty, meas = charts[k]
    keys = SM_KEYS[ty]
    tl = {"notes": [], "tempo": [(time_of(t0, pairs, b), v) for b, v in pairs]}
    openh = {}
    for m, rows in enumerate(meas):
        n = len(rows)
        if n == 0:
            raise ValueError("empty measure")
        for r, row in enumerate(rows):
            if len(row) != keys:
                raise ValueError("row width")
            t = time_of(t0, pairs, Fr(4 * m) + Fr(4 * r, n))
            for c, ch in enumerate(row):
                if ch == "1":
                    tl["notes"].append((0, c, t, Fr(0)))
                elif ch in "24":
                    if c in openh:
                        raise ValueError("head while open")
                    openh[c] = (ch, t)
                elif ch == "3":
                    if c not in openh:
                        raise ValueError("tail without head")
                    h, t1 = openh.pop(c)
                    if h == "2":
                        tl["notes"].append((1, c, t1, t - t1))
                elif ch not in "0MLFK":
                    raise ValueError("symbol")
    if openh:
        raise ValueError("open head")
    return tl


def tl_bms(lines, lname):
    cfg = _layout(lname)
    lane = {k.decode(): v for k, v in cfg.items() if isinstance(v, int) and not isinstance(v, bool)}
    hdr, objs = {}, []
    for l in lines:
        if not l.startswith("#"):
            continue
        mm = None
        if len(l) >= 7 and l[1:4].isdigit() and l[6] == ":":
            m, ch, data = int(l[1:4]), l[4:6], l[7:]
            if len(data) % 2 or not data:
                raise ValueError("odd data")
            k = len(data) // 2
            for i in range(k):
                d = data[2 * i:2 * i + 2]
                if d != "00":
                    if any(o[0] == Fr(4 * m) + Fr(4 * i, k) and o[1] == ch for o in objs):
                        raise ValueError("two objects in one slot")
                    objs.append((Fr(4 * m) + Fr(4 * i, k), ch, d))
        else:
            sp = l[1:].split(" ", 1)
            if len(sp) == 2:
                hdr[sp[0]] = sp[1]
    ext = {k[3:]: Fr(v) for k, v in hdr.items() if k.startswith("BPM") and len(k) == 5}
    tempo = []
    for (b, ch, d) in objs:
        if ch == "03":
            tempo.append((b, Fr(int(d, 16))))
        elif ch == "08":
            tempo.append((b, ext[d]))
    tempo.sort(key=lambda x: x[0])
    if not tempo or tempo[0][0] != 0:
        tempo = [(Fr(0), Fr(hdr["BPM"]))] + tempo
    lnobj = hdr.get("LNOBJ", "")
    tl = {"notes": [], "tempo": [(time_of(0, tempo, b), v) for b, v in tempo]}
    for ch, col in lane.items():
        mine = sorted([(b, d) for (b, c2, d) in objs if c2 == ch], key=lambda x: x[0])
        prev = None
        for (b, d) in mine:
            if d == lnobj:
                if prev is None:
                    raise ValueError("tail without head")
                t1 = time_of(0, tempo, prev)
                tl["notes"].append((1, col, t1, time_of(0, tempo, b) - t1))
                prev = None
            else:
                if prev is not None:
                    tl["notes"].append((0, col, time_of(0, tempo, prev), Fr(0)))
                prev = b
        if prev is not None:
            tl["notes"].append((0, col, time_of(0, tempo, prev), Fr(0)))
    return tl


def tl_target(case, v, k=0):
    tgt = case["tgt"]
    if tgt == "osu":
        return tl_osu(v)
    if tgt == "qua":
        return tl_qua(v)
    if tgt == "sm":
        return tl_sm(v, 0)
    return tl_bms(v, case["tgt_layout"])


# ---------------------------------------------------------------------------------- timeline comparison (python mirror)
TOL = Fr(1, 10 ** 6)


def norm_tempo(tempo):
    """sorted by time (stable); of several points at one time the last one counts"""
    s = sorted(enumerate(tempo), key=lambda x: (x[1][0], x[0]))
    out = []
    for _, p in s:
        if out and out[-1][0] == p[0]:
            out[-1] = p
        else:
            out.append(p)
    return out


def bl_at(tempo, t):
    cur = tempo[0]
    for p in tempo[1:]:
        if p[0] <= t:
            cur = p
    return Fr(60000) / cur[1]


def res_of(fmt, tempo, t):
    """resolution of a format at source time t, in ms (tempo = the normalised source tempo points)"""
    if fmt in ("osu", "qua"):
        return Fr(1)
    if fmt == "o2j" or not tempo:
        return Fr(0)
    b = bl_at(tempo, t)
    b = max(b, bl_at(tempo, t + b / 96), bl_at(tempo, t - b / 96))
    return b / (96 if fmt == "sm" else 192)


def match(src, tgt, bound, shift=0, dt=0):
    """None when the target timeline equals the source timeline (notes as multisets per kind and column, start and end
    within bound(t); tempo points within bound, same value); else a short reason"""
    st = norm_tempo(src["tempo"])
    a = sorted((k, c + shift, t, t + ln) for (k, c, t, ln) in src["notes"])
    b = sorted((k, c, t - dt, t + ln - dt) for (k, c, t, ln) in tgt["notes"])
    if len(a) != len(b):
        return f"note count {len(a)} -> {len(b)}"
    used = [False] * len(b)
    for x in a:
        ok = False
        for j, y in enumerate(b):
            if not used[j] and x[0] == y[0] and x[1] == y[1] and abs(x[2] - y[2]) <= bound(x[2]) and abs(x[3] - y[3]) <= bound(x[3]):
                used[j] = ok = True
                break
        if not ok:
            return f"note {x[0]}/{x[1]} at {float(x[2]):.4f} unmatched"
    tt = norm_tempo([(t - dt, v) for (t, v) in tgt["tempo"]])
    if len(st) != len(tt):
        return f"tempo count {len(st)} -> {len(tt)}"
    for (t1, v1), (t2, v2) in zip(st, tt):
        if abs(t1 - t2) > bound(t1):
            return f"tempo point at {float(t1):.4f} moved to {float(t2):.4f}"
        if abs(v1 - v2) > Fr(1, 10 ** 9) * (1 + abs(v1)):
            return f"tempo value {float(v1)} -> {float(v2)}"
    return None


def bound_for(case, src_tl):
    st = norm_tempo(src_tl["tempo"])
    a, b = case["src"], case["tgt"]
    return lambda t: max(res_of(a, st, t), res_of(b, st, t)) + TOL


# ====================================================================================== generator
def _sjis_ok(s):
    try:
        return s.encode("shift_jis").decode("shift_jis") == s
    except Exception:
        return False


def _ab_json(ab):
    return {"keys": ab["keys"], "t0": _jfr(ab["t0"]), "tempo": [[_jfr(b), _jfr(v)] for b, v in ab["tempo"]],
            "notes": [[c, _jfr(b), None if ln is None else _jfr(ln)] for c, b, ln in ab["notes"]],
            "grid": ab["grid"], "style": ab["style"], "exact": ab["exact"]}


def _ab_from(j):
    fj = F.frac_from_json
    return {"keys": j["keys"], "t0": fj(j["t0"]), "tempo": [(fj(b), fj(v)) for b, v in j["tempo"]],
            "notes": [(c, fj(b), None if ln is None else fj(ln)) for c, b, ln in j["notes"]],
            "grid": j["grid"], "style": j["style"], "exact": j["exact"]}


class _NoSjisWords:
    """random.Random wrapper that re-draws words the target's charset cannot hold (BMS text is shift_jis)"""

    def __init__(self, rng):
        self._r = rng

    def __getattr__(self, n):
        return getattr(self._r, n)

    def choice(self, seq):
        for _ in range(20):
            x = self._r.choice(seq)
            if not isinstance(x, str) or _sjis_ok(x):
                return x
        return x


def build_case(a, b, abs_json, rseed, opt):
    """deterministic: the same abstract charts + render seed + options give the same source file"""
    import random
    rng = random.Random(rseed)
    if b == "bms":
        rng = _NoSjisWords(rng)
    abs_ = [_ab_from(j) for j in abs_json]
    ab = abs_[0]
    keys = ab["keys"]
    case = {"src": a, "tgt": b, "keys": keys, "dom": True, "scen": opt.get("scen", "clean"),
            "gen": {"abs": abs_json, "rseed": rseed, "opt": opt}}
    if a == "osu":
        case["file"], tl = render_osu(rng, ab, mode=opt.get("mode", "int"))
        tls = [tl]
    elif a == "qua":
        case["file"], tl = render_qua(rng, ab, sv_early=opt.get("sv_early", False))
        tls = [tl]
    elif a == "sm":
        case["file"], tls = render_sm(rng, ab, ab2=abs_[1] if len(abs_) > 1 else None, stops=opt.get("stops", True),
                                      extra_kinds=opt.get("extra_kinds", True))
    elif a == "bms":
        case["src_layout"] = opt["src_layout"]
        case["file"], tl = render_bms(rng, ab, opt["src_layout"], sample_style=opt.get("sample_style", "ascii"),
                                      headers=opt.get("headers", "all"))
        tls = [tl]
    else:
        case["file"], tls = render_o2j(rng, abs_, first=opt.get("first", "mixed"))
    case["shift"] = opt.get("shift", 0)
    if b == "bms":
        case["tgt_layout"] = opt["tgt_layout"]
    case["tls"] = [_tl_json(t) for t in tls]
    return case


def _keys_for(rng, a, b):
    """a key count both games have"""
    if a == "o2j":
        return 7
    if a == "qua" or b == "qua":
        return rng.choice([4, 7])
    if a == "sm" or b == "sm":
        return rng.choice([4, 7, 4, 7, 6, 8, 3])
    return rng.choice([4, 7, 4, 7, 5, 9, 1, 10])                      # osu <-> bms


# finding-directed scenarios: (name, applies(a, b), weight)
SCENARIOS = [
    ("t0", lambda a, b: a == "osu" and b == "sm"),                    # first tempo point not at 0 ms
    ("sv_early", lambda a, b: a == "qua" and b == "sm"),              # a scroll velocity before the first tempo point
    ("offline", lambda a, b: a in ("sm", "bms")),                     # tempo change off a measure line
    ("topcol", lambda a, b: b == "sm" or (a == "bms" and b == "qua")),   # the top column unused
    ("cs", lambda a, b: a == "sm" and b == "osu"),                    # key count other than 4
    ("nohdr", lambda a, b: a == "bms"),                               # a BMS header line missing
    ("sjis_wav", lambda a, b: a == "bms" and b == "osu"),             # non-ASCII sample name
    ("ev0", lambda a, b: a == "o2j" and b == "bms"),                  # tempo event at position 0
    ("eighth", lambda a, b: b == "sm" and a not in ("sm", "bms")),    # tempo x4 at an x.125 beat
    ("bpm4", lambda a, b: b == "bms"),                                # tempo with more than three decimals
    ("pad", lambda a, b: b == "sm"),                                  # empty leading measures, key count other than 4
    ("nostops", lambda a, b: a == "sm"),                              # no #STOPS tag
    ("empty", lambda a, b: True),                                     # a chart without notes
]


def gen_case(rng, a, b, scen="clean"):
    exact = rng.random() < 0.45
    keys = _keys_for(rng, a, b)
    opt = {"scen": scen}
    # BMS sources: the key count IS the largest used column (no key-count attribute; known for bms->sm / qua / osu)
    kw = dict(exact=exact, full_cols=(a == "bms" or rng.random() < 0.65))
    kw["t0_zero"] = a in ("bms", "o2j") or b == "bms"
    if a in ("sm", "bms"):
        kw["tempo_style"] = rng.choice(["one", "lines", "lines"])
    if a == "o2j" and b == "bms":
        kw["exact"] = True
        opt["first"] = "header"
    if a == "o2j":
        kw["max_notes"] = rng.choice([2, 4, 6])
    if a == "osu":
        opt["mode"] = rng.choice(["int", "int", "int", "frac", "exact"])
    # ---- scenarios
    if scen == "t0":
        kw["t0_zero"], kw["t0_nonzero"] = False, True
    elif scen == "sv_early":
        opt["sv_early"] = True
    elif scen == "offline":
        kw["tempo_style"] = rng.choice(["beats", "half", "quarter"])
    elif scen == "topcol":
        kw["full_cols"] = False
        if a != "o2j":
            keys = 7 if (a == "qua" or b == "qua" or rng.random() < 0.5) else 4
    elif scen == "cs":
        keys = rng.choice([7, 6, 8])
    elif scen == "nohdr":
        opt["headers"] = "drop"
    elif scen == "sjis_wav":
        opt["sample_style"] = "sjis"
    elif scen == "ev0":
        opt["first"] = "event"
    elif scen == "eighth":
        kw["tempo_style"], kw["big_ratio"] = "eighth", True
    elif scen == "bpm4":
        kw["exact"], kw["long_bpm"] = False, True
    elif scen == "pad":
        kw["start_beat"] = rng.choice([4, 8])
        if a != "o2j":
            keys = 7 if (a == "qua" or b == "qua") else rng.choice([7, 6, 8, 3])
    elif scen == "nostops":
        opt["stops"] = False
    if a == "bms":
        opt["src_layout"] = rng.choice([l for l in LAYOUTS if LAYOUT_KEYS[l] >= keys])
        if "sample_style" not in opt:
            opt["sample_style"] = rng.choice(["ascii", "ascii", "none", "sjis"])
        if "headers" not in opt and rng.random() < 0.3:
            opt["headers"] = "drop"
    if b == "bms":
        opt["shift"] = 1 if a == "o2j" else (0 if a == "sm" else rng.choice([0, 0, 0, 1]))
        opt["tgt_layout"] = rng.choice([l for l in LAYOUTS if LAYOUT_KEYS[l] >= keys + opt["shift"]])
    abs_ = [gen_abstract(rng, keys, **kw)]
    if scen == "empty":
        abs_[0]["notes"] = []
    if scen == "topcol":                                             # keep the top column(s) free
        top = keys - rng.choice([1, 2, 3])
        abs_[0]["notes"] = [(c % top, bt, ln) for (c, bt, ln) in abs_[0]["notes"]]
        abs_[0]["notes"] = _dedup_notes(abs_[0]["notes"])
    if a == "sm" and rng.random() < 0.3:
        ab2 = gen_abstract(rng, keys, **kw)
        ab2["tempo"], ab2["t0"] = abs_[0]["tempo"], abs_[0]["t0"]
        abs_.append(ab2)
    if a == "o2j":
        abs_ += [gen_abstract(rng, 7, **kw) for _ in range(2)]
        if scen == "empty":
            abs_[2]["notes"] = []
    return build_case(a, b, [_ab_json(x) for x in abs_], rng.randrange(1 << 30), opt)


def _dedup_notes(notes):
    """after folding columns: keep, per column, only objects that do not touch an earlier one"""
    out, busy = [], {}
    for (c, bt, ln) in sorted(notes, key=lambda n: (n[1], n[0])):
        end = bt + (ln or 0)
        if all(bt > e + Fr(1, 4) or end + Fr(1, 4) < s0 for (s0, e) in busy.get(c, [])):
            busy.setdefault(c, []).append((bt, end))
            out.append((c, bt, ln))
    return out


def _foreign_cases(rng, n):
    """files drawn from the other properties' own generators, for millisecond targets (those accept any timeline);
    dom = False: they may lie outside the composition's domain (then only counted), spec is evaluated when they do not"""
    from . import c01, c06, c07
    out = []
    for _ in range(n):
        k = rng.choice([4, 7])
        t = c01.gen_text(rng, rng.random() < 0.7, force=(k, (512 * rng.randrange(k) + 256) // k))
        out.append({"src": "osu", "tgt": "qua", "keys": k, "dom": False, "scen": "c01", "file": t["lines"], "shift": 0, "n": 1})
    for _ in range(n):
        c = c07._case(rng)
        out.append({"src": "o2j", "tgt": rng.choice(["osu", "qua"]), "keys": 7, "dom": False, "scen": "c07",
                    "file": {"hdr": c["hdr"], "levels": c["levels"], "trail": c["trail"]}, "shift": 0, "n": 3})
    for _ in range(n):
        for _try in range(30):
            doc = c06._gen_doc(rng)
            lanes = [h.get("Lane", 1) for h in doc["HitObjects"]]
            k = 4 if max(lanes + [1]) <= 4 else 7
            if max(lanes + [1]) <= 7:
                break
        doc["Mode"] = f"Keys{k}"
        for sv in doc["SliderVelocities"]:
            if sv.get("Multiplier") == 0:
                sv["Multiplier"] = 0.5                       # a zero multiplier has no osu code (-100/x): outside the target format
        out.append({"src": "qua", "tgt": "osu", "keys": k, "dom": False, "scen": "c06", "file": doc, "shift": 0, "n": 1})
    return out


def generate(rng, tier):
    clean, directed, foreign = (10, 2, 10) if tier == "quick" else (200, 30, 200)
    cases = []
    for (a, b) in PAIRS:
        for _ in range(clean):
            cases.append(gen_case(rng, a, b))
        for name, applies in SCENARIOS:
            if applies(a, b):
                for _ in range(directed):
                    cases.append(gen_case(rng, a, b, scen=name))
    cases += _foreign_cases(rng, foreign)
    return cases


# ====================================================================================== Coq side
FMT = {"osu": "FOsu", "qua": "FQua", "sm": "FSM", "bms": "FBms", "o2j": "FO2j"}


def _zl(l):
    return "[" + ";".join(str(int(x)) if int(x) >= 0 else f"({int(x)})" for x in l) + "]"


def _zi(x):
    x = int(x)
    return str(x) if x >= 0 else f"({x})"


def _segs(line):
    cps = [ord(c) for c in line]
    segs, cur, i = [], [], 0
    while i < len(cps):
        j = i
        while j < len(cps) and cps[j] == cps[i]:
            j += 1
        if j - i >= 8:
            if cur:
                segs.append("L" + _zl(cur))
                cur = []
            segs.append(f"R {cps[i]} {j - i}")
        else:
            cur.extend(cps[i:j])
        i = j
    if cur:
        segs.append("L" + _zl(cur))
    return "[" + ";".join(segs) + "]"


def coq_lines(lines):
    """distinct lines (run-length segments) + line numbers (decoded by pick_lines / mk_text)"""
    tbl, idx, seen = [], [], {}
    for l in lines:
        if l not in seen:
            seen[l] = len(tbl)
            tbl.append(l)
        idx.append(seen[l])
    return "[" + ";".join(_segs(l) for l in tbl) + "] " + _zl(idx)


def coq_tree(t, nm):
    if t == "nan":
        return "ynan"
    if t == "null":
        return "ynull"
    if "b" in t:
        return "(yb true)" if t["b"] else "(yb false)"
    if "i" in t:
        return f"(yi {_zi(t['i'])})"
    if "f" in t:
        n, d = t["f"]
        return f"(yf ({_zi(n)}#{d}))"
    if "s" in t:
        return "(ys " + _zl([ord(c) for c in t["s"]]) + ")"
    if "l" in t:
        return "(yl [" + ";".join(coq_tree(x, nm) for x in t["l"]) + "])"
    return "(ym [" + ";".join(f"({nm(k)},{coq_tree(v, nm)})" for k, v in t["m"]) + "])"


def coq_ofile(f):
    h = f["hdr"]
    hdr = ("(fh " + " ".join([
        _zi(h["song_id"]), _zl(h["signature"]), _zi(h["encode_version"]), _zi(h["genre"]), _zi(h["bpm"]), _zl(h["level"]),
        _zl(h["event_count"]), _zl(h["note_count"]), _zl(h["measure_count"]), _zi(h["old_encode_version"]),
        _zi(h["old_song_id"]), _zl(h["old_genre"]), _zi(h["bmp_size"]), _zi(h["old_file_version"]), _zl(h["title"]),
        _zl(h["artist"]), _zl(h["noter"]), _zl(h["ojm_file"]), _zi(h["cover_size"]), _zl(h["time"]), _zl(h["note_offset"]),
        _zi(h["cover_offset"])]) + ")")

    def pkg(p):
        ev = "[" + ";".join(f"({s},{_zl(b)})" for s, b in p["ev"]) + "]"
        return f"pk {_zi(p['m'])} {_zi(p['ch'])} {_zi(p['n'])} {ev}"
    return "(fl " + hdr + " [" + "; ".join("[" + "; ".join(pkg(p) for p in l) + "]" for l in f["levels"]) + "])"


def coq_source(case):
    from . import c06
    a = case["src"]
    if a == "osu":
        return "(SOsu " + coq_lines(case["file"]) + ")"
    if a == "qua":
        return "(SQua " + coq_tree(c06.tj(case["file"]), c06._Names()) + ")"
    if a == "sm":
        return "(SSM " + coq_lines(case["file"].split("\n")) + ")"
    if a == "bms":
        return f"(SBms {LAYOUTS.index(case['src_layout'])}%nat " + coq_lines(case["file"]) + ")"
    return "(SO2j " + coq_ofile(case["file"]) + ")"


def coq_target(case, v):
    from . import c06
    b = case["tgt"]
    if b == "osu":
        return "(TOsu " + coq_lines(v) + ")"
    if b == "qua":
        return "(TQua " + coq_tree(v, c06._Names()) + ")"
    if b == "sm":
        return "(TSM " + coq_lines(v.split("\n")) + ")"
    return f"(TBms {LAYOUTS.index(case['tgt_layout'])}%nat " + coq_lines(v) + ")"


def n_targets(case):
    return len(case["tls"]) if "tls" in case else case.get("n", 1)


def emit_all(case, out):
    src = coq_source(case)
    tlay = LAYOUTS.index(case["tgt_layout"]) if case["tgt"] == "bms" else 0
    head = (f"C09 {F.boolean(case.get('dom', True))} (1#1000000) {_zi(case['keys'])} {_zi(case['shift'])}")
    terms = []
    tg = out.get("targets")
    for k in range(n_targets(case)):
        if tg is None or k >= len(tg) or tg[k]["v"] is None:
            o = "None"
        else:
            o = "(Some " + coq_target(case, tg[k]["v"]) + ")"
        terms.append(f"({head} {k}%nat {src} {FMT[case['tgt']]} {tlay}%nat {o})%Z")
    return terms


# ====================================================================================== classification of failures
def _src_tl(case, k):
    if "tls" in case:
        return _tl_from(case["tls"][k])
    try:
        if case["src"] == "osu":
            return tl_osu(case["file"])
        if case["src"] == "qua":
            from . import c06
            return tl_qua(c06.tj(case["file"]))
    except Exception:
        return None
    return None


def _first_abs(case, k):
    g = case.get("gen")
    if not g:
        return None
    abs_ = g["abs"]
    return _ab_from(abs_[k] if k < len(abs_) else abs_[0])


def _tempo_off_line(case, k):
    ab = _first_abs(case, k)
    if ab is None:
        return False
    tempo = _ab_from(case["gen"]["abs"][0])["tempo"] if case["src"] == "sm" else ab["tempo"]
    return any(b % 4 != 0 for b, _ in tempo)


def _max_col_keys(tl):
    return (max(c for (_, c, _, _) in tl["notes"]) + 1) if tl["notes"] else None


def diagnose(case, out, k):
    """-> cause key of a failure of target k that is a known defect of the pinned tree (see docs/C09.md), else None.
    A cause is accepted only when it EXPLAINS the failure: the timelines agree once the cause is compensated."""
    a, b = case["src"], case["tgt"]
    stl = _src_tl(case, k)
    tg = out.get("targets")
    exc = out.get("exc") if tg is None else (tg[k].get("exc") if k < len(tg) and tg[k]["v"] is None else None)
    if tg is not None and k >= len(tg):
        return None
    # ---- a chart without notes: column.max() is NaN, so the key count "derived" from it is no key count at all
    #      (ValueError: cannot convert float NaN, chart type '', CircleSize:nan)
    if stl is not None and not stl["notes"] and (b == "sm" or (a, b) in (("bms", "qua"), ("bms", "osu"))):
        if exc is not None:
            if "NaN" in exc or exc.startswith("write: TypeError") or "isn't supported" in exc:
                return "keys-from-empty-chart"
            return None
        try:
            tl_target(case, tg[k]["v"])
        except Exception:
            return "keys-from-empty-chart"
        return None
    # ---- the pipeline raised
    if exc is not None:
        if a == "sm" and exc.startswith("read: AttributeError") and "sorted" in exc and "#STOPS" not in case["file"]:
            return "sm-read-no-stops-tag"
        if a == "bms" and exc.startswith("convert: AttributeError") and "decode" in exc:
            have = {l.split(" ")[0] for l in case["file"] if l.startswith("#")}
            if not {"#TITLE", "#ARTIST", "#PLAYLEVEL"} <= have:
                return "bms-header-missing"
        if a == "bms" and b == "osu" and exc.startswith("convert: UnicodeDecodeError") and "ascii" in exc:
            if any(l.startswith("#WAV") and not l.isascii() for l in case["file"]):
                return "bms-sample-non-ascii"
        if stl is not None and _max_col_keys(stl) is not None and _max_col_keys(stl) != case["keys"]:
            if b == "sm" and (exc.startswith("write: TypeError") or (exc.startswith("convert: ValueError") and "isn't supported" in exc)):
                return "keys-from-max-column"
            if b == "qua" and exc.startswith("convert: ValueError") and "isn't supported" in exc:
                return "keys-from-max-column"
        return None
    if stl is None:
        return None
    v = tg[k]["v"]
    bound = bound_for(case, stl)
    # ---- the target is not well-formed
    try:
        ttl = tl_target(case, v)
    except Exception as e:
        msg = str(e)
        if b == "sm" and "row width" in msg and case["keys"] != 4 and "\n0000\n" in v:
            return "sm-pad-width"
        if b == "bms" and "two objects in one slot" in msg and a == "o2j" and _o2j_event_at_0(case, k):
            return "o2j-tempo-at-0-duplicate"
        return None
    sh = case["shift"]
    st, tt = norm_tempo(stl["tempo"]), norm_tempo(ttl["tempo"])
    if match(stl, ttl, bound, shift=sh) is None:
        # python sees no violation of the property: a correspondence-only divergence.  Known ones: a defect below the
        # resolution (an #OFFSET off by less than a step; the ':.3f' tempo table; a two-decimal tempo beat)
        if b == "sm" and st and tt and abs(tt[0][0] - st[0][0]) > TOL and a in ("osu", "qua"):
            return {"osu": "sm-offset-zero", "qua": "sm-offset-stack-min"}[a]
        if b == "bms" and len(st) == len(tt) and any(v1 != v2 for (_, v1), (_, v2) in zip(st, tt)):
            return "bms-bpm-3f-rounding"
        if b == "sm" and _written_beats_2dp(v, st):
            return "sm-bpms-beat-2dp"
        return None
    # ---- O2Jam header tempo + tempo event at position 0, both written
    if a == "o2j" and b == "bms" and _o2j_event_at_0(case, k):
        return "o2j-tempo-at-0-duplicate"
    # ---- causes that can be compensated: the failure is a known one when the timelines agree once every cause PRESENT
    #      in the case is compensated; the key is the first present cause
    present = []
    src, dt, bnd, notes_only = stl, 0, bound, False
    if b == "sm" and st and tt and abs(tt[0][0] - st[0][0]) > TOL and a in ("osu", "qua"):
        present.append({"osu": "sm-offset-zero", "qua": "sm-offset-stack-min"}[a])     # #OFFSET is not the first tempo point
        dt = tt[0][0] - st[0][0]
    if a == "sm" and b == "osu" and case["keys"] != 4 and _written_circle_size(v) != case["keys"]:
        present.append("osu-circle-size-default")                                       # SMToOsu leaves CircleSize at 4
        src = {"notes": [(kd, min(c, 3), t, ln) for (kd, c, t, ln) in stl["notes"]], "tempo": stl["tempo"]}
    if a in ("sm", "bms") and _tempo_off_line(case, k):
        present.append("tempo-reseated")                                                # reseated tempo list: only the notes are right
        notes_only = True
    if b == "bms" and len(st) == len(tt) and any(v1 != v2 for (_, v1), (_, v2) in zip(st, tt)) \
            and all(abs(v1 - v2) <= Fr(1, 1999) for (_, v1), (_, v2) in zip(st, tt)):
        present.append("bms-bpm-3f-rounding")                                           # ':.3f' tempo table: drift
        tmax = max([t + ln for (_, _, t, ln) in stl["notes"]] + [t for t, _ in st] + [Fr(0)])
        drift = tmax * Fr(1, 1999) / min(v for _, v in st)
        bnd0 = bnd
        bnd = lambda t, f=bnd0, d=drift: f(t) + d
        notes_only = notes_only or "relax-bpm"
    if b == "sm" and len(st) > 1 and _written_beats_2dp(v, st):
        present.append("sm-bpms-beat-2dp")                                              # tempo beats printed with two decimals
        slack = sum(Fr(1, 200) * abs(Fr(60000) / st[i][1] - Fr(60000) / st[i - 1][1]) for i in range(1, len(st)))
        slack += Fr(1, 200) * max(Fr(60000) / v for _, v in st)
        bnd1 = bnd
        bnd = lambda t, f=bnd1, d=slack: f(t) + d
    if b == "sm" and len(st) > 1 and any(d or (bt * 96).denominator != 1 for bt, d, _ in _snapped_tempo(st)) and _capped_measure(v):
        # notes are snapped RELATIVE to the tempo point in force (<= 1/192 beat either way, the point itself is snapped too);
        # when that point is not on a 1/96-beat row and the measure needs more than 384 rows, the row is then FLOORED
        # (< 1 row early): together more than one 1/96-beat row
        present.append("sm-row-floor-in-capped-measure")
        disp = max(Fr(60000) / bv for _, bv in st) / 192 + sum(bl / 192 for _, d, bl in _snapped_tempo(st) if d)
        bnd2 = bnd
        bnd = lambda t, f=bnd2, d=disp: f(t) + d
    if not present:
        return None
    if notes_only is True:
        ok = _notes_only(src, ttl, bnd, sh, dt)
    elif notes_only == "relax-bpm":
        ok = _notes_only(src, ttl, bnd, sh, dt) and len(st) == len(tt) and all(abs(t1 - (t2 - dt)) <= bnd(t1) for (t1, _), (t2, _) in zip(st, tt))
    else:
        ok = match(src, ttl, bnd, shift=sh, dt=dt) is None
    return present[0] if ok else None


def _written_circle_size(lines):
    for l in lines:
        if l.startswith("CircleSize:"):
            try:
                return int(Fr(l.split(":", 1)[1].strip()))
            except Exception:
                return None
    return None


_FAREY = None


def _snap_beats(x):
    """Snapper().snap of a beat count: whole beats + the nearest fraction with denominator <= 96"""
    import bisect
    global _FAREY
    if _FAREY is None:
        _FAREY = sorted({Fr(p_, q_) for q_ in range(1, 97) for p_ in range(0, q_ + 1)})
    fl = x.numerator // x.denominator
    fr = x - fl
    i = bisect.bisect_left(_FAREY, fr)
    cands = [_FAREY[j] for j in (i - 1, i) if 0 <= j < len(_FAREY)]
    return fl + min(cands, key=lambda c: abs(c - fr))


def _snapped_tempo(st):
    """what TimingMap makes of the tempo points: [(cumulative snapped beat, displaced?, beat length before)]"""
    out, beat = [(Fr(0), False, Fr(0))], Fr(0)
    for i in range(1, len(st)):
        bl = Fr(60000) / st[i - 1][1]
        x = (st[i][0] - st[i - 1][0]) / bl
        sx = _snap_beats(x)
        beat += sx
        out.append((beat, abs(sx - x) > Fr(1, 10 ** 9), bl))
    return out


def _written_beats_2dp(text, st):
    """the #BPMS beats of the written text are the snapped beats rounded to TWO decimals, and that differs from six"""
    try:
        _, pairs, _ = sm_parse(text)
    except Exception:
        return False
    snapped = sorted(b for b, _, _ in _snapped_tempo(st))
    if len(pairs) != len(snapped):
        return False
    w = [b for b, _ in pairs]
    r2 = [Fr(round(float(b), 2)).limit_denominator(10 ** 7) for b in snapped]
    r6 = [Fr(round(float(b), 6)).limit_denominator(10 ** 7) for b in snapped]
    eq = lambda x, y: all(abs(p - q) <= Fr(1, 10 ** 8) for p, q in zip(x, y))
    return eq(w, r2) and not eq(w, r6)


def _capped_measure(text):
    """some measure of the written chart has the maximum of 384 rows"""
    try:
        _, _, charts = sm_parse(text)
    except Exception:
        return False
    return any(len(m) >= 384 for m in charts[0][1])


def _tempo_off_centibeat(st):
    beat = Fr(0)
    for i in range(1, len(st)):
        beat += (st[i][0] - st[i - 1][0]) / (Fr(60000) / st[i - 1][1])
        if abs(beat * 100 - round(beat * 100)) > Fr(1, 1000):
            return True
    return False


def _notes_only(stl, ttl, bound, shift=0, dt=0):
    a = {"notes": stl["notes"], "tempo": []}
    b = {"notes": ttl["notes"], "tempo": []}
    return match(a, b, bound, shift=shift, dt=dt) is None


def _o2j_event_at_0(case, k):
    lv = case["file"]["levels"][k]
    return any(p["ch"] == 1 and p["n"] > 0 and any(s == 0 and p["m"] == 0 and bytes(bs) != b"\0\0\0\0" for s, bs in p["ev"]) for p in lv)


# defect classes repaired in /repo (findings/C09.json: status "fixed"): still recognised by diagnose(), but a recurrence
# is labelled regression:<key>, which is no listed finding, so it is reported as a VIOLATION
FIXED_KEYS = {
    "osu->sm:sm-offset-zero", "qua->sm:sm-offset-stack-min",                                         # cdbdcdf
    "sm->osu:osu-circle-size-default",                                                                # 24f5d51
    "osu->sm:keys-from-max-column", "qua->sm:keys-from-max-column", "o2j->sm:keys-from-max-column",   # 5e5686a
    "osu->sm:sm-bpms-beat-2dp", "qua->sm:sm-bpms-beat-2dp", "o2j->sm:sm-bpms-beat-2dp",               # 6b5cf38
    "bms->osu:bms-header-missing", "bms->qua:bms-header-missing", "bms->sm:bms-header-missing",       # 31e60b2
    "bms->osu:bms-sample-non-ascii",                                                                  # d05f0bf
    "bms->osu:keys-from-max-column",                                                                  # a0b08c0 (only charts without notes failed)
}


def classify(case, out, kind, sub=None):
    if sub is None:
        return None
    cause = diagnose(case, out, sub)
    if cause is None:
        return None
    key = f"{case['src']}->{case['tgt']}:{cause}"
    if cause == "keys-from-empty-chart":          # column.max() of a chart without notes: repaired for every converter (5e5686a, a0b08c0)
        return "regression:" + key
    return "regression:" + key if key in FIXED_KEYS else key


# ====================================================================================== bookkeeping
def nontrivial(case, out):
    if "tls" in case:
        return any(t["notes"] for t in case["tls"])
    return True


def _outcome(case, out):
    tg = out.get("targets")
    if tg is None:
        return "raised"
    if any(t["v"] is None for t in tg):
        return "write-raised"
    return "written"


def bucket(case, out):
    return f"{case['src']}->{case['tgt']}/{case.get('scen')}/{_outcome(case, out)}"


def describe(case, out):
    g = case.get("gen")
    s = f"{case['src']}->{case['tgt']} keys={case['keys']} scen={case.get('scen')} {_outcome(case, out)}"
    if g:
        ab = g["abs"][0]
        s += f" tempo={[(str(F.frac_from_json(b)), float(F.frac_from_json(v))) for b, v in ab['tempo']]} notes={len(ab['notes'])}"
    if out.get("exc"):
        s += " exc=" + out["exc"]
    return s


def shrink(case):
    g = case.get("gen")
    if not g:
        return
    abs_ = g["abs"]
    for i, ab in enumerate(abs_):
        for j in range(len(ab["notes"])):
            na = copy.deepcopy(abs_)
            del na[i]["notes"][j]
            yield build_case(case["src"], case["tgt"], na, g["rseed"], g["opt"])
    if len(abs_) == 2 and case["src"] == "sm":
        yield build_case(case["src"], case["tgt"], abs_[:1], g["rseed"], g["opt"])
    for i, ab in enumerate(abs_):
        if len(ab["tempo"]) > 1:
            na = copy.deepcopy(abs_)
            for x in na:
                if x["tempo"] == ab["tempo"]:
                    x["tempo"] = x["tempo"][:-1]
            yield build_case(case["src"], case["tgt"], na, g["rseed"], g["opt"])
            break
