"""C01: osu!mania .osu read/write.

Directions exercised (each case carries what the real reamber code returned; Coq decides):
  read : generated v14 mania TEXT -> OsuMap.read(lines) -> chart; compared with the model (Formats/Osu.v)
         and with the reference semantics osu_denote (Formats/OsuSpec.v)
  write: in-memory chart built from objects -> OsuMap.write() -> lines; compared token-wise with the model
         (numeric tokens by value), and osu_denote / wf_osu_text are evaluated on the written text in Coq
  rw   : text -> read -> write (the chart is whatever read produced)
  gen  : chart -> write -> read -> write (-> read -> write): later generations denote the same chart
Exact stream: numerals that binary64 represents exactly and on which reamber's divisions are exact
(integers, k/2^n, beatLengths with exact 60000/x and -100/x); tolerance 0.  Rounded stream: arbitrary
decimals / floats, relative tolerance 1e-9."""
from fractions import Fraction as Fr
import copy

from .. import coqfmt as F

ID = "C01"
RUNNER = "Corr.RunC01"
CASE_TYPE = "c01case"
RUNNER_TARGETS = ["Corr/RunC01.vo"]
PROOF_TARGETS = ["Props/C01.vo"]
PROPS_FILE = "Props/C01.v"
PROPS_MODULE = "Props.C01"
RULE = ("seeded generator of (a) v14 mania texts: keys 1..18, x on every column's range boundaries/centre/interior, "
        "negative/large/fractional times, hit types 1/5 and hold types 128/132, all hitsound fields, random subsets of the 30 "
        "attributes with ASCII / non-ASCII / ':'-containing values, blank lines, trailing blanks, [Colours], sample events, "
        "background; (b) charts built from objects: unsorted rows, ties, fractional/negative offsets, bpm != 0 (incl. negative), "
        "multipliers != 0, every key count; (c) write/read generations.  A quarter of all cases (marked via_file) goes through the "
        "file entry points: the text is written to a temporary directory as UTF-8 and read by OsuMap.read_file(path); the chart is "
        "written by OsuMap.write_file(path) and the file is read back from disk (no newline translation) and judged like the list "
        "write() returns.  Non-trivial: at least one note or timing row; "
        "distinct by hash of the canonical JSON of the input")
ASSUMPTIONS = [
    "float printing (repr, str(float), ':g') is an oracle: written numeric tokens are compared by parsed value (rel. 1e-9); "
    "metadata floats are generated with <= 6 significant digits (':g' is lossy beyond that: outside the claimed domain); in the "
    "whole-file theorems the printers are parameters with the hypothesis 'what is printed reads back as the value printed'",
    "binary64 rounding inside float()/60000.0/x/-100.0/x is not modelled: exact stream uses float-exact numerals (tolerance 0), "
    "rounded stream tolerance 1e-9 relative; x_axis_to_column is pure integer arithmetic (x * keys // 512) and is modelled exactly",
    "unidecode(Title/Artist) is an external oracle: its output is passed into the case and tested to be ASCII and a fixed point",
    "text attributes are generated without surrounding blanks, tags without blanks, note/sample file names without ',' or ':'",
    "Python int()/float() also accept '_' separators, non-ASCII digits, inf/nan: outside the dialect, never generated",
]
TRUSTED = ["unidecode (external library) as oracle for Title/Artist transliteration",
           "CPython float repr / ':g' formatting as oracle (tokens compared by value)"]
MANIFEST = dict(
    text="Machine-checked theorems (Coq 8.16.1) about an executable character-level Gallina model of reamber's osu!mania codec "
         "(Formats/Osu.v) against an independent reference semantics of the v14 mania format (Formats/OsuSpec.v: osu_denote, "
         "wf_osu_text), now at WHOLE-FILE level on decidable domains (the same boolean predicates the runner evaluates as wf): "
         "C01_osu_read_denotes: for every text with read_domain = wf_read_text && strict_read_text the reader returns exactly "
         "realize(osu_denote text) - all 30 attributes incl. values with colons, background, sample events, tempo points / SVs "
         "(code -> value), hits / holds (x -> column for the file's key count, end time); each clause of strict_read_text is "
         "shown necessary by a *_refuted witness (11 corners where the section-unaware, shape-classifying reader deviates), "
         "replayed on the real code on every run. C01_osu_write_wf / _write_denotes: for every chart in write_domain (and "
         "printable numbers) the written file is well formed and denotes the chart with note / sample / preview times "
         "int()-truncated, columns exact, every attribute present, no row dropped or merged. C01_osu_read_after_write: the written "
         "text is in the read domain and is read back as an explicit chart. C01_generation_stable: generation 2 denotes what "
         "generation 1 denotes (hold/hit ties reordered once) and generation 3 = generation 2 character for character. "
         "Float printers (repr, ':g', str) are explicit oracle parameters of these four theorems (hypothesis: what is printed reads "
         "back as the value printed); the *_dec6 theorems instantiate them with a concrete 6-decimal printer, no hypothesis left. "
         "Plus the line-level theorems (column<->x for every key count / every integer x, code<->value, truncation bounds and "
         "idempotence, metadata cut at the first colon) and exhaustive live tables (x->column for 18 key counts x 528 x values, "
         "column->x, whitespace set, sample-set names). The model is tied to the code on every run by in-Coq correspondence in "
         "both directions with the reference semantics evaluated on the implementation's outputs. The three defects found "
         "(second colon in metadata values; keys=10 x=256; Title/Artist broken over two lines when unidecode yields a line feed, "
         "found by the write proof) are fixed in the repo (ac204a5, 36d1b4c, fde22cd); their inputs stay in corpus/C01 and the "
         "old writer is kept as osu_write_OLD with C01_write_title_linefeed_OLD_refuted / _current.",
    note="Trusted: Coq kernel+VM, harness generator/serialiser, gen_tables translator, unidecode and float printing as oracles "
         "(tokens compared by value; in the theorems they are universally quantified parameters with stated hypotheses); binary64 "
         "rounding of float()/divisions measured (rounded stream, rel 1e-9) not proved. Reported, not defects of the dialect proper: "
         "outside strict_read_text the reader deviates from the format (e.g. a timing line whose uninherited field is ' 1' or '01' "
         "is silently dropped; an attribute line in a foreign section is taken; Tags 'a \\t b' yields an empty tag); documented guards. "
         "write_domain demands nothing of the transliterations (the writer replaces their line feeds by blanks since fde22cd). "
         "No known findings inside the domains.",
    technique="Coq proof over executable model + reference interpreter evaluated by vm_compute on implementation outputs",
    design="4/C01")

# ------------------------------------------------------------------------------------------ attribute table
# (python attribute, .osu key, kind, section, blank after colon when written)
ATTRS = [
    ("audio_file_name", "AudioFilename", "s", "General"), ("audio_lead_in", "AudioLeadIn", "i", "General"),
    ("preview_time", "PreviewTime", "i", "General"), ("countdown", "Countdown", "b", "General"),
    ("sample_set", "SampleSet", "e", "General"), ("stack_leniency", "StackLeniency", "f", "General"),
    ("mode", "Mode", "i", "General"), ("letterbox_in_breaks", "LetterboxInBreaks", "b", "General"),
    ("special_style", "SpecialStyle", "b", "General"), ("widescreen_storyboard", "WidescreenStoryboard", "b", "General"),
    ("distance_spacing", "DistanceSpacing", "f", "Editor"), ("beat_divisor", "BeatDivisor", "i", "Editor"),
    ("grid_size", "GridSize", "i", "Editor"), ("timeline_zoom", "TimelineZoom", "f", "Editor"),
    ("title", "Title", "s", "Metadata"), ("title_unicode", "TitleUnicode", "s", "Metadata"),
    ("artist", "Artist", "s", "Metadata"), ("artist_unicode", "ArtistUnicode", "s", "Metadata"),
    ("creator", "Creator", "s", "Metadata"), ("version", "Version", "s", "Metadata"), ("source", "Source", "s", "Metadata"),
    ("tags", "Tags", "t", "Metadata"), ("beatmap_id", "BeatmapID", "i", "Metadata"),
    ("beatmap_set_id", "BeatmapSetID", "i", "Metadata"),
    ("hp_drain_rate", "HPDrainRate", "f", "Difficulty"), ("circle_size", "CircleSize", "f", "Difficulty"),
    ("overall_difficulty", "OverallDifficulty", "f", "Difficulty"), ("approach_rate", "ApproachRate", "f", "Difficulty"),
    ("slider_multiplier", "SliderMultiplier", "f", "Difficulty"), ("slider_tick_rate", "SliderTickRate", "f", "Difficulty"),
]
SECTIONS = ["General", "Editor", "Metadata", "Difficulty"]
SAMPLESETS = ["None", "Normal", "Soft", "Drum"]

WORDS = ["Tribal", "Trial", "Yooh", "audio.mp3", "Murumoo's", "EXHAUST", "SOUND", "VOLTEX", "a", "x-y_z", "(TV Size)",
         "日本語", "ピアノ", "Ré", "Zéro", "Ünïcödé", "東方", "№5", "β-test", "~!@#$%^&*()", "it's [7K]", "100%",
         "a\u2028b"]      # unidecode maps U+2028 to a line feed (former defect title-linefeed, fixed in fde22cd)
FILES = ["", "", "clap.wav", "soft-hitnormal2.wav", "ドラム.ogg", "hit 1.wav", "a.b.c"]


def _word(rng):
    return rng.choice(WORDS)


def _phrase(rng, colon=False):
    n = rng.choice([0, 1, 1, 2, 3])
    s = " ".join(_word(rng) for _ in range(n))
    if colon:
        a, b = _word(rng), _word(rng)
        s = rng.choice([f"{a}:{b}", f"Re:{b}", f"{a}: {b}", f"{a}:{b}:{a}", f":{b}", f"{a}::"])
    return s.strip()


def _dyadic(rng, lo, hi, den=8):
    return Fr(rng.randint(lo * den, hi * den), den)


def _time(rng, exact):
    r = rng.random()
    if r < 0.45:
        return Fr(rng.randint(0, 200000))
    if r < 0.55:
        return Fr(rng.randint(-5000, -1))
    if r < 0.62:
        return Fr(rng.choice([0, 1, -1, 2 ** 31 - 1, 10 ** 7, 86400000, -(10 ** 6)]))
    if exact:
        return _dyadic(rng, -2000, 300000, rng.choice([2, 4, 8, 64]))
    return Fr(rng.randint(-2 * 10 ** 6, 3 * 10 ** 8), rng.choice([10, 100, 1000, 3, 7]))


def _dec_text(x: Fr, rng=None):
    """decimal text of a rational with a terminating expansion (or rounded to 6 places)"""
    if x.denominator == 1:
        s = str(x.numerator)
        if rng is not None and rng.random() < 0.3:
            s += rng.choice([".0", ".", ".00"])
        return s
    d = x.denominator
    k = 0
    while d % 2 == 0 or d % 5 == 0:
        if d % 2 == 0:
            d //= 2
        else:
            d //= 5
        k += 1
        if k > 40:
            break
    if d != 1:
        return f"{float(x):.6f}"
    k = 0
    while (x * 10 ** k).denominator != 1:
        k += 1
    n = int(x * 10 ** k)
    sign = "-" if n < 0 else ""
    n = abs(n)
    ip, fp = divmod(n, 10 ** k)
    return f"{sign}{ip}.{fp:0{k}d}"


BPM_EXACT_BL = [Fr(500), Fr(250), Fr(375), Fr(1875, 4), Fr(300), Fr(1000), Fr(375, 2), Fr(600), Fr(400), Fr(200),
                Fr(800), Fr(640), Fr(1875, 8), Fr(125), Fr(-500), Fr(60000), Fr(1), Fr(3, 4)]       # 60000/x exact in binary64
SV_EXACT_BL = [Fr(-100), Fr(-50), Fr(-200), Fr(-25), Fr(-400), Fr(-25, 2), Fr(-25, 4), Fr(-800), Fr(-25, 8), Fr(100),
               Fr(-1600), Fr(-125), Fr(-80), Fr(-160), Fr(-1000, 8)]                              # -100/x exact
BPM_ROUND_BL = ["363.636363636364", "333.33", "461.538461538462", "342.857142857143", "1e3", "2.5E2", "422.535211267606"]
SV_ROUND_BL = ["-133.333333333333", "-83.3333", "-76.9230769230769", "-1000", "-10", "-66.67", "-3e1"]


def _exact_ok(bl: Fr, num) -> bool:
    q = Fr(num) / bl
    return Fr(float(q)) == q and Fr(float(bl)) == bl


# ------------------------------------------------------------------------------------------ text generation
def _x_for_column(rng, c, k):
    lo = -((-512 * c) // k)                 # ceil(512 c / k)
    hi = -((-512 * (c + 1)) // k) - 1       # last x with floor(x k / 512) = c
    r = rng.random()
    if r < 0.3:
        return lo
    if r < 0.55:
        return hi
    if r < 0.7:
        return (512 * c + 256) // k
    return rng.randint(lo, hi)


def gen_text(rng, exact, colon=False, force=None):
    """returns dict(lines=[str], keys=k).  force: optional (k, x) to plant."""
    k = rng.choice(list(range(1, 19)) + [4, 7, 10, 10])
    if force:
        k = force[0]
    lines = ["osu file format v14", ""]
    present = set(a for a in ATTRS if rng.random() < rng.choice([0.15, 0.35, 0.8]))
    colon_keys = set()
    if colon:
        strs = [a for a in ATTRS if a[2] == "s" and a[0] != "audio_file_name"]
        colon_keys = set(rng.sample(strs, rng.choice([1, 1, 2])))
        present |= colon_keys
    for sec in SECTIONS:
        attrs = [a for a in ATTRS if a[3] == sec and (a in present or a[1] == "CircleSize")]
        if not attrs and rng.random() < 0.3:
            continue
        lines.append(f"[{sec}]")
        for a in attrs:
            name, key, kind, _ = a
            if key == "CircleSize":
                v = rng.choice([str(k), str(k), f"{k}.0"])
            elif kind == "s":
                v = _phrase(rng, colon=a in colon_keys)
            elif kind == "i":
                v = str(rng.choice([0, 1, -1, 3, 4, 8, 16, 86398, 2062527, -5]))
                if key in ("AudioLeadIn", "BeatDivisor", "GridSize"):      # written with ':g' (6 significant digits)
                    v = str(rng.choice([0, 1, 2, 4, 8, 16, 500, 86398]))
                if key == "Mode":
                    v = "3"
            elif kind == "b":
                v = rng.choice(["0", "1"])
            elif kind == "e":
                v = rng.choice(SAMPLESETS + ["Soft", "Bogus"])
            elif kind == "f":
                v = rng.choice(["0.7", "1.4", "5", "7.5", "0.4", "1.9", "8", "9.2", "0", "2.5", "1"])
            else:
                v = " ".join(_word(rng).replace(" ", "_") for _ in range(rng.choice([0, 1, 3, 6])))
            sep = rng.choice([": ", ":", ": "] if sec in ("General", "Editor") else [":", ":", ": "])
            lines.append(f"{key}{sep}{v}")
        lines.append("")
    # events
    if rng.random() < 0.85:
        lines.append("[Events]")
        if rng.random() < 0.85:
            lines.append("//Background and Video events")
            bg = rng.choice(["BG.png", "bg 1.jpg", "背景.png", "", "a\"b.png", "x:y.png"])
            lines.append(f'0,0,"{bg}",0,0')
        lines.append("//Break Periods")
        if rng.random() < 0.5:
            lines.append("//Storyboard Layer 0 (Background)")
        if rng.random() < 0.7:
            lines.append("//Storyboard Sound Samples")
            for _ in range(rng.choice([0, 0, 1, 2, 3])):
                tm = _time(rng, exact)
                f = rng.choice(["clap.wav", "s 1.ogg", "ドン.wav"])
                lines.append(f'Sample,{_dec_text(tm, rng)},{rng.choice([0, 1, 2, 3])},"{f}",{rng.randint(0, 100)}')
        lines.append("")
    # timing points
    lines.append("[TimingPoints]")
    for _ in range(rng.choice([0, 1, 1, 2, 3, 5])):
        tm = _time(rng, exact)
        is_bpm = rng.random() < 0.5
        if exact:
            bl = _dec_text(rng.choice(BPM_EXACT_BL if is_bpm else SV_EXACT_BL), rng)
        else:
            bl = rng.choice(BPM_ROUND_BL if is_bpm else SV_ROUND_BL)
        lines.append(f"{_dec_text(tm, rng)},{bl},{rng.randint(1, 8)},{rng.randint(0, 3)},{rng.randint(0, 12)},"
                     f"{rng.randint(0, 100)},{1 if is_bpm else 0},{rng.choice([0, 0, 1])}")
        if rng.random() < 0.1:
            lines.append("")
    lines.append("")
    if rng.random() < 0.3:
        lines += ["[Colours]", "Combo1 : 255,0,0", "Combo2 : 0,128,255", ""]
    lines.append("")
    lines.append("[HitObjects]")
    nn = rng.choice([0, 1, 2, 4, 6, 9])
    if force:
        nn = max(nn, 1)
    for i in range(nn):
        c = rng.randrange(k)
        x = _x_for_column(rng, c, k)
        if force and i == 0:
            x = force[1]
        tm = _time(rng, exact)
        hs = rng.choice([0, 0, 2, 4, 8, 10, 15])
        ss, ads, ix, vol = rng.randint(0, 3), rng.randint(0, 3), rng.choice([0, 0, 1, 7, 99]), rng.choice([0, 0, 30, 70, 100])
        f = rng.choice(FILES)
        y = rng.choice([192, 192, 0, 384])
        if rng.random() < 0.6:
            ty = rng.choice([1, 1, 5])
            lines.append(f"{x},{y},{_dec_text(tm, rng if exact else None)},{ty},{hs},{ss}:{ads}:{ix}:{vol}:{f}")
        else:
            ty = rng.choice([128, 128, 132])
            en = tm + (Fr(rng.randint(0, 4000)) if rng.random() < 0.8 else _dyadic(rng, 0, 500))
            lines.append(f"{x},{y},{_dec_text(tm, rng if exact else None)},{ty},{hs},{_dec_text(en)}:{ss}:{ads}:{ix}:{vol}:{f}")
    # cosmetic noise: trailing blanks / CR / leading blanks (lines are stripped by the format)
    out = []
    for l in lines:
        r = rng.random()
        if r < 0.05:
            l = l + " "
        elif r < 0.08:
            l = l + "\r"
        elif r < 0.10:
            l = "\t" + l
        elif r < 0.11:
            l = l + "　"
        out.append(l)
        if rng.random() < 0.03 and l.strip() != "//Background and Video events":   # the NEXT line carries the background
            out.append("")
    return {"lines": out, "keys": k}


# ------------------------------------------------------------------------------------------ chart generation
def gen_chart(rng, exact, colon=False):
    k = rng.choice(list(range(1, 19)) + [4, 7])
    meta = {}
    for name, key, kind, _ in ATTRS:
        if kind == "s":
            meta[name] = _phrase(rng, colon=colon and name in ("title", "title_unicode", "version", "source") and rng.random() < 0.7)
        elif kind == "i":
            meta[name] = rng.choice([0, 1, -1, 3, 4, 8, 16, 86398, 206252, -5])
        elif kind == "b":
            meta[name] = rng.random() < 0.5
        elif kind == "e":
            meta[name] = rng.randint(0, 3)
        elif kind == "f":
            meta[name] = F.frac_json(Fr(rng.choice(["0.7", "1.4", "5", "7.5", "0.4", "1.9", "8", "9.2", "0", "2.5", "1", "0.125"])))
        else:
            meta[name] = [_word(rng).replace(" ", "_") for _ in range(rng.choice([0, 1, 3, 5]))]
    if colon and not any(":" in meta[n] for n in ("title", "title_unicode", "version", "source")):
        meta["title"] = "Re:Zero"
    meta["mode"] = 3
    meta["circle_size"] = F.frac_json(Fr(k))
    if rng.random() < 0.3:      # defaults stay
        for name in rng.sample([a[0] for a in ATTRS if a[0] != "circle_size"], 12):
            meta.pop(name, None)

    def off():
        t = _time(rng, exact)
        if not exact and rng.random() < 0.5:
            t = Fr(float(t) + rng.random())
        return Fr(float(t))

    def note(hold):
        d = dict(offset=F.frac_json(off()), column=rng.randrange(k), hitsound_set=rng.choice([0, 0, 2, 10]),
                 sample_set=rng.randint(0, 3), addition_set=rng.randint(0, 3), custom_set=rng.choice([0, 0, 5]),
                 volume=rng.choice([0, 0, 40, 100]), hitsound_file=rng.choice(FILES))
        if hold:
            ln = Fr(rng.randint(0, 3000)) if rng.random() < 0.5 else (_dyadic(rng, 0, 900) if exact else Fr(rng.random() * 900))
            d["length"] = F.frac_json(Fr(float(ln)))
        return d
    hits = [note(False) for _ in range(rng.choice([0, 1, 2, 4, 7]))]
    holds = [note(True) for _ in range(rng.choice([0, 0, 1, 2, 5]))]
    # ties between hits and holds, duplicates
    if hits and holds and rng.random() < 0.5:
        holds[0]["offset"] = hits[0]["offset"]
    if len(hits) >= 2 and rng.random() < 0.4:
        hits[-1]["offset"] = hits[0]["offset"]
    bpms, svs = [], []
    for _ in range(rng.choice([0, 1, 1, 2, 3])):
        if exact:
            bl = rng.choice(BPM_EXACT_BL)
            bpm = Fr(60000) / bl
        else:
            bpm = Fr(rng.choice([165.0, 133.33, 7.0, 222.22, -90.5, 1e-3, 999.999, 180.0]))
        bpms.append(dict(offset=F.frac_json(off()), bpm=F.frac_json(Fr(float(bpm))), metronome=rng.randint(1, 8),
                         sample_set=rng.randint(0, 3), sample_set_index=rng.choice([0, 1, 9]), volume=rng.randint(0, 100),
                         kiai=rng.random() < 0.3))
    for _ in range(rng.choice([0, 0, 1, 2, 4])):
        if exact:
            mul = Fr(-100) / rng.choice(SV_EXACT_BL)
        else:
            mul = Fr(rng.choice([0.75, 1.1, 3.0, 0.01, 10.0, -1.5, 1.3333333333333333]))
        svs.append(dict(offset=F.frac_json(off()), multiplier=F.frac_json(Fr(float(mul))), sample_set=rng.randint(0, 3),
                        sample_set_index=rng.choice([0, 2]), volume=rng.randint(0, 100), kiai=rng.random() < 0.3))
    samples = [dict(offset=F.frac_json(off()), sample_file=rng.choice(['"clap.wav"', '"s 1.ogg"', '"ドン.wav"', 'bare.wav']),
                    volume=rng.randint(0, 100)) for _ in range(rng.choice([0, 0, 1, 2]))]
    bg = rng.choice(["BG.png", "bg 1.jpg", "背景.png", "", "x:y.png"])
    return dict(meta=meta, bg=bg, samples=samples, bpms=bpms, svs=svs, hits=hits, holds=holds)


def _decolon(lines):
    """sibling text: the same text with every ':' inside an attribute VALUE replaced by ';'"""
    out = []
    for l in lines:
        key = l.split(":", 1)[0].strip()
        if ":" in l and key in {a[1] for a in ATTRS}:
            k, v = l.split(":", 1)
            l = k + ":" + v.replace(":", ";")
        out.append(l)
    return out


def generate(rng, tier):
    n = 60 if tier == "quick" else 1500
    cases = []
    # planted boundary: every key count with x on the exact column boundaries
    for k in range(1, 19):
        cases.append({"kind": "read", "exact": True, **gen_text(rng, True, force=(k, (512 * rng.randrange(k) + k - 1) // k))})
    cases.append({"kind": "read", "exact": True, **gen_text(rng, True, force=(10, 256))})
    cases.append({"kind": "read", "exact": True, **gen_text(rng, True, force=(10, 257))})
    for i in range(n * 2):
        exact = rng.random() < 0.7
        colon = rng.random() < 0.08
        t = gen_text(rng, exact, colon=colon)
        cases.append({"kind": "read", "exact": exact, **t})
        if colon:
            cases.append({"kind": "read", "exact": exact, "lines": _decolon(t["lines"]), "keys": t["keys"]})
    for i in range(n):
        exact = rng.random() < 0.7
        cases.append({"kind": "rw", "exact": exact, **gen_text(rng, exact, colon=rng.random() < 0.05)})
    for i in range(n * 2):
        exact = rng.random() < 0.7
        cases.append({"kind": "write", "exact": exact, "chart": gen_chart(rng, exact, colon=rng.random() < 0.1)})
    for i in range(n):
        exact = rng.random() < 0.7
        colon = rng.random() < 0.08
        ch = gen_chart(rng, exact, colon=colon)
        cases.append({"kind": "gen", "stage": rng.choice([1, 1, 2]), "exact": exact, "chart": ch})
        if colon:
            ch2 = copy.deepcopy(ch)
            for kk, v in ch2["meta"].items():
                if isinstance(v, str):
                    ch2["meta"][kk] = v.replace(":", ";")
            cases.append({"kind": "gen", "stage": 1, "exact": exact, "chart": ch2})
    # the witnesses of the C01_read_refuted_* theorems (Proofs/OsuRead.v): texts of the read dialect outside the strict
    # layout, where the reader is PROVED not to return the denoted chart; the correspondence check pins down that the
    # real reader behaves there exactly as the model says (raises / takes the foreign line / drops the timing line)
    T4 = ["[Difficulty]", "CircleSize:4", "[TimingPoints]", "[HitObjects]"]
    BGM, SMM = "//Background and Video events", "//Storyboard Sound Samples"
    for w in (["[Metadata]", "Title:a", "[Difficulty]", "Title:b", "CircleSize:4", "[TimingPoints]", "[HitObjects]"],
              ["[Metadata]", "Title"] + T4,
              ["[Difficulty]", "CircleSize:x", "CircleSize:4", "[TimingPoints]", "[HitObjects]"],
              ["[Metadata]", "Tags:a \t b"] + T4,
              T4[:2] + ["[Events]", BGM, '0,0,"a.png",0,0', BGM, '0,0,"b.png",0,0'] + T4[2:],
              T4[:2] + ["[Events]", BGM + ":x", '0,0,"a.png",0,0'] + T4[2:],
              T4[:2] + [BGM, '0,0,"a.png",0,0'] + T4[2:],
              T4[:2] + ["[Events]", SMM, 'SampleX,1,0,"a",70'] + T4[2:],
              T4[:2] + ["[Events]", SMM, "Sample"] + T4[2:],
              T4[:3] + ["0,500,4,0,0,0, 1,0"] + T4[3:],
              T4[:3] + ["[Colours]", "0,500,4,0,0,0,1,0"] + T4[3:]):
        cases.append({"kind": "read", "exact": True, "lines": w, "keys": 4})
    # a quarter of the cases goes through the FILE entry points OsuMap.read_file(path) / OsuMap.write_file(path)
    for c in cases:
        if rng.random() < 0.25:
            c["via_file"] = True
    # a few texts outside the dialect (both sides must raise)
    cases.append({"kind": "read", "exact": True, "via_file": True, "lines": ["osu file format v14", "[General]", "Mode: 3"], "keys": 4})
    cases.append({"kind": "read", "exact": True, "lines": [], "keys": 4})
    cases.append({"kind": "read", "exact": True, "lines": ["[Difficulty]", "CircleSize:4", "[TimingPoints]", "0,x,4,0,0,0,1,0",
                                                            "[HitObjects]"], "keys": 4})
    return cases


# ------------------------------------------------------------------------------------------ implementation side
def _fr(x):
    import numpy as np
    if isinstance(x, (bool, np.bool_)):
        return F.frac_json(int(x))
    return F.frac_json(Fr(float(x)) if not isinstance(x, (int, np.integer)) else Fr(int(x)))


def _int(x):
    if int(x) != x:
        raise ValueError(f"non-integral value {x!r} in an int-typed column")
    return int(x)


def dump_chart(m):
    meta = {}
    for name, key, kind, _ in ATTRS:
        v = getattr(m, name)
        if kind == "s":
            meta[name] = str(v)
        elif kind == "t":
            meta[name] = list(v) if not isinstance(v, str) else ([] if v == "" else v.split(" "))
        elif kind == "b":
            meta[name] = bool(v)
        else:
            meta[name] = _fr(v)

    def rows(lst, cols):
        df = lst.df
        out = []
        for _, r in df.iterrows():
            d = {}
            for c, kd in cols:
                v = r[c]
                d[c] = _fr(v) if kd == "q" else (_int(v) if kd == "z" else (bool(v) if kd == "b" else str(v)))
            out.append(d)
        return out
    NOTE = [("offset", "q"), ("column", "z"), ("hitsound_set", "z"), ("sample_set", "z"), ("addition_set", "z"),
            ("custom_set", "z"), ("volume", "z"), ("hitsound_file", "s")]
    return dict(
        meta=meta, bg=str(m.background_file_name),
        samples=rows(m.samples, [("offset", "q"), ("sample_file", "s"), ("volume", "z")]),
        bpms=rows(m.bpms, [("offset", "q"), ("bpm", "q"), ("metronome", "z"), ("sample_set", "z"), ("sample_set_index", "z"),
                           ("volume", "z"), ("kiai", "b")]),
        svs=rows(m.svs, [("offset", "q"), ("multiplier", "q"), ("sample_set", "z"), ("sample_set_index", "z"), ("volume", "z"),
                         ("kiai", "b")]),
        hits=rows(m.hits, NOTE), holds=rows(m.holds, NOTE + [("length", "q")]))


def build_map(ch):
    from reamber.osu.OsuMap import OsuMap
    from reamber.osu.OsuHit import OsuHit
    from reamber.osu.OsuHold import OsuHold
    from reamber.osu.OsuBpm import OsuBpm
    from reamber.osu.OsuSv import OsuSv
    from reamber.osu.OsuSample import OsuSample
    from reamber.osu.lists.OsuBpmList import OsuBpmList
    from reamber.osu.lists.OsuSvList import OsuSvList
    from reamber.osu.lists.OsuSampleList import OsuSampleList
    from reamber.osu.lists.notes.OsuHitList import OsuHitList
    from reamber.osu.lists.notes.OsuHoldList import OsuHoldList
    m = OsuMap()
    for name, key, kind, _ in ATTRS:
        if name not in ch["meta"]:
            continue
        v = ch["meta"][name]
        if kind == "f":
            v = float(F.frac_from_json(v))
        elif kind in ("i", "e"):
            v = int(v)
        setattr(m, name, v)
    m.background_file_name = ch["bg"]

    def conv(d):
        return {k: (float(F.frac_from_json(v)) if isinstance(v, list) else v) for k, v in d.items()}
    m.hits = OsuHitList([OsuHit(**conv(d)) for d in ch["hits"]])
    m.holds = OsuHoldList([OsuHold(**conv(d)) for d in ch["holds"]])
    m.bpms = OsuBpmList([OsuBpm(**conv(d)) for d in ch["bpms"]])
    m.svs = OsuSvList([OsuSv(**conv(d)) for d in ch["svs"]])
    m.samples = OsuSampleList([OsuSample(**conv(d)) for d in ch["samples"]])
    return m


def _uni(m):
    from unidecode import unidecode
    ut, ua = unidecode(m.title), unidecode(m.artist)
    for s in (ut, ua):      # oracle hypotheses, tested on every use: ASCII output, fixed point
        if any(ord(c) > 127 for c in s) or unidecode(s) != s:
            raise RuntimeError("unidecode oracle hypothesis violated")
    return ut, ua


def _file_lines(w):
    return "\n".join(w).split("\n")


EXPECTED = (ValueError, IndexError, ZeroDivisionError, AttributeError, TypeError, AssertionError)


def _read_map(lines, via_file):
    """OsuMap.read(lines), or - for the share of cases marked via_file - the text written to disk as UTF-8 (no newline
    translation by the harness) and read through the public OsuMap.read_file(path)"""
    from reamber.osu.OsuMap import OsuMap
    if not via_file:
        return OsuMap.read(list(lines))
    import os, tempfile
    with tempfile.TemporaryDirectory() as d:
        path = os.path.join(d, "map.osu")
        with open(path, "w", encoding="utf8", newline="") as f:
            f.write("\n".join(lines))
        return OsuMap.read_file(path)


def _items_from_file(content):
    """the text of a written file as the list OsuMap.write() returns: the blank lines in front of the two list headers are
    part of those items ("\n[TimingPoints]", "\n\n[HitObjects]"); anything of another shape is returned as plain lines and
    judged (and rejected) as such"""
    ls = content.split("\n")
    if "[TimingPoints]" in ls:
        i = ls.index("[TimingPoints]")
        if i >= 1 and ls[i - 1] == "":
            ls[i - 1:i + 1] = ["\n[TimingPoints]"]
    if "[HitObjects]" in ls:
        j = ls.index("[HitObjects]")
        if j >= 2 and ls[j - 1] == "" and ls[j - 2] == "":
            ls[j - 2:j + 1] = ["\n\n[HitObjects]"]
    return ls


def _write_map(m, via_file):
    """OsuMap.write(), or - via_file - OsuMap.write_file(path) and the file read back from disk as UTF-8 text (no newline
    translation), brought to the list form of write()"""
    if not via_file:
        return list(m.write())
    import os, tempfile
    with tempfile.TemporaryDirectory() as d:
        path = os.path.join(d, "map.osu")
        m.write_file(path)
        with open(path, "r", encoding="utf8", newline="") as f:
            content = f.read()
    return _items_from_file(content)


def execute(case):
    kind = case["kind"]
    vf = bool(case.get("via_file", False))
    if kind == "read":
        try:
            m = _read_map(case["lines"], vf)
        except EXPECTED as e:
            return {"v": None, "exc": type(e).__name__}
        except Exception as e:
            if "Bad File Format" in str(e):
                return {"v": None, "exc": "BadFileFormat"}
            raise
        return {"v": dump_chart(m)}
    if kind == "rw":
        m = _read_map(case["lines"], vf)
        ch = dump_chart(m)
        ut, ua = _uni(m)
        return {"chart": ch, "ut": ut, "ua": ua, "v": _write_map(m, vf)}
    if kind == "write":
        m = build_map(case["chart"])
        ch = dump_chart(m)
        ut, ua = _uni(m)
        try:
            w = _write_map(m, vf)
        except EXPECTED as e:
            return {"chart": ch, "ut": ut, "ua": ua, "v": None, "exc": type(e).__name__}
        return {"chart": ch, "ut": ut, "ua": ua, "v": w}
    if kind == "gen":
        m = build_map(case["chart"])
        w = _write_map(m, vf)
        for _ in range(case.get("stage", 1) - 1):
            w = _write_map(_read_map(_file_lines(w), vf), vf)
        m2 = _read_map(_file_lines(w), vf)
        ut, ua = _uni(m2)
        return {"w1": w, "w2": _write_map(m2, vf), "ut": ut, "ua": ua}
    raise ValueError(kind)


# ------------------------------------------------------------------------------------------ Coq side
def txt(s) -> str:
    return "[" + ";".join(str(ord(c)) for c in s) + "]%Z"


def txts(l) -> str:
    return "[" + ";".join(txt(s) for s in l) + "]"


def _q(p):
    return F.q(F.frac_from_json(p))


def _b(x):
    return "true" if x else "false"


def _note(d, hold):
    ln = _q(d["length"]) if hold else "0"
    return (f"mkNote {_q(d['offset'])} {F.z(d['column'])} {ln} {F.z(d['hitsound_set'])} {F.z(d['sample_set'])} "
            f"{F.z(d['addition_set'])} {F.z(d['custom_set'])} {F.z(d['volume'])} {txt(d['hitsound_file'])}")


def coq_chart(ch) -> str:
    mv = []
    for name, key, kind, _ in ATTRS:
        v = ch["meta"][name]
        if kind == "s":
            mv.append(f"MStr {txt(v)}")
        elif kind == "t":
            mv.append(f"MTags {txts(v)}")
        elif kind == "b":
            mv.append(f"MBool {_b(v)}")
        else:
            mv.append(f"MNum {_q(v)}")
    samples = [f"mkSample {_q(d['offset'])} {txt(d['sample_file'])} {F.z(d['volume'])}" for d in ch["samples"]]
    bpms = [f"mkBpm {_q(d['offset'])} {_q(d['bpm'])} {F.z(d['metronome'])} {F.z(d['sample_set'])} {F.z(d['sample_set_index'])} "
            f"{F.z(d['volume'])} {_b(d['kiai'])}" for d in ch["bpms"]]
    svs = [f"mkSv {_q(d['offset'])} {_q(d['multiplier'])} {F.z(d['sample_set'])} {F.z(d['sample_set_index'])} "
           f"{F.z(d['volume'])} {_b(d['kiai'])}" for d in ch["svs"]]
    hits = [_note(d, False) for d in ch["hits"]]
    holds = [_note(d, True) for d in ch["holds"]]
    return (f"(mkChart {F.lst(mv)} {txt(ch['bg'])} {F.lst(samples)} {F.lst(bpms)} {F.lst(svs)} "
            f"{F.lst(hits)} {F.lst(holds)})")


def emit(case, out):
    kind = case["kind"]
    tol = "0" if case.get("exact", True) else "(1#1000000000)"
    if kind == "read":
        o = "None" if out["v"] is None else f"(Some {coq_chart(out['v'])})"
        return f"CRead {tol} {txts(case['lines'])} {o}"
    if kind in ("rw", "write"):
        o = "None" if out["v"] is None else f"(Some {txts(out['v'])})"
        return f"CWrite {tol} {coq_chart(out['chart'])} {txt(out['ut'])} {txt(out['ua'])} {o}"
    if kind == "gen":
        return f"CGen {tol} {txts(out['w1'])} {txts(out['w2'])} {txt(out['ut'])} {txt(out['ua'])}"
    raise ValueError(kind)


# ------------------------------------------------------------------------------------------ bookkeeping
def _rows(case, out):
    if case["kind"] in ("read", "rw"):
        ls = [l.strip() for l in case["lines"]]
        return sum(1 for l in ls if l.count(",") in (5, 7))
    ch = case["chart"]
    return len(ch["hits"]) + len(ch["holds"]) + len(ch["bpms"]) + len(ch["svs"])


def nontrivial(case, out):
    return _rows(case, out) >= 1


def bucket(case, out):
    k = case["kind"] + ("" if case.get("exact", True) else "-rounded") + ("-file" if case.get("via_file") else "")
    if case["kind"] in ("read", "rw"):
        k += f"/keys={case.get('keys')}"
    else:
        k += f"/keys={F.frac_from_json(case['chart']['meta']['circle_size']).numerator}"
    if out.get("v", 0) is None:
        k += "/exc"
    return k


def classify(case, out, kind):
    """no defect of the tree is currently known for C01 (findings/C01.json: both entries are 'fixed');
    every violation is reported"""
    return None


def describe(case, out):
    return f"{case['kind']} exact={case.get('exact', True)} keys={case.get('keys')} rows={_rows(case, out)}"


def shrink(case):
    if case["kind"] in ("read", "rw"):
        ls = case["lines"]
        for i in range(len(ls)):
            s = ls[i].strip()
            if s in ("[TimingPoints]", "[HitObjects]", "[Difficulty]") or s.startswith("CircleSize"):
                continue
            c = dict(case); c["lines"] = ls[:i] + ls[i + 1:]
            yield c
    else:
        ch = case["chart"]
        for fld in ("hits", "holds", "bpms", "svs", "samples"):
            for i in range(len(ch[fld])):
                c = copy.deepcopy(case); del c["chart"][fld][i]
                yield c
        for name in list(ch["meta"].keys()):
            if name != "circle_size":
                c = copy.deepcopy(case); del c["chart"]["meta"][name]
                yield c
