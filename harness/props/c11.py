"""C11: reseating tempo changes onto measure lines.  Exact stream only (Fractions): float noise legitimately
changes the list shape (rem = 0 vs 4e-16), so structure is compared in exact arithmetic."""
from fractions import Fraction as Fr
import itertools

from .. import coqfmt as F

ID = "C11"
RUNNER = "Corr.RunC11"
CASE_TYPE = "c11case"
RUNNER_TARGETS = ["Corr/RunC11.vo"]
PROOF_TARGETS = ["Props/C11.vo"]
PROPS_FILE = "Props/C11.v"
PROPS_MODULE = "Props.C11"
RULE = ("exhaustive enumeration of tempo lists on the half-beat grid (quick: <=2 changes after the first within 3 measures x 3 bpm "
        "pairs x metronomes {3,4}; thorough: <=3 changes) plus seeded random lists on grids 1/3,1/4,1/7,1/16,1/96,1/1000 "
        "(1..6 changes, shared metronome 1..8, any initial offset); lists with TIES = two or three changes on ONE position, one or two "
        "tie groups, grids 1/2,1/3,1/4, also on the first change, in seated lists and given shuffled (domain wf_ties of theorems T1-T7: "
        "structural equality with the model + the proven oracle reseat_tiesb); the implementation runs on fractions.Fraction; "
        "non-trivial = at least one change off a measure line; distinct by hash of canonical JSON")
ASSUMPTIONS = [
    "exact arithmetic only: the implementation is executed on fractions.Fraction (RAConst.MIN_TO_MSEC patched to Fraction(60000) "
    "in the harness process); binary64 behaviour of reseat is not claimed (float noise changes which branch is taken)",
    "lists mixing metronomes at off-line positions are outside the claimed domain (explored by correspondence only)",
    "ties (two or more changes on one position): covered by the theorems on the domain wf_ties with the same input guards (a tie "
    "is a gap of 0 beats and takes no branch); 'the bpm after a tie' is read with the timeline semantics: of tied changes the LAST "
    "in (stably sorted) list order is in force (active_at); the strict-domain oracle clause bpm_kept, which reads the FIRST result "
    "point at a time, does not apply to ties (refuted as a reading, theorem T7) and is replaced by refinesb/ActiveLastP",
]
TRUSTED = []
MANIFEST = dict(
    text="Coq model of reseat_bpm_changes_snap (fuelled loop, three branches with replace/insert sub-cases), "
         "from_bpm_changes_snap(reseat=True) and TimingMap.reseat, tied to the code on every run by structural equality on exact "
         "rationals. Proved for ALL tempo lists in the domain wf_unseated (first change at measure 0 beat 0, strictly increasing "
         "positions, positive bpm, one shared integer metronome 1..8), Props/C11.v: (1) termination: the loop never exhausts "
         "fuel 2*len+2, on every branch (each original interval costs at most two passes); (2) under the input guard "
         "reseat_guard (every gap's measure/beat remainder is 0 or > 0.001, or lies in the extend window with >= 1 whole "
         "measure before it, or in the beat window with the gap shorter than one measure) the result exists, every point is "
         "on a measure line with measures strictly increasing from 0, every original time is a tempo point in order, at most "
         "one extra point lies strictly inside each original interval and none outside, length <= 2n-1, the bpm is kept "
         "after a whole number of measures, elapsed time between originals is unchanged, result times strictly increase, and "
         "from_bpm_changes_snap(init, l, reseat=True) puts its tempo points at init + the result's times for any initial offset; "
         "no_extend (no extend branch taken) is the special case; (3) a seated list is returned with the same times and bpms, "
         "no guard needed; (4) the boolean oracle reseat_specb is sound for the clause-by-clause Prop statement on any "
         "pair of lists and accepts every model output in the guarded domain; (5) the two known findings are theorems with "
         "concrete witnesses outside the guard (extend-by-metronome insertion loses the original time; a gap below 0.001 "
         "measure raises or yields non-increasing measures). TIES (two or more changes on one position; domain wf_ties = the same "
         "with NON-decreasing positions, same guards since a zero-length gap takes no branch): (T1) termination; (T2) under the guard "
         "the result exists, every point is on a measure line, measures never decrease and stay equal exactly where times stay equal, "
         "which happens only across a tie of the input; every original change is matched in order by a result point at its time, a tie "
         "by two adjacent points in the input's (stable-sort) order, the earlier keeping its bpm; at most one extra point strictly "
         "inside each original interval, none outside; bpm kept after a whole number of measures; elapsed time unchanged; result "
         "times non-decreasing; same for from_bpm_changes_snap(init, l, reseat=True); (T3) the bpm in force after a tie is that of the "
         "LAST change of the tie group (its image is the last result point at that time and is in force until the next result "
         "point; it carries the change's bpm whenever a whole number of measures follows or a point is inserted); (T4) a seated list "
         "with ties on measure lines is returned with the same length, times and bpms, no guard; (T5) the oracle reseat_tiesb used "
         "for tie cases is sound for all of this on ANY output and complete for the structural spec (refinesb decides the timeline "
         "refinement); (T7) false with ties, as readings of the statement not as code defects: 'bpm at time t' = bpm of the FIRST "
         "result point at t, and strictly increasing result times. The oracle is evaluated in Coq on the implementation's output.",
    note="Trusted: Coq kernel+VM, harness generator/serialiser; exact-arithmetic stream only (binary64 not claimed). Not proved: "
         "oracle completeness, necessity of the guard (observed exact on 6000 outputs), TimingMap.reseat() beyond correspondence.",
    technique="Coq proof over executable model (loop = structural function by list surgery, per-gap arithmetic lemma, "
              "timeline refinement by induction) + vm_compute correspondence and oracle on implementation output",
    design="4/C11")

BPMS = [Fr(120), Fr(175), Fr(311, 2), Fr(60), Fr(200), Fr(13333, 100), Fr(90), Fr(222, 7)]


def _mk_case(kind, met, positions, bpms, init=None):
    l = []
    for (pos, bpm) in zip(positions, bpms):
        m, b = int(pos // met), pos % met
        l.append({"bpm": F.frac_json(bpm), "met": met, "m": m, "b": F.frac_json(b)})
    c = {"kind": kind, "l": l}
    if init is not None:
        c["init"] = F.frac_json(init)
    return c


def generate(rng, tier):
    cases = []
    # exhaustive half-beat grid
    maxn = 2 if tier == "quick" else 3
    for met in ([4, 3] if tier == "quick" else [4, 3, 2, 5]):
        grid = [Fr(k, 2) for k in range(1, 2 * met * 3 + 1)]
        for n in range(0, maxn + 1):
            for pos in itertools.combinations(grid, n):
                for bp in ([(0, 1, 2, 3), (2, 0, 1, 0), (1, 1, 1, 1)] if (tier != "quick" or n <= 2) else [(0, 1, 2, 3)]):
                    if tier == "quick" and n == 2 and rng.random() < 0.6:
                        continue
                    if tier != "quick" and n == 3 and rng.random() < 0.8:
                        continue
                    bpms = [BPMS[i] for i in bp][: n + 1]
                    cases.append(_mk_case("reseat", met, (Fr(0),) + pos, bpms))
    # extend-window inputs: gaps of k measures / k beats plus a tiny remainder around the 0.001 threshold
    for _ in range(150 if tier == "quick" else 6000):
        met = rng.choice([4, 4, 3, 5, 6, 8, 1, 2])
        n = rng.choice([2, 3, 3, 4])
        pos = [Fr(0)]
        for _k in range(n - 1):
            eps = rng.choice([Fr(1, 1000), Fr(1, 2000), Fr(1, 4000), Fr(3, 4000), Fr(1, 10000), Fr(1001, 1000000), Fr(1, 999)])
            if rng.random() < 0.5:
                eps = eps * met
            base = rng.choice([Fr(rng.randint(1, 3 * met)), Fr(rng.randint(1, 6 * met), 2), Fr(rng.randint(1, 3)) * met,
                               Fr(0) if rng.random() < 0.1 else Fr(1)])
            step = base + (eps if rng.random() < 0.7 else 0)
            if step == 0:
                step = eps
            pos.append(pos[-1] + step)
        bpms = [rng.choice(BPMS) for _ in pos]
        cases.append(_mk_case("reseat", met, pos, bpms))
    # two or more changes on ONE position (ties): domain wf_ties of the tie theorems (Props/C11.v T1-T7).  Grids 1/2, 1/3, 1/4
    # with metronomes 3,4,5 keep every gap remainder a multiple of 1/20 or more, far from the 0.001 extend window, so the
    # guard of the theorem holds; one or two tie groups of 2-3 changes, sometimes on the first change (measure 0 beat 0),
    # sometimes in an already seated list (ties on measure lines), sometimes given shuffled (the function sorts stably, so
    # the order among tied changes is the input order and decides which bpm is in force after the tie)
    for _ in range(120 if tier == "quick" else 3000):
        met = rng.choice([4, 4, 3, 5])
        n = rng.choice([1, 2, 3, 3, 4])
        if rng.random() < 0.2:
            grid = [Fr(k * met) for k in range(1, 6)]                     # seated list
        else:
            g = rng.choice([2, 2, 3, 4])
            grid = [Fr(k, g) for k in range(1, g * met * 3 + 1)]
        pos = [Fr(0)] + sorted(rng.sample(grid, min(n, len(grid))))
        for _g in range(rng.choice([1, 1, 1, 2])):
            j = rng.randrange(len(pos)) if rng.random() < 0.15 else rng.randrange(1, len(pos))
            for _k in range(rng.choice([1, 1, 1, 2])):
                pos.insert(j, pos[j])
        bpms = rng.sample(BPMS, min(len(pos), len(BPMS)))
        while len(bpms) < len(pos):
            bpms.append(rng.choice(BPMS))
        c = _mk_case("reseat_tie", met, pos, bpms)
        if rng.random() < 0.3:
            rng.shuffle(c["l"])
        cases.append(c)
    # random finer grids
    n_rand = 250 if tier == "quick" else 8000
    for _ in range(n_rand):
        met = rng.choice([4, 4, 4, 3, 1, 2, 5, 6, 7, 8])
        n = rng.choice([1, 2, 2, 3, 3, 4, 5, 6])
        d = rng.choice([1, 2, 3, 4, 7, 16, 96, 1000, 1000, 4000, 48])
        pos = {Fr(0)}
        while len(pos) < n:
            pos.add(Fr(rng.randint(1, 6 * met * d), d))
        pos = sorted(pos)
        bpms = [rng.choice(BPMS) if rng.random() < 0.7 else Fr(rng.randint(3000, 40000), 100) for _ in pos]
        r = rng.random()
        if r < 0.7:
            c = _mk_case("reseat", met, pos, bpms)
            if rng.random() < 0.2:
                rng.shuffle(c["l"])          # the function sorts by snap itself
            cases.append(c)
        elif r < 0.85:
            cases.append(_mk_case("from_reseat", met, pos, bpms,
                                  init=rng.choice([Fr(0), Fr(rng.randint(-5000, 5000)), Fr(rng.randint(-10 ** 5, 10 ** 5), 64)])))
        else:
            # TimingMap.reseat(): positions on the 1/96 grid so that snaps re-derive
            d2 = rng.choice([1, 2, 3, 4, 8, 12, 16, 32, 48, 96])
            pos2 = {Fr(0)}
            while len(pos2) < n:
                pos2.add(Fr(rng.randint(1, 6 * met * d2), d2))
            c = _mk_case("tm_reseat", met, sorted(pos2), bpms, init=Fr(rng.randint(-2000, 2000)))
            if rng.random() < 0.5:
                c["history"] = True
            cases.append(c)
    return cases


def _mk(l):
    from reamber.algorithms.timing.utils.BpmChangeSnap import BpmChangeSnap
    from reamber.algorithms.timing.utils.snap import Snap
    return [BpmChangeSnap(F.frac_from_json(c["bpm"]), c["met"], Snap(c["m"], F.frac_from_json(c["b"]), c["met"])) for c in l]


def _bcsj(b):
    return {"bpm": F.frac_json(Fr(b.bpm)), "met": F.frac_json(Fr(b.metronome)),
            "m": int(b.snap.measure), "b": F.frac_json(Fr(b.snap.beat)), "smet": F.frac_json(Fr(b.snap.metronome))}


def _bcoj(b):
    return {"bpm": F.frac_json(Fr(b.bpm)), "met": F.frac_json(Fr(b.metronome)), "off": F.frac_json(Fr(b.offset))}


def execute(case):
    from reamber.base.RAConst import RAConst
    from reamber.algorithms.timing.TimingMap import TimingMap
    old = RAConst.MIN_TO_MSEC
    RAConst.MIN_TO_MSEC = Fr(60000)
    try:
        try:
            if case["kind"] in ("reseat", "reseat_tie"):
                r = TimingMap.reseat_bpm_changes_snap(_mk(case["l"]))
                out = {"v": [_bcsj(b) for b in r]}
                # which branch family was involved (for classification only)
                try:
                    from reamber.algorithms.timing.utils.reseat_bpm_changes_snap import reseat_bpm_changes_snap
                    r0 = reseat_bpm_changes_snap(_mk(case["l"]), extend_threshold=0)
                    out["extend_involved"] = [_bcsj(b) for b in r0] != out["v"]
                except Exception:
                    out["extend_involved"] = True
                return out
            init = F.frac_from_json(case["init"])
            if case["kind"] == "from_reseat":
                tm = TimingMap.from_bpm_changes_snap(init, _mk(case["l"]), reseat=True)
                return {"v": [_bcoj(b) for b in tm.bpm_changes_offset]}
            if case["kind"] == "tm_reseat":
                tm0 = TimingMap.from_bpm_changes_snap(init, _mk(case["l"]), reseat=False)
                if case.get("history"):
                    # the SAME tempo list reached through a history of the map object: the map is first built with other
                    # values, queried (anything derived from the list may be remembered), then its changes are set in place
                    want = [(b.offset, b.bpm, b.metronome) for b in tm0.bpm_changes_offset]
                    from reamber.algorithms.timing.utils.snap import Snap
                    for k, b in enumerate(tm0.bpm_changes_offset):
                        if k:
                            b.offset = b.offset + Fr(k, 7)
                            b.bpm = b.bpm * 2
                    tm0.bpm_changes_snap()
                    tm0.offsets([Snap(0, 0, case["l"][0]["met"])])
                    for b, (o, bp, me) in zip(tm0.bpm_changes_offset, want):
                        b.offset, b.bpm, b.metronome = o, bp, me
                bco_in = [_bcoj(b) for b in tm0.bpm_changes_offset]
                tm = tm0.reseat()
                return {"bco_in": bco_in, "v": [_bcoj(b) for b in tm.bpm_changes_offset]}
        except (IndexError, ValueError, ZeroDivisionError) as e:
            out = {"v": None, "exc": type(e).__name__ + ": " + str(e)[:100]}
            if case["kind"] in ("reseat", "reseat_tie"):
                out["extend_involved"] = True
            if case["kind"] == "tm_reseat":
                try:
                    out["bco_in"] = bco_in
                except NameError:
                    out["bco_in"] = []
            return out
        raise ValueError("unknown kind")
    finally:
        RAConst.MIN_TO_MSEC = old


def _bcs_in(c):
    met = F.q(c["met"])
    return f"(mkBcs {F.q(F.frac_from_json(c['bpm']))} {met} (mkSnap {F.z(c['m'])} {F.q(F.frac_from_json(c['b']))} {met}))"


def _bcs_out(b):
    return (f"(mkBcs {F.q(F.frac_from_json(b['bpm']))} {F.q(F.frac_from_json(b['met']))} "
            f"(mkSnap {F.z(b['m'])} {F.q(F.frac_from_json(b['b']))} {F.q(F.frac_from_json(b['smet']))}))")


def _bco(b):
    return f"(mkBco {F.q(F.frac_from_json(b['bpm']))} {F.q(F.frac_from_json(b['met']))} {F.q(F.frac_from_json(b['off']))})"


def emit(case, out):
    l = F.lst([_bcs_in(c) for c in case["l"]])
    if case["kind"] == "reseat":
        return f"CReseat {l} {F.opt(out['v'], lambda v: F.lst([_bcs_out(b) for b in v]))}"
    if case["kind"] == "reseat_tie":
        return f"CReseatTie {l} {F.opt(out['v'], lambda v: F.lst([_bcs_out(b) for b in v]))}"
    if case["kind"] == "from_reseat":
        return f"CFromReseat {F.q(F.frac_from_json(case['init']))} {l} {F.opt(out['v'], lambda v: F.lst([_bco(b) for b in v]))}"
    if case["kind"] == "tm_reseat":
        return f"CTmReseat {F.lst([_bco(b) for b in out['bco_in']])} {F.opt(out['v'], lambda v: F.lst([_bco(b) for b in v]))}"
    raise ValueError(case["kind"])


def nontrivial(case, out):
    return any(F.frac_from_json(c["b"]) != 0 for c in case["l"])


def bucket(case, out):
    k = f"{case['kind']}/n={len(case['l'])}"
    if out.get("v") is None:
        k += "/exc"
    if out.get("extend_involved"):
        k += "/extend"
    if case["kind"] == "reseat":
        br = set(_trace(case))
        for t in ("measure-replace", "measure-insert", "beat-replace", "beat-insert", "measure-extend-quo0", "beat-zero-met"):
            if t in br:
                k += "/" + t
    return k


def _trace(case, thr=Fr(1, 1000)):
    """Instrumentation only (classification of findings): replays the loop of reseat_bpm_changes_snap on
    exact fractions and records which branch each pass takes.  It follows the structure of the pinned code."""
    l = sorted([dict(bpm=F.frac_from_json(c["bpm"]), met=Fr(c["met"]), m=c["m"], b=F.frac_from_json(c["b"])) for c in case["l"]],
               key=lambda c: (c["m"], c["b"]))
    offs = [Fr(0)]
    for a, b in zip(l[:-1], l[1:]):
        offs.append(offs[-1] + Fr(60000) / a["bpm"] * ((b["m"] - a["m"]) * a["met"] + (b["b"] - a["b"])))
    i, measure, br = 0, 0, []
    guard = 0
    while i != len(l) - 1 and guard < 100:
        guard += 1
        b0, o0, o1 = l[i], offs[i], offs[i + 1]
        bl = Fr(60000) / b0["bpm"]
        ml = bl * b0["met"]
        od = o1 - o0
        md, bd = od / ml, od / bl
        bq, brm, mq, mr = bd // 1, bd % 1, md // 1, md % 1
        measure += mq
        if 0 < mr <= thr:
            c = dict(bpm=b0["bpm"] / (mr + 1), met=b0["met"], m=measure - 1, b=Fr(0))
            off = (mq - 1) * ml + o0
            if mq == 0:
                br.append("measure-extend-quo0")
            if measure - 1 < 0:
                br.append("measure-neg")
                return br
            if mq == 1:
                l[i], offs[i] = c, off
                br.append("measure-replace")
            else:
                measure -= 1
                l.insert(i + 1, c)
                offs.insert(i + 1, off)
                br.append("measure-insert")
        elif 0 < brm <= thr:
            met = bq % b0["met"]
            if met == 0:
                br.append("beat-zero-met")
                return br
            c = dict(bpm=b0["bpm"] / ((brm + met) / met), met=met, m=measure, b=Fr(0))
            off = o1 - met * bl
            if mq == 0:
                l[i], offs[i] = c, off
                measure += 1
                br.append("beat-replace")
            else:
                l.insert(i + 1, c)
                offs.insert(i + 1, off)
                br.append("beat-insert")
        elif mr > thr:
            c = dict(bpm=b0["bpm"] / mr, met=b0["met"], m=measure, b=Fr(0))
            off = mq * ml + o0
            if mq == 0:
                l[i], offs[i] = c, off
                measure += 1
                br.append("part-replace")
            else:
                l.insert(i + 1, c)
                offs.insert(i + 1, off)
                br.append("part-insert")
        else:
            br.append("whole")
        l[i + 1]["m"], l[i + 1]["b"] = measure, Fr(0)
        i += 1
    return br


def classify(case, out, kind):
    if case["kind"] != "reseat":
        return None
    br = _trace(case)
    if "measure-extend-quo0" in br or "measure-neg" in br:
        return "reseat-gap-below-extend-threshold"
    if "beat-zero-met" in br:
        return "reseat-extend-metronome-zero"
    if "beat-insert" in br:
        return "reseat-extend-metronome-insert-offset"
    return None


def describe(case, out):
    return f"{case['kind']} n={len(case['l'])} extend={out.get('extend_involved')} exc={out.get('exc')}"


def shrink(case):
    if len(case["l"]) > 2:
        for i in range(1, len(case["l"])):
            c = dict(case)
            c["l"] = case["l"][:i] + case["l"][i + 1:]
            yield c
