"""C07: O2Jam .ojn reading.  The generator builds an abstract OJN file (header values + per difficulty
packages with sparse 4-byte events), lays it down with struct.pack (independently of the Coq encoder; Coq
re-checks  bytes == encode_file F ++ trailing), and feeds the bytes to O2JMapSet.read / read_file.
Exact stream (tol 0): slot counts and all tempo values are powers of two, so every float operation of the
reader is exact.  Rounded stream: tolerance 1e-6 ms (i/n and 4*dm/bpm are rounded by binary64)."""
import os
import struct
import tempfile
from fractions import Fraction as Fr

from .. import coqfmt as F

ID = "C07"
RUNNER = "Corr.RunC07"
CASE_TYPE = "c07case"
RUNNER_TARGETS = ["Corr/RunC07.vo"]
PROOF_TARGETS = ["Props/C07.vo"]
PROPS_FILE = "Props/C07.v"
PROPS_MODULE = "Props.C07"
RULE = ("seeded generator of abstract OJN files: 300-byte header (boundary ints, float32 incl. denormals, strings: ascii / "
        "non-ascii bytes / full width / empty), 3 difficulties, 0..25 packages each in a random merge of per-channel measure-ordered "
        "queues, slot counts 1..192 (powers of two in the exact stream), 0..6 tempo events at any position (measure 0 slot 0, "
        "mid-measure, exactly at a note's position (same or an equivalent slot fraction), after the last note, shuffled packages), taps / long notes spanning packages and measures on all 7 columns, "
        "autoplay channels, trailing bytes; a quarter of the cases (well-formed and malformed alike) is written to disk in a "
        "tempfile.TemporaryDirectory and read with O2JMapSet.read_file(path), the rest with O2JMapSet.read(bytes); plus a malformed stream (truncation, orphan tail, channel 0, "
        "wrong package counts) checked for correspondence only.  Non-trivial = at least one note or tempo event or a non-default "
        "header string; distinct by hash of the canonical JSON of the case")
ASSUMPTIONS = [
    "binary64 rounding inside the reader is not modelled: exact stream = powers of two (equality), rounded stream = tolerance 1e-6 ms",
    "float positions i/n + measure preserve order and equality of the exact positions (n <= 192, measure < 2^20: distinct "
    "positions differ by > 2e-5, far above one ulp)",
    "float32 -> binary64 widening by struct.unpack is exact (IEEE); inf/nan bit patterns are not generated",
]
TRUSTED = ["python struct.pack as the reference encoder of ints/floats (cross-checked in Coq against encode_file on every case)"]
MANIFEST = dict(
    text="Machine-checked theorems (Coq 8.16.1) about an executable Gallina model of reamber's OJN reader on bytes "
         "(header by the live layout table, package loop, float32 decode, hold buffer, measure->ms sweep).  Proved for ALL "
         "well-formed files and any trailing bytes (C07_ojn_read_denotes / C07_ojn_read_meets_spec): the reader applied to the "
         "laid-out bytes succeeds and returns what the file denotes under the format semantics (DESIGN B.5): header fields as "
         "laid out, per difficulty the same taps and long notes (paired head to tail per column across packages) up to row order "
         "and the same tempo rows, every time being the piecewise-linear integral of beat length over header tempo and all tempo "
         "events (after the last note and exactly at a note included; <= vs < proved immaterial).  Parts proved separately: "
         "header decoding inverts the 300-byte layout (live layout table = reference), package parser inverts the package layout, "
         "little-endian and binary32 decode lemmas, one hold buffer = per-column pairing, sweep = integration, oracle soundness; "
         "oracle completeness at tolerance 0 (C07_specb_complete: specb 0 decides the specification) and at any tolerance when the "
         "rows the file denotes are separated (C07_specb_complete_separated; decidable guard on the denotation), refuted without the "
         "guard (C07_specb_complete_refuted: greedy matcher, two taps 1 ms apart at tolerance 1); the one hold buffer shared by all "
         "difficulties is unobservable on well-formed files (C07_hold_buffer_sharing_unobservable) and observable on a malformed one "
         "(C07_open_head_closed_in_next_difficulty; the real reader returns the same long note).  "
         "The model is tied to the code on every run by in-Coq correspondence on generated OJN byte strings (equality with the "
         "model is demanded) and the format oracle ojn_denote is evaluated on the implementation's output.",
    note="The reader of the tree before commits 9171148/d4c1412 is refuted with concrete witnesses kept in corpus/C07 (fixed: a regression "
         "raises a VIOLATION).  Trusted: Coq kernel+VM, generator/serialiser, struct.pack as reference encoder (cross-checked against the Coq "
         "encoder on every case); binary64 rounding inside the reader measured (1e-6 ms; exact stream on powers of two) not proved; "
         "the theorems are about the model, the code is tied to it by the per-run correspondence.  The boolean oracle (and py_oracle, the "
         "same greedy first-fit matcher) is sound for every tolerance but complete only at tolerance 0 or on separated denotations: "
         "outside that it could raise a false alarm, never miss a violation; generated files are separated (times > 4e-3 ms apart vs 1e-6).",
    technique="Coq proof over executable byte-level model + vm_compute correspondence + reference-interpreter oracle",
    design="4/C07, B.5")

TOL = Fr(1, 10 ** 6)
EXC = None  # filled lazily (struct.error needs import only)


def _f32(x):
    return struct.unpack("<f", struct.pack("<f", x))[0]


def _bits(v):
    return struct.unpack("<I", struct.pack("<f", v))[0]


def _from_bits(w):
    return struct.unpack("<f", struct.pack("<I", w))[0]


# ------------------------------------------------------------------ building bytes (reference encoder)
def build_header(h, package_count):
    out = b""
    out += struct.pack("<i", h["song_id"])
    out += bytes(h["signature"]).ljust(4, b"\0")
    out += struct.pack("<f", _from_bits(h["encode_version"]))
    out += struct.pack("<i", h["genre"])
    out += struct.pack("<f", _from_bits(h["bpm"]))
    out += struct.pack("<4h", *h["level"])
    for k in ("event_count", "note_count", "measure_count"):
        out += struct.pack("<3i", *h[k])
    out += struct.pack("<3i", *package_count)
    out += struct.pack("<h", h["old_encode_version"])
    out += struct.pack("<h", h["old_song_id"])
    out += bytes(h["old_genre"]).ljust(20, b"\0")
    out += struct.pack("<i", h["bmp_size"])
    out += struct.pack("<i", h["old_file_version"])
    out += bytes(h["title"]).ljust(64, b"\0")
    out += bytes(h["artist"]).ljust(32, b"\0")
    out += bytes(h["noter"]).ljust(32, b"\0")
    out += bytes(h["ojm_file"]).ljust(32, b"\0")
    out += struct.pack("<i", h["cover_size"])
    out += struct.pack("<3i", *h["time"])
    out += struct.pack("<3i", *h["note_offset"])
    out += struct.pack("<i", h["cover_offset"])
    return out


def build_pkg(p):
    n = p["n"]
    ev = dict((s, bytes(b)) for s, b in p["ev"])
    return struct.pack("<ihh", p["m"], p["ch"], n) + b"".join(ev.get(i, b"\0\0\0\0") for i in range(max(n, 0)))


def build_bytes(case):
    counts = [len(l) for l in case["levels"]]
    post = case.get("post") or {}
    if "pkgcount" in post:
        counts = post["pkgcount"]
    b = build_header(case["hdr"], counts)
    for l in case["levels"]:
        for p in l:
            b += build_pkg(p)
    b += bytes(case.get("trail", []))
    if "truncate" in post:
        b = b[:post["truncate"]]
    return b


# ------------------------------------------------------------------ generator
I32 = [0, 1, -1, 2 ** 31 - 1, -2 ** 31, 300, 65536, 19256]
I16 = [0, 1, -1, 2 ** 15 - 1, -2 ** 15, 29, 178]
SLOTS = [1, 2, 3, 4, 5, 6, 7, 8, 9, 12, 16, 24, 32, 48, 64, 96, 192]
SLOTS2 = [1, 2, 4, 8, 16, 32, 64, 128]
BPM2 = [16.0, 32.0, 64.0, 128.0, 256.0, 512.0]


def _i32(rng):
    return rng.choice(I32) if rng.random() < 0.5 else rng.randint(-2 ** 31, 2 ** 31 - 1)


def _i16(rng):
    return rng.choice(I16) if rng.random() < 0.5 else rng.randint(-2 ** 15, 2 ** 15 - 1)


def _str(rng, width):
    r = rng.random()
    if r < 0.15:
        return []
    if r < 0.55:
        k = rng.randint(1, min(width, 14))
        return [rng.choice(b"abcXYZ 019-_!.") for _ in range(k)]
    if r < 0.7:  # full width, no terminator
        return [rng.randint(33, 126) for _ in range(width)]
    if r < 0.9:  # multi-byte encodings (EUC-KR / GBK / Shift-JIS style): bytes >= 0x80 mixed with ascii
        k = rng.randint(1, min(width, 12))
        return [rng.choice([rng.randint(0x80, 0xFF), rng.randint(0x21, 0x7E)]) for _ in range(k)]
    k = rng.randint(1, width)
    return [rng.randint(1, 255) for _ in range(k)]


def _bpm(rng, exact):
    if exact:
        return rng.choice(BPM2)
    r = rng.random()
    if r < 0.4:
        return float(rng.choice([60, 75, 90, 100, 120, 130, 150, 160, 175, 180, 200, 240, 300, 400]))
    if r < 0.7:
        return rng.randint(120, 1600) / 4
    if r < 0.9:
        return _f32(rng.uniform(40, 400))
    return _f32(rng.choice([133.33, 2.9 * 40, 999.0, 15.5, 187.77]))


def _header(rng, exact):
    r = rng.random()
    if r < 0.5:
        ev = _bits(_f32(2.9))
    elif r < 0.7:
        ev = rng.choice([0, 1, 2 ** 23 - 1, 2 ** 23, 0x80000000, 0x80000001, 0x7F7FFFFF, 0xFF7FFFFF, 0x3F800000])
    else:
        ev = rng.randint(0, 2 ** 32 - 1)
        if (ev >> 23) & 0xFF == 255:
            ev ^= 1 << 23
    return {
        "song_id": _i32(rng), "signature": rng.choice([[111, 106, 110], [111, 106, 110], _str(rng, 4)]),
        "encode_version": ev, "genre": rng.choice([0, 2, 10, _i32(rng)]), "bpm": _bits(_bpm(rng, exact)),
        "level": [_i16(rng) for _ in range(4)],
        "event_count": [_i32(rng) for _ in range(3)], "note_count": [_i32(rng) for _ in range(3)],
        "measure_count": [_i32(rng) for _ in range(3)],
        "old_encode_version": _i16(rng), "old_song_id": _i16(rng),
        "old_genre": rng.choice([[], [0] * 19 + [1], [rng.randint(0, 255) for _ in range(rng.randint(1, 20))]]),
        "bmp_size": _i32(rng), "old_file_version": _i32(rng),
        "title": _str(rng, 64), "artist": _str(rng, 32), "noter": _str(rng, 32), "ojm_file": _str(rng, 32),
        "cover_size": _i32(rng), "time": [_i32(rng) for _ in range(3)], "note_offset": [_i32(rng) for _ in range(3)],
        "cover_offset": _i32(rng),
    }


def _note(rng, kind):
    val = rng.choice([1, 2, 300, -1, 32767, -32768, rng.randint(1, 2000)])
    return list(struct.pack("<hBB", val, rng.randint(0, 255) if rng.random() < 0.5 else rng.choice([0, 0x08, 0xF0, 0x0F]), kind))


def _slots(rng, exact):
    if exact:
        return rng.choice(SLOTS2)
    return rng.choice(SLOTS) if rng.random() < 0.8 else rng.randint(1, 192)


def _tempo_pkgs(rng, exact, positions):
    """positions: list of (m, i, n) pairwise distinct as rationals.  One package per event, or several events
    sharing a package when they have the same (m, n)."""
    groups = {}
    for (m, i, n) in positions:
        groups.setdefault((m, n), []).append(i)
    pk = []
    for (m, n), sl in groups.items():
        ev = [[i, list(struct.pack("<f", _bpm(rng, exact)))] for i in sorted(set(sl))]
        if rng.random() < 0.2 and n > 1:  # an explicit "no event" (0.0 / -0.0) slot
            free = [i for i in range(n) if i not in set(sl)]
            if free:
                ev.append([rng.choice(free), list(struct.pack("<f", rng.choice([0.0, -0.0])))])
                ev.sort()
        pk.append({"m": m, "ch": 1, "n": n, "ev": ev})
    rng.shuffle(pk)
    return pk


def _distinct_positions(rng, exact, k, max_m, force_zero, first_gt0=False):
    pos, seen = [], set()
    if force_zero:
        n = _slots(rng, exact)
        pos.append((0, 0, n)); seen.add(Fr(0))
    tries = 0
    while len(pos) < k and tries < 50:
        tries += 1
        n = _slots(rng, exact)
        m = rng.randint(0, max_m)
        i = rng.choice([0, 0, rng.randrange(n)])
        q = Fr(m) + Fr(i, n)
        if q in seen or (q == 0 and first_gt0):
            continue
        seen.add(q); pos.append((m, i, n))
    return pos


def _note_pkgs(rng, exact, measures, budget, cols=None):
    """per-column package queues (strictly increasing measures), heads and tails alternate, all closed."""
    cols = cols if cols is not None else rng.sample(range(7), rng.choice([1, 2, 3, 7]))
    queues = []
    for c in cols:
        q, open_ = [], False
        for m in measures:
            if budget[0] <= 0 or rng.random() > 0.6:
                continue
            n = _slots(rng, exact)
            k = min(n, rng.choice([1, 1, 2, 3]))
            ev = []
            for s in sorted(rng.sample(range(n), k)):
                if open_:
                    r = rng.random()
                    if r < 0.6:
                        ev.append([s, _note(rng, 3)]); open_ = False
                    elif r < 0.7:
                        ev.append([s, _note(rng, 0)])      # a tap while a long note is open (format allows it)
                else:
                    if rng.random() < 0.45:
                        ev.append([s, _note(rng, 2)]); open_ = True
                    else:
                        ev.append([s, _note(rng, 0)])
                budget[0] -= 1
            if rng.random() < 0.1 and n > len(ev):  # explicit disabled slot with junk in the other bytes
                used = {e[0] for e in ev}
                free = [i for i in range(n) if i not in used]
                ev.append([rng.choice(free), [0, 0, rng.randint(0, 255), rng.choice([0, 2, 3])]]); ev.sort()
            q.append({"m": m, "ch": c + 2, "n": n, "ev": ev})
        if open_:
            last = (q[-1]["m"] if q else -1)
            mm = max(last, measures[-1] if measures else 0) + rng.choice([1, 1, 2])
            n = _slots(rng, exact)
            q.append({"m": mm, "ch": c + 2, "n": n, "ev": [[rng.randrange(n), _note(rng, 3)]]})
        queues.append(q)
    return queues


def _merge(rng, queues):
    queues = [list(q) for q in queues if q]
    out = []
    if rng.random() < 0.5:  # the order real files use: by measure, then channel
        allp = [p for q in queues for p in q]
        allp.sort(key=lambda p: (p["m"], p["ch"]))
        return allp
    while queues:
        q = rng.choice(queues)
        out.append(q.pop(0))
        if not q:
            queues.remove(q)
    return out


def _level(rng, exact, style):
    budget = [rng.randint(1, 12)]
    if style == "empty":
        q = []
        if rng.random() < 0.4:
            q.append([{"m": rng.randint(0, 3), "ch": rng.randint(9, 22), "n": 2, "ev": [[1, _note(rng, 0)]]}])
        if rng.random() < 0.4:
            q.append(_tempo_pkgs(rng, exact, [(0, 0, _slots(rng, exact))]))
        return _merge(rng, q)
    if style == "two_positions":
        # tempo at position 0 (+ later ones), notes only at position 0 and at one position P after every tempo
        k = rng.choice([1, 1, 2, 3])
        tp = _distinct_positions(rng, exact, k, 3, True)
        lastq = max(Fr(m) + Fr(i, n) for m, i, n in tp)
        n = _slots(rng, exact)
        m = int(lastq) + rng.choice([1, 2])
        i = rng.randrange(n)
        cols = rng.sample(range(7), rng.choice([1, 2, 4, 7]))
        queues = [_tempo_pkgs(rng, exact, tp)]
        for c in cols:
            r = rng.random()
            if r < 0.5:
                queues.append([{"m": m, "ch": c + 2, "n": n, "ev": [[i, _note(rng, 0)]]}])
            elif r < 0.65:
                n0 = _slots(rng, exact)
                queues.append([{"m": 0, "ch": c + 2, "n": n0, "ev": [[0, _note(rng, 2)]]},
                               {"m": m, "ch": c + 2, "n": n, "ev": [[i, _note(rng, 3)]]}])
            else:
                n0 = _slots(rng, exact)
                queues.append([{"m": 0, "ch": c + 2, "n": n0, "ev": [[0, _note(rng, 0)]]},
                               {"m": m, "ch": c + 2, "n": n, "ev": [[i, _note(rng, 0)]]}])
        return _merge(rng, queues)
    nm = rng.choice([1, 2, 3, 4, 6])
    start = rng.choice([0, 0, 1, 5])
    measures = list(range(start, start + nm))
    queues = _note_pkgs(rng, exact, measures, budget)
    if style == "notempo":
        k, zero, gt0 = 0, False, False
    elif style == "latefirst":
        k, zero, gt0 = rng.randint(1, 4), False, True
    elif style == "tempo0":
        k, zero, gt0 = rng.randint(1, 4), True, False
    else:
        k, zero, gt0 = rng.randint(0, 6), rng.random() < 0.4, False
    tp = _distinct_positions(rng, exact, k, start + nm + 2, zero, gt0)
    if style != "notempo" and rng.random() < 0.6:
        # tempo events EXACTLY at note positions (same slot fraction, or an equivalent one with another slot count)
        notes_at = [(p["m"], e[0], p["n"]) for q in queues for p in q for e in p["ev"]]
        seen = {Fr(m) + Fr(i, n) for m, i, n in tp}
        for (m, i, n) in rng.sample(notes_at, min(len(notes_at), rng.choice([1, 1, 2, 3]))):
            if Fr(m) + Fr(i, n) in seen or (gt0 and Fr(m) + Fr(i, n) == 0) or len(tp) >= 6:
                continue
            seen.add(Fr(m) + Fr(i, n))
            f = rng.choice([1, 1, 2, 3]) if not exact else rng.choice([1, 1, 2, 4])
            tp.append((m, i * f, n * f) if n * f <= 192 else (m, i, n))
    if tp:
        queues.append(_tempo_pkgs(rng, exact, tp))
    if rng.random() < 0.2:
        queues.append([{"m": rng.randint(0, 3), "ch": rng.randint(9, 22), "n": 4, "ev": [[2, _note(rng, rng.choice([0, 2, 3]))]]}])
    return _merge(rng, queues)


def _case(rng):
    exact = rng.random() < 0.45
    r = rng.random()
    if r < 0.06:
        styles = ["empty"] * 3
    else:
        styles = [rng.choice(["general", "general", "general", "general", "notempo", "latefirst", "tempo0", "two_positions", "empty"])
                  for _ in range(3)]
    case = {"exact": exact, "hdr": _header(rng, exact), "levels": [_level(rng, exact, s) for s in styles],
            "trail": [rng.randint(0, 255) for _ in range(rng.choice([0, 0, 0, 1, 7, 30]))],
            "api": "read_file" if rng.random() < 0.25 else "read", "wf": True}
    return case


def _malform(rng, case):
    case = dict(case, wf=False)
    r = rng.random()
    nb = len(build_bytes(case))
    if r < 0.3:
        case["post"] = {"truncate": rng.choice([0, 299, 300, 304, 308, max(300, nb - len(case["trail"]) - 1),
                                               rng.randint(0, max(0, nb - 1))])}
    elif r < 0.5:
        c = [len(l) for l in case["levels"]]
        j = rng.randrange(3)
        c[j] += rng.choice([1, -1, 5, -100])
        case["post"] = {"pkgcount": c}
    elif r < 0.7:  # orphan tail
        lv = [list(l) for l in case["levels"]]
        lv[rng.randrange(3)].insert(0, {"m": 0, "ch": rng.randint(2, 8), "n": 1, "ev": [[0, _note(rng, 3)]]})
        case["levels"] = lv
    elif r < 0.85:  # measure-fraction package (excluded by the property)
        lv = [list(l) for l in case["levels"]]
        lv[rng.randrange(3)].append({"m": 1, "ch": 0, "n": 1, "ev": [[0, list(struct.pack("<f", 0.75))]]})
        case["levels"] = lv
    else:  # head left open at the end of a difficulty, closed in the next one (buffer is shared)
        lv = [list(l) for l in case["levels"]]
        c = rng.randint(2, 8)
        lv[0].append({"m": 90, "ch": c, "n": 1, "ev": [[0, _note(rng, 2)]]})
        lv[1].insert(0, {"m": 0, "ch": c, "n": 2, "ev": [[1, _note(rng, 3)]]})
        case["levels"] = lv
    return case


def generate(rng, tier):
    n = 330 if tier == "quick" else 9000
    cases = []
    for _ in range(n):
        c = _case(rng)
        if rng.random() < 0.08:
            c = _malform(rng, c)
        cases.append(c)
    return cases


# ------------------------------------------------------------------ implementation side
def _rows(df, cols):
    out = []
    for rec in df[cols].values.tolist():
        row = []
        for v in rec:
            fv = float(v)
            if fv != fv or fv in (float("inf"), float("-inf")):
                raise ValueError("non-finite value in implementation output")
            row.append(F.frac_json(Fr(fv)))
        out.append(row)
    return out


def _ints(l):
    return [int(x) for x in l]


def execute(case):
    from reamber.o2jam.O2JMapSet import O2JMapSet
    b = build_bytes(case)
    try:
        if case.get("api") == "read_file":
            with tempfile.TemporaryDirectory() as tmp:
                path = os.path.join(tmp, "case.ojn")
                with open(path, "wb") as f:
                    f.write(b)
                ms = O2JMapSet.read_file(path)
        else:
            ms = O2JMapSet.read(b)
    except (TypeError, KeyError, IndexError, AttributeError, struct.error, ZeroDivisionError) as e:
        return {"v": None, "exc": type(e).__name__ + ": " + str(e)[:100]}
    for x in (ms.encode_version, ms.bpm):
        if x != x or x in (float("inf"), float("-inf")):
            raise ValueError("non-finite header float")
    hdr = {
        "song_id": int(ms.song_id), "signature": [ord(c) for c in ms.signature],
        "encode_version": F.frac_json(Fr(ms.encode_version)), "genre": int(ms.genre), "bpm": F.frac_json(Fr(ms.bpm)),
        "level": _ints(ms.level), "event_count": _ints(ms.event_count), "note_count": _ints(ms.note_count),
        "measure_count": _ints(ms.measure_count), "package_count": _ints(ms.package_count),
        "old_encode_version": int(ms.old_encode_version), "old_song_id": int(ms.old_song_id),
        "old_genre": list(ms.old_genre), "bmp_size": int(ms.bmp_size), "old_file_version": int(ms.old_file_version),
        "title": [ord(c) for c in ms.title], "artist": [ord(c) for c in ms.artist],
        "creator": [ord(c) for c in ms.creator], "ojm_file": [ord(c) for c in ms.ojm_file],
        "cover_size": int(ms.cover_size), "duration": _ints(ms.duration), "note_offset": _ints(ms.note_offset),
        "cover_offset": int(ms.cover_offset),
    }
    maps = []
    for m in ms.maps:
        maps.append({"hits": _rows(m.hits.df, ["column", "offset", "volume", "pan"]) if len(m.hits) else [],
                     "holds": _rows(m.holds.df, ["column", "offset", "length", "volume", "pan"]) if len(m.holds) else [],
                     "bpms": _rows(m.bpms.df, ["offset", "bpm"])})
    return {"v": {"hdr": hdr, "maps": maps}}


# ------------------------------------------------------------------ Coq side
def _zl(l):
    return "[" + ";".join(str(int(x)) if int(x) >= 0 else f"({int(x)})" for x in l) + "]"


def _zi(x):
    x = int(x)
    return str(x) if x >= 0 else f"({x})"


def _qj(p):
    n, d = p
    return f"(({n})#{d})" if n < 0 else f"({n}#{d})"


def _chunks(b):
    out, i, n = [], 0, len(b)
    raw = []
    while i < n:
        j = i
        while j < n and b[j] == b[i]:
            j += 1
        if j - i >= 6:
            if raw:
                out.append("Raw " + _zl(raw)); raw = []
            out.append(f"Rep {b[i]} {j - i}")
        else:
            raw.extend(b[i:j])
        i = j
    if raw:
        out.append("Raw " + _zl(raw))
    return "[" + "; ".join(out) + "]"


def _fhdr(h):
    return ("(mkFHdr " + " ".join([
        _zi(h["song_id"]), _zl(h["signature"]), _zi(h["encode_version"]), _zi(h["genre"]), _zi(h["bpm"]), _zl(h["level"]),
        _zl(h["event_count"]), _zl(h["note_count"]), _zl(h["measure_count"]), _zi(h["old_encode_version"]),
        _zi(h["old_song_id"]), _zl(h["old_genre"]), _zi(h["bmp_size"]), _zi(h["old_file_version"]), _zl(h["title"]),
        _zl(h["artist"]), _zl(h["noter"]), _zl(h["ojm_file"]), _zi(h["cover_size"]), _zl(h["time"]), _zl(h["note_offset"]),
        _zi(h["cover_offset"])]) + ")")


def _fpkg(p):
    ev = "[" + ";".join(f"({s},{_zl(b)})" for s, b in p["ev"]) + "]"
    return f"mkPkg {_zi(p['m'])} {_zi(p['ch'])} {_zi(p['n'])} {ev}"


def _ohdr(h):
    return ("(mkOHdr " + " ".join([
        _zi(h["song_id"]), _zl(h["signature"]), _qj(h["encode_version"]), _zi(h["genre"]), _qj(h["bpm"]), _zl(h["level"]),
        _zl(h["event_count"]), _zl(h["note_count"]), _zl(h["measure_count"]), _zl(h["package_count"]),
        _zi(h["old_encode_version"]), _zi(h["old_song_id"]), _zl(h["old_genre"]), _zi(h["bmp_size"]),
        _zi(h["old_file_version"]), _zl(h["title"]), _zl(h["artist"]), _zl(h["creator"]), _zl(h["ojm_file"]),
        _zi(h["cover_size"]), _zl(h["duration"]), _zl(h["note_offset"]), _zi(h["cover_offset"])]) + ")")


def _zq(p):
    """an integer-valued cell (column / volume / pan) as Z; the frame may have floated it"""
    f = F.frac_from_json(p)
    if f.denominator != 1:
        raise ValueError("non-integral column/volume/pan in implementation output")
    return _zi(f.numerator)


def _omap(m):
    hits = "[" + ";".join(f"mkHit {_zq(r[0])} {_qj(r[1])} {_zq(r[2])} {_zq(r[3])}" for r in m["hits"]) + "]"
    holds = "[" + ";".join(f"mkHold {_zq(r[0])} {_qj(r[1])} {_qj(r[2])} {_zq(r[3])} {_zq(r[4])}" for r in m["holds"]) + "]"
    bpms = "[" + ";".join(f"mkBpm {_qj(r[0])} {_qj(r[1])}" for r in m["bpms"]) + "]"
    return f"mkOMap {hits} {holds} {bpms}"


def emit(case, out):
    tol = "0" if case["exact"] else "(1#1000000)"
    f = "(mkFile " + _fhdr(case["hdr"]) + " [" + "; ".join("[" + "; ".join(_fpkg(p) for p in l) + "]" for l in case["levels"]) + "])%Z"
    trail = _zl(case.get("trail", [])) + "%Z"
    bts = _chunks(build_bytes(case)) + "%Z"
    v = out["v"]
    if v is None:
        o = "None"
    else:
        o = "(Some (mkOSet " + _ohdr(v["hdr"]) + " [" + "; ".join(_omap(m) for m in v["maps"]) + "])%Z)"
    return f"CRead {tol} {f} {trail} {bts} {o}"


# ------------------------------------------------------------------ python reference (oracle + classification)
def _level_events(case):
    """What the package loop extracts, per level, in flattened package order, with the reader's float positions.
    Raises KeyError for an orphan tail."""
    hb = {}
    lvls = []
    for l in case["levels"]:
        evs = []
        for p in l:
            n, m, ch = p["n"], p["m"], p["ch"]
            ev = dict((s, bytes(b)) for s, b in p["ev"])
            for i in range(max(n, 0)):
                d = ev.get(i, b"\0\0\0\0")
                if 2 <= ch <= 8:
                    if struct.unpack("<h", d[:2])[0] == 0:
                        continue
                    pos = i / n + m
                    vol, pan, kind, col = d[2] // 16, d[2] % 16, d[3], ch - 2
                    if kind == 0:
                        evs.append(["hit", pos, col, vol, pan])
                    elif kind == 2:
                        hb[col] = ["hold", pos, None, col, vol, pan]
                    elif kind == 3:
                        h = hb.pop(col)
                        h[2] = pos
                        evs.append(h)
                elif ch == 1:
                    b = struct.unpack("<f", d)[0]
                    if b == 0:
                        continue
                    evs.append(["bpm", i / n + m, b])
        lvls.append(evs)
    return lvls


def _mirror_level(evs, init_bpm, fixed, trunc):
    """read_pkgs in floats: the loop of the pinned tree (fixed=False) or the repaired loop."""
    evs = sorted(evs, key=lambda e: e[1])
    notes = [e for e in evs if e[0] != "bpm"]
    nms = sorted({e[1] for e in notes} | {e[2] for e in notes if e[0] == "hold"})
    bpms = [e for e in evs if e[0] == "bpm"]
    boff = [0.0] * len(bpms)
    offset, measure, bpm_val = 0, 0, init_bpm
    d = {}
    if not fixed:
        bpm_ix = -1
        nxt = bpms[0][1] if bpms else None
        for nm in nms:
            if not nxt:
                while nm > nxt:   # TypeError when nxt is None
                    bpm_ix += 1
                    offset += float((bpms[bpm_ix][1] - measure) * 4 / bpm_val * 60000.0)
                    boff[bpm_ix] = offset
                    measure, bpm_val = bpms[bpm_ix][1], bpms[bpm_ix][2]
                    if bpm_ix + 1 == len(bpms):
                        nxt = None
                        break
                    nxt = bpms[bpm_ix][1]
            d[nm] = offset + float(4 * (nm - measure) / bpm_val * 60000.0)
    else:
        ix = 0
        for nm in nms + [None]:
            while ix < len(bpms) and (nm is None or bpms[ix][1] <= nm):
                offset += float((bpms[ix][1] - measure) * 4 / bpm_val * 60000.0)
                boff[ix] = offset
                measure, bpm_val = bpms[ix][1], bpms[ix][2]
                ix += 1
            if nm is not None:
                d[nm] = offset + float(4 * (nm - measure) / bpm_val * 60000.0)
    hits = [[e[2], d[e[1]], e[3], e[4]] for e in notes if e[0] == "hit"]
    holds = []
    for e in notes:
        if e[0] == "hold":
            o, ln = d[e[1]], d[e[2]] - d[e[1]]
            if trunc and float(o).is_integer():
                ln = float(int(ln))
            holds.append([e[3], o, ln, e[4], e[5]])
    return {"hits": hits, "holds": holds, "bpms": [[0.0, init_bpm]] + [[o, b[2]] for o, b in zip(boff, bpms)]}


def _mirror(case, fixed, trunc):
    """(list of level outputs, None) or (levels done so far, exception name)"""
    init = _from_bits(case["hdr"]["bpm"])
    try:
        lv = _level_events(case)
    except KeyError:
        return [], "KeyError"
    out = []
    for evs in lv:
        try:
            out.append(_mirror_level(evs, init, fixed, trunc))
        except TypeError:
            return out, "TypeError"
        except ZeroDivisionError:
            return out, "ZeroDivisionError"
    return out, None


def _denote_level(l, init):
    """the format's meaning of one difficulty in exact arithmetic (independent of the reader's algorithm)"""
    tempos = []
    for p in l:
        if p["ch"] == 1:
            for s, b in p["ev"]:
                v = struct.unpack("<f", bytes(b))[0]
                if v != 0:
                    tempos.append((Fr(p["m"]) + Fr(s, p["n"]), Fr(v)))
    tempos.sort()

    def time(q):
        t, p0, bpm = Fr(0), Fr(0), init
        for (p1, b1) in tempos:
            if p1 <= q:
                t += (p1 - p0) * 4 * 60000 / bpm
                p0, bpm = p1, b1
        return t + (q - p0) * 4 * 60000 / bpm
    hits, holds = [], []
    for c in range(7):
        open_ = None
        for p in l:
            if p["ch"] != c + 2:
                continue
            for s, b in sorted(p["ev"]):
                if struct.unpack("<h", bytes(b[:2]))[0] == 0:
                    continue
                q = Fr(p["m"]) + Fr(s, p["n"])
                if b[3] == 0:
                    hits.append([c, time(q), b[2] // 16, b[2] % 16])
                elif b[3] == 2:
                    open_ = (q, b[2] // 16, b[2] % 16)
                elif b[3] == 3 and open_ is not None:
                    holds.append([c, time(open_[0]), time(q) - time(open_[0]), open_[1], open_[2]])
                    open_ = None
    return {"hits": hits, "holds": holds, "bpms": [[Fr(0), init]] + [[time(p), b] for p, b in tempos]}


def _rows_match(a, b, tols):
    """multiset match: a = expected rows (numbers), b = rows (numbers); tols per field"""
    b = list(b)
    if len(a) != len(b):
        return False
    for x in a:
        for j, y in enumerate(b):
            if all(abs(Fr(u) - Fr(v)) <= t for u, v, t in zip(x, y, tols)):
                del b[j]
                break
        else:
            return False
    return True


def _level_match(exp, got, tol, skip_len=False):
    g = {k: [[F.frac_from_json(v) for v in r] for r in got[k]] for k in ("hits", "holds", "bpms")}
    return (_rows_match(exp["hits"], g["hits"], [0, tol, 0, 0])
            and _rows_match(exp["holds"], g["holds"], [0, tol, (10 ** 9 if skip_len else 2 * tol), 0, 0])
            and _rows_match(exp["bpms"], g["bpms"], [tol, 0]))


def _expected_hdr(case):
    h = case["hdr"]

    def s(l):
        l = list(l)
        if 0 in l:
            l = l[:l.index(0)]
        return [b for b in l if b < 128]
    return {"song_id": h["song_id"], "signature": s(h["signature"]), "encode_version": F.frac_json(Fr(_from_bits(h["encode_version"]))),
            "genre": h["genre"], "bpm": F.frac_json(Fr(_from_bits(h["bpm"]))), "level": h["level"], "event_count": h["event_count"],
            "note_count": h["note_count"], "measure_count": h["measure_count"], "package_count": [len(l) for l in case["levels"]],
            "old_encode_version": h["old_encode_version"], "old_song_id": h["old_song_id"],
            "old_genre": list(h["old_genre"]) + [0] * (20 - len(h["old_genre"])), "bmp_size": h["bmp_size"],
            "old_file_version": h["old_file_version"], "title": s(h["title"]), "artist": s(h["artist"]), "creator": s(h["noter"]),
            "ojm_file": s(h["ojm_file"]), "cover_size": h["cover_size"], "duration": h["time"], "note_offset": h["note_offset"],
            "cover_offset": h["cover_offset"]}


def _tol(case):
    return Fr(0) if case["exact"] else TOL


def py_oracle(case, out):
    """direct re-check of the property on the implementation's output (well-formed cases only)"""
    if not case.get("wf"):
        return None
    v = out.get("v")
    if v is None:
        return False
    if v["hdr"] != _expected_hdr(case) or len(v["maps"]) != 3:
        return False
    init = Fr(_from_bits(case["hdr"]["bpm"]))
    tol = _tol(case)
    return all(_level_match(_denote_level(l, init), g, tol) for l, g in zip(case["levels"], v["maps"]))


def _tempo_class(l):
    pos = [Fr(p["m"]) + Fr(s, p["n"]) for p in l if p["ch"] == 1 for s, b in p["ev"] if struct.unpack("<f", bytes(b))[0] != 0]
    if not pos:
        return "none"
    return "zero" if min(pos) == 0 else "late"


def classify(case, out, kind):
    """Diagnosis only: all five defects are FIXED in /repo (9171148, d4c1412), findings/C07.json lists them with
    status "fixed", so a key returned here suppresses nothing -- it labels a VIOLATION as a regression to one of
    the old behaviours (the output is EXACTLY what the python mirror of the old loop / truncating setter produces)."""
    if kind != "spec" or not case.get("wf"):
        return None
    v = out.get("v")
    tol = max(_tol(case), Fr(1, 10 ** 9))
    now, exc = _mirror(case, False, True)
    if v is None:
        if exc == "TypeError" and str(out.get("exc", "")).startswith("TypeError"):
            cls = _tempo_class(case["levels"][len(now)])
            return "ojn-no-tempo-event-typeerror" if cls == "none" else "ojn-tempo-at-measure-0-typeerror"
        return None
    if v["hdr"] != _expected_hdr(case) or len(v["maps"]) != 3:
        return None
    init = Fr(_from_bits(case["hdr"]["bpm"]))
    truth = [_denote_level(l, init) for l in case["levels"]]
    bad = [i for i in range(3) if not _level_match(truth[i], v["maps"][i], tol)]
    if not bad:
        return None
    if exc is None and all(_level_match(now[i], v["maps"][i], tol) for i in range(3)):
        i = bad[0]
        if _level_match(truth[i], v["maps"][i], tol, skip_len=True):
            return "ojn-hold-length-truncated"
        return "ojn-tempo-sweep-measure-0-off-by-one" if _tempo_class(case["levels"][i]) == "zero" else "ojn-tempo-sweep-never-advances"
    fx, exc2 = _mirror(case, True, True)
    if exc2 is None and all(_level_match(fx[i], v["maps"][i], tol) for i in range(3)):
        return "ojn-hold-length-truncated"
    return None


def nontrivial(case, out):
    if any(p["ev"] for l in case["levels"] for p in l):
        return True
    return bool(case["hdr"]["title"])


def bucket(case, out):
    k = ("exact" if case["exact"] else "rounded") + ("" if case.get("wf") else "/malformed")
    k += "/tempo=" + ",".join(_tempo_class(l) for l in case["levels"])
    if out.get("v") is None:
        k += "/exc=" + str(out.get("exc", "?")).split(":")[0]
    if case.get("api") == "read_file":
        k += "/read_file"
    return k


def describe(case, out):
    return (f"ojn exact={case['exact']} wf={case.get('wf')} api={case.get('api')} packages={[len(l) for l in case['levels']]} "
            f"tempo={[_tempo_class(l) for l in case['levels']]} post={case.get('post')} "
            f"exc={out.get('exc') if out else None}")


def shrink(case):
    lv = case["levels"]
    for j in range(3):
        if lv[j]:
            c = dict(case); c["levels"] = [([] if k == j else lv[k]) for k in range(3)]
            yield c
    for j in range(3):
        for i in range(len(lv[j])):
            c = dict(case)
            c["levels"] = [(lv[k][:i] + lv[k][i + 1:] if k == j else lv[k]) for k in range(3)]
            yield c
    for j in range(3):
        for i, p in enumerate(lv[j]):
            for e in range(len(p["ev"])):
                q = dict(p); q["ev"] = p["ev"][:e] + p["ev"][e + 1:]
                c = dict(case)
                c["levels"] = [(lv[k][:i] + [q] + lv[k][i + 1:] if k == j else lv[k]) for k in range(3)]
                yield c
    if case.get("trail"):
        c = dict(case); c["trail"] = []
        yield c
    h = case["hdr"]
    for k in ("title", "artist", "noter", "ojm_file", "old_genre"):
        if h[k]:
            c = dict(case); c["hdr"] = dict(h, **{k: []})
            yield c
