"""C14: query / generate / convert / write operations never modify their inputs; documented copies share no
mutable state.  Static side: harness/tables/effects.py translates the source of every listed operation into an effect
program and Coq decides purity / ownership on it (Props/C14.v obligations).  Dynamic side (this file): every listed
operation is run on random charts/lists of all games, once and in sequences; all
arguments are deep-snapshotted (values, columns, dtypes, row labels, list pointers, metadata fields) before and
after; results documented as copies are probed for shared state (identity, shared memory, in-place mutation of
the result followed by a re-comparison of the arguments).  Coq compares the observation with the store model and
with the static verdicts of the programs the call ran (an operation the analysis calls pure must be observed pure)."""
import copy
import math
import random

import numpy as np
import pandas as pd

from .. import coqfmt as F
from .. import maps as M

ID = "C14"
RUNNER = "Corr.RunC14"
CASE_TYPE = "c14case"
RUNNER_TARGETS = ["Corr/RunC14.vo"]
PROOF_TARGETS = ["Props/C14.vo"]
PROPS_FILE = "Props/C14.v"
PROPS_MODULE = "Props.C14"
RULE = ("every listed operation (filter after/before/between/[mask], slice, sorted, append, move_start_to/move_end_to, deepcopy, item access, "
        "Map.rate, MapSet.rate, the 16 converters, write of osu/Quaver/StepMania/BMS, full_ln, hitsound_copy, sv_normalize, scroll_speed, "
        "dominant_bpm, Pattern.from_note_lists/group/combinations) on random charts and lists of all five games, singly and in sequences (plus degenerate arguments: an appended list with no rows; a result of sorted / append / a boolean filter that IS its argument counts as sharing state) "
        "of 2-4 operations on the same inputs; one observation per call, compared with the store model AND with the verdicts of the static "
        "effect analysis for the reamber functions the call ran; non-trivial = an argument has >= 2 rows in some list")
ASSUMPTIONS = [
    "an argument is 'changed' when anything reachable from it differs afterwards: cell values, column names/order, dtypes, row labels, "
    "the DataFrame object a list points to, the list objects of a chart, metadata fields",
    "results documented as copies: deepcopy, rate, move_start_to/move_end_to, conversion (and ConvertBase.cast), full_ln, hitsound_copy; "
    "for the other operations only 'inputs unchanged' is claimed (TimedList(tl) and stack() alias by design and are not in the claim)",
    "static tie: each listed operation and every reamber function it reaches is translated from the source of the tree under test into an "
    "effect program (alloc / alias / load / hold / write / call / return; anything unclassified is EUnknown and fails); calls are resolved BY "
    "NAME to every definition in the package (no receiver types), recursion is folded onto the running activation; what builtin / pandas / "
    "numpy callees do comes from the reviewed tables in harness/tables/effects.py (printed in docs/C14.md)",
    "the analysis is flow-insensitive and field-insensitive over one abstract object ARG (all arguments and what they reach) and one "
    "object per allocation site; parameters annotated with an immutable type (float, int, bool, str, bytes) are values, not arguments; "
    "dataclass fields / attributes annotated with an immutable type hold values (annotations are trusted for that); dict keys are immutable",
    "the soundness theorem is about the store abstraction (objects with versions): Python's heap, pandas' copy/view behaviour and object-"
    "dtype cells are covered by the tables and re-observed on every run by the snapshots and the identity / shared-memory / mutation probes",
    "PtnCombo.combinations takes callbacks: it is run and observed but has no effect program",
]
TRUSTED = ["harness/maps.py; the deep snapshot and the aliasing probes in this file",
           "harness/tables/effects.py: the source-to-effect-program translator and its callee tables (fresh / shallow / view / mutate, immutable "
           "attribute and annotation lists, frame attributes, hook names, the column-store rule used by ConvertBase.cast) - see docs/C14.md",
           "Store/EffectsInline.v `inline` as the meaning of a call (callee bodies renamed apart, parameters bound to arguments)"]
MANIFEST = dict(
    text="Coq store model (objects with versions; alloc / alias / in-place write). Every listed operation and every reamber function it "
         "reaches is translated from the live source into an effect program (Generated/Tables.v, regenerated on every run); Coq inlines the "
         "callees and runs a may-alias analysis (abstract objects: ARG = the arguments and all they reach, one object per allocation site; "
         "inclusion constraints; result checked by a verified checker). Proved for every program: if the checked state shows no write to an "
         "object that may be an argument, no run of the program (any order / multiplicity of its steps) changes an argument version; if no "
         "argument is reachable from the result, the result is a fresh object. Obligations by vm_compute on the regenerated table: all listed "
         "operations and all protocol hooks (__getitem__, __iter__, __len__, comparisons, __deepcopy__, properties) are pure, all documented "
         "copies are owned. The same operations are run on charts/lists of all five games, singly and in sequences; deep snapshots and identity "
         "/ shared-memory / mutation probes are compared with the store model and with the static verdict of the functions each call ran.",
    note="Partial by nature: the theorem is about the store abstraction; what pandas / numpy / builtin callees do is a reviewed table "
         "(trusted, re-observed by the probes), calls are resolved by name without types, annotations are trusted for immutability. "
         "Trusted: Coq kernel+VM, the translator and its tables, the snapshot/probe code.",
    technique="source-to-effect-program translation + Coq may-alias analysis with checked result, proved sound over a store model; "
              "observation-based correspondence (snapshots, aliasing probes)",
    design="4/C14")

LIST_OPS = ["after", "before", "between", "mask", "slice", "sorted", "append", "move_start_to", "move_end_to", "deepcopy", "getitem", "iter",
            "first_last"]
MAP_OPS = ["rate", "deepcopy_map", "write", "full_ln", "scroll_speed", "dominant_bpm", "pattern", "convert"]
SV_OPS = ["sv_normalize"]
COPY_OPS = {"deepcopy", "move_start_to", "move_end_to", "rate", "deepcopy_map", "convert", "full_ln", "hitsound_copy", "rate_mapset"}
NEWFRAME_OPS = {"append", "sorted", "mask", "after", "before", "between"}
QUERY_OPS = {"write", "dominant_bpm", "first_last", "write_mapset"}
CONV = {"osu": ["OsuToQua", "OsuToSM", "OsuToBMS"], "qua": ["QuaToOsu", "QuaToSM", "QuaToBMS"], "bms": ["BMSToOsu", "BMSToQua", "BMSToSM"],
        "sm": ["SMToOsu", "SMToQua", "SMToBMS"], "o2j": ["O2JToOsu", "O2JToQua", "O2JToSM", "O2JToBMS"]}


def _sane_spec(rng, game):
    """a chart on which every analysis operation is defined: a tempo point at or before everything, >= 2 notes"""
    spec = M.gen_map_spec(rng, game, max_rows=rng.choice([2, 3, 5]))
    props = M.map_class(game)().objs["hits"]._item_class()._props
    if len(spec["lists"]["hits"]["rows"]) < 2:
        spec["lists"]["hits"]["rows"] = M.gen_rows(rng, props, 2, ties=False)
        spec["lists"]["hits"]["rows"][1]["offset"] = spec["lists"]["hits"]["rows"][0]["offset"] + 500.0
    bp = spec["lists"]["bpms"]["rows"]
    lo = min(r["offset"] for l in spec["lists"].values() for r in l["rows"])
    bp[0]["offset"] = lo - 250.0
    return spec


def generate(rng, tier):
    n = 40 if tier == "quick" else 400
    cases = []
    for game in M.GAMES:
        for _ in range(n):
            ops = []
            for _k in range(rng.choice([1, 1, 2, 3, 4])):
                pool = LIST_OPS + MAP_OPS + MAP_OPS + (SV_OPS * 3 if game in ("osu", "qua") else []) + (["hitsound_copy"] * 2 if game == "osu" else [])
                if game in ("sm", "o2j"):
                    pool = pool + ["rate_mapset", "write_mapset"]
                op = rng.choice(pool)
                ops.append({"op": op, "seed": rng.randint(0, 10 ** 6)})
            cases.append({"game": game, "map": _sane_spec(rng, game), "map2": _sane_spec(rng, game), "ops": ops})
        # degenerate arguments of the list operations (an appended list with no rows, a filter that keeps everything)
        for _ in range(4):
            cases.append({"game": game, "map": _sane_spec(rng, game), "map2": _sane_spec(rng, game),
                          "ops": [{"op": rng.choice(["append", "append", "sorted", "mask"]), "seed": rng.randint(0, 10 ** 6), "degenerate": True}
                                  for _ in range(3)]})
    return cases


# ------------------------------------------------------------------ deep snapshots
def _cell(v):
    if isinstance(v, float) and math.isnan(v):
        return "NaN"
    if isinstance(v, (list, tuple)):
        return ("L", tuple(_cell(x) for x in v))
    if isinstance(v, np.generic):
        v = v.item()
        if isinstance(v, float) and math.isnan(v):
            return "NaN"
    if isinstance(v, (bytes, str, int, float, bool)) or v is None:
        return (type(v).__name__, v)
    return ("O", repr(v))


def snap(o):
    from reamber.base.lists.TimedList import TimedList
    from reamber.base.Map import Map
    from reamber.base.MapSet import MapSet
    if isinstance(o, pd.DataFrame):
        return ("df", id(o), tuple(map(str, o.columns)), tuple(map(str, o.dtypes)), tuple(map(str, o.index)),
                tuple(tuple(_cell(v) for v in o.iloc[:, j].tolist()) for j in range(len(o.columns))))
    if isinstance(o, pd.Series):
        return ("series", tuple(map(str, o.index)), tuple(_cell(v) for v in o.tolist()))
    if isinstance(o, TimedList):
        return ("list", type(o).__name__, id(o), snap(o.df))
    if isinstance(o, Map):
        meta = {k: _cell(copy.deepcopy(v)) if not isinstance(v, dict) else None for k, v in vars(o).items() if k != "objs"}
        return ("map", type(o).__name__, tuple((k, snap(v)) for k, v in o.objs.items()), tuple(sorted((k, repr(v)) for k, v in meta.items())))
    if isinstance(o, MapSet):
        meta = {k: repr(v) for k, v in vars(o).items() if k != "maps"}
        return ("mapset", type(o).__name__, tuple(snap(m) for m in o.maps), tuple(sorted(meta.items())))
    if isinstance(o, (list, tuple)):
        return ("seq", tuple(snap(x) for x in o))
    return ("val", repr(o))


def _frames(o, acc):
    from reamber.base.lists.TimedList import TimedList
    from reamber.base.Map import Map
    from reamber.base.MapSet import MapSet
    if isinstance(o, pd.DataFrame):
        acc.append(o)
    elif isinstance(o, TimedList):
        acc.append(o.df)
    elif isinstance(o, Map):
        for v in o.objs.values():
            acc.append(v.df)
    elif isinstance(o, MapSet):
        for m in o.maps:
            _frames(m, acc)
    elif isinstance(o, (list, tuple)):
        for x in o:
            _frames(x, acc)
    elif hasattr(o, "df") and isinstance(getattr(o, "df"), pd.DataFrame):
        acc.append(o.df)
    return acc


def _mutate(o):
    """change the result in place in every way a caller might"""
    from reamber.base.lists.TimedList import TimedList
    from reamber.base.Map import Map
    from reamber.base.MapSet import MapSet
    for df in _frames(o, []):
        for c in list(df.columns):
            col = df[c]
            try:
                arr = col.values
                if arr.dtype.kind in "fiu" and arr.flags.writeable and len(arr):
                    arr += 1
                elif arr.dtype.kind == "O":
                    for v in arr:
                        if isinstance(v, list):
                            v.append("probe")
            except Exception:
                pass
        try:
            if len(df) and len(df.columns):
                df.iloc[0, 0] = df.iloc[0, 0]
                df["__probe__"] = 1
        except Exception:
            pass
    if isinstance(o, Map):
        for k in list(vars(o)):
            if k != "objs" and isinstance(getattr(o, k), (str, int, float)):
                try:
                    setattr(o, k, getattr(o, k) * 2 if not isinstance(getattr(o, k), str) else getattr(o, k) + "x")
                except Exception:
                    pass
        for k, v in o.objs.items():
            if len(v.df.columns) and "offset" in v.df.columns:
                v.offset = v.offset + 1
    if isinstance(o, MapSet):
        for m in o.maps:
            _mutate(m)
    if isinstance(o, (Map, MapSet)):
        # set-level / chart-level metadata held in mutable containers (O2Jam levels, counts; BMS header dicts ...)
        for k, v in list(vars(o).items()):
            if k in ("objs", "maps"):
                continue
            try:
                if isinstance(v, list):
                    if v and isinstance(v[0], (int, float)):
                        v[0] = v[0] + 41
                    v.append(0)
                elif isinstance(v, dict):
                    v["__probe__"] = 1
            except Exception:
                pass
    if isinstance(o, TimedList) and "offset" in o.df.columns:
        o.offset = o.offset + 1
    if isinstance(o, (list, tuple)):
        for x in o:
            _mutate(x)


def _shares(res, arg):
    """identity or memory shared between any frame/array/list cell of the result and of the argument"""
    rf, af = _frames(res, []), _frames(arg, [])
    for a in af:
        for r in rf:
            if a is r:
                return True
            for ca in a.columns:
                for cr in r.columns:
                    x, y = a[ca].values, r[cr].values
                    try:
                        if x.dtype.kind != "O" and y.dtype.kind != "O" and len(x) and len(y) and np.shares_memory(x, y):
                            return True
                        if x.dtype.kind == "O" and y.dtype.kind == "O":
                            ids = {id(v) for v in x if isinstance(v, list)}
                            if any(id(v) in ids for v in y if isinstance(v, list)):
                                return True
                    except Exception:
                        pass
    return False


# ------------------------------------------------------------------ operations
def _plan(op, seed, game, m, m2, container, degenerate=False):
    """-> (args, call, kind, funcs) or None when the operation does not apply to these inputs (nothing is called)
    call() -> list of results; kind in {'query','fresh'}; funcs = the reamber functions the call runs (as Python's own
    dispatch resolves them on these objects): the programs of the generated effect table the observation is compared with"""
    r = random.Random(seed)
    names = [k for k, v in m.objs.items()]
    lst = m.objs[r.choice(names)]
    L = type(lst)
    offs = lst.offset.tolist() or [0.0]
    t = r.choice(offs)
    if op == "after":
        inc = r.random() < 0.5
        return [lst], lambda: [lst.after(t, include_end=inc)], "fresh", [L.after, L.__getitem__]
    if op == "before":
        inc = r.random() < 0.5
        return [lst], lambda: [lst.before(t, include_end=inc)], "fresh", [L.before, L.__getitem__]
    if op == "between":
        inc = r.random() < 0.5
        return [lst], lambda: [lst.between(min(offs), t, include_ends=(True, inc))], "fresh", [L.between, L.after, L.before, L.__getitem__]
    if op == "mask":
        return [lst], lambda: [lst[lst.offset >= t]], "fresh", [L.__getitem__]
    if op == "slice":
        return [lst], lambda: [lst[0:max(1, len(lst) // 2)]], "fresh", [L.__getitem__, L.__len__]
    if op == "sorted":
        rev = r.random() < 0.5
        return [lst], lambda: [lst.sorted(reverse=rev)], "fresh", [L.sorted]
    if op == "append":
        other = m2.objs[[k for k in m2.objs if type(m2.objs[k]) is type(lst)][0]]
        srt = r.random() < 0.5
        if degenerate or r.random() < 0.35:
            other = other[0:0]                      # nothing to add (a filter that matched nothing): still a new list
            if degenerate:
                srt = r.random() < 0.25
        return [lst, other], lambda: [lst.append(other, sort=srt)], "fresh", [L.append, L.sorted]
    if op in ("move_start_to", "move_end_to"):
        if not len(lst):
            return None
        to = r.choice([0.0, 1000.0, -250.0])
        return [lst], lambda: [getattr(lst, op)(to)], "fresh", [getattr(L, op), L.deepcopy, L.__deepcopy__,
                                                                 L.first_offset if op == "move_start_to" else L.last_offset]
    if op == "deepcopy":
        return [lst], lambda: [lst.deepcopy()], "fresh", [L.deepcopy, L.__deepcopy__]
    if op == "getitem":
        if not len(lst):
            return None
        i = r.randrange(len(lst))
        return [lst], lambda: [lst[i].data], "fresh", [L.__getitem__, L.__len__]
    if op == "iter":
        return [lst], lambda: [[i.data for i in lst]], "fresh", [L.__iter__]
    if op == "first_last":
        def q():
            lst.first_offset(), lst.last_offset(), len(lst), lst.offset.tolist()
            return []
        return [lst], q, "query", [L.first_offset, L.last_offset, L.__len__]
    if op == "rate":
        by = r.choice([2.0, 0.5, 1.5])
        return [m], lambda: [m.rate(by)], "fresh", [type(m).rate]
    if op == "deepcopy_map":
        return [m], lambda: [m.deepcopy()], "fresh", [type(m).deepcopy]
    if op == "rate_mapset":
        by = r.choice([2.0, 0.5])
        return [container], lambda: [container.rate(by)], "fresh", [type(container).rate]
    if op == "write":
        if game in ("osu", "qua"):
            return [m], lambda: (m.write(), [])[1], "query", [type(m).write]
        if game == "bms":
            from reamber.bms.BMSChannel import BMSChannel
            return [m], lambda: (m.write(BMSChannel.BME), [])[1], "query", [type(m).write]
        if game == "sm" and container is not None:
            return [container], lambda: (container.write(), [])[1], "query", [type(container).write]
        return None
    if op == "write_mapset":
        if game == "sm":
            return [container], lambda: (container.write(), [])[1], "query", [type(container).write]
        return None
    if op == "full_ln":
        from reamber.algorithms.generate.full_ln import full_ln
        gap, thr = r.choice([0, 50, 150]), r.choice([0, 100])
        return [m], lambda: [full_ln(m, gap=gap, ln_as_hit_thres=thr)], "fresh", [full_ln]
    if op == "sv_normalize":
        from reamber.algorithms.generate.sv_normalize import sv_normalize
        ob = r.choice([None, 150.0])
        return [m], lambda: [sv_normalize(m, override_bpm=ob)], "fresh", [sv_normalize]
    if op == "scroll_speed":
        from reamber.algorithms.analysis.scroll_speed import scroll_speed
        ob = r.choice([None, 150.0])
        return [m], lambda: [scroll_speed(m, override_bpm=ob)], "fresh", [scroll_speed]
    if op == "dominant_bpm":
        from reamber.algorithms.utils.dominant_bpm import dominant_bpm
        return [m], lambda: (dominant_bpm(m), [])[1], "query", [dominant_bpm]
    if op == "hitsound_copy":
        from reamber.algorithms.osu.hitsound_copy import hitsound_copy
        return [m, m2], lambda: [hitsound_copy(m, m2)], "fresh", [hitsound_copy]
    if op == "pattern":
        from reamber.algorithms.pattern.Pattern import Pattern
        from reamber.algorithms.pattern.combos.PtnCombo import PtnCombo
        tails, vw, hw, aj = r.random() < 0.5, r.choice([0, 50, 1000]), r.choice([None, 1]), r.random() < 0.5

        def q():
            p = Pattern.from_note_lists([m.hits, m.holds], include_tails=tails)
            g = p.group(v_window=vw, h_window=hw, avoid_jack=aj)
            PtnCombo(g).combinations(size=2)      # run and observed; not in the effect table (takes callbacks)
            return [p.df]
        return [m.hits, m.holds], q, "fresh", [Pattern.from_note_lists, Pattern.group]
    if op == "convert":
        import reamber.algorithms.convert as C
        name = r.choice(CONV[game])
        conv = getattr(C, name)
        arg = container if game in ("sm", "o2j") else m
        kw = {"raise_bad_mode": False} if name in ("BMSToQua", "OsuToQua", "OsuToSM", "SMToQua") else {}
        return [arg], lambda: [conv.convert(arg, **kw)], "fresh", [conv.convert, conv.cast]
    raise ValueError(op)


_OPS_CACHE = {}


def _op_indices(funcs):
    """indices (in Tables.effects.c14_effects, as generated from the tree under test) of the programs translated from
    these functions; a function without a listed program is a harness error (fail closed)"""
    from ..tables import effects as EF
    out = []
    for f in funcs:
        k = getattr(f, "__func__", f)
        if k not in _OPS_CACHE:
            _OPS_CACHE[k] = EF.function_index(f)
        if _OPS_CACHE[k] not in out:
            out.append(_OPS_CACHE[k])
    return out


def execute(case):
    game = case["game"]
    m = M.build_map(case["map"])
    m2 = M.build_map(case["map2"])
    if game == "bms":
        for x in (m, m2):
            x.title, x.artist, x.version = b"t", b"a", b"v"
    container = None
    if game in ("sm", "o2j"):
        container = M.build_mapset(game, [m])
        if game == "sm":
            container.offset = float(m.bpms.offset.min())
            container.title = container.artist = container.credit = "x"
        else:
            container.level = [1, 2, 3]
            container.title = container.artist = container.creator = "x"
    obs = []
    for o in case["ops"]:
        op = o["op"]
        # snapshot everything that could be an argument
        universe = [m, m2] + ([container] if container is not None else [])
        before_all = [snap(u) for u in universe]
        plan = _plan(op, o["seed"], game, m, m2, container, o.get("degenerate", False))
        if plan is None:
            obs.append({"op": op, "nocall": True})       # does not apply to these inputs: nothing was called
            continue
        args, call, kind, funcs = plan
        ops = _op_indices(funcs)
        try:
            results = call()
        except (ValueError, KeyError, IndexError, TypeError, AttributeError, ZeroDivisionError, AssertionError) as e:
            obs.append({"op": op, "skipped": type(e).__name__ + ": " + str(e)[:80], "ops": ops,
                        "universe_unchanged": before_all == [snap(u) for u in universe]})
            continue
        after_all = [snap(u) for u in universe]
        # an argument is one of the universe objects or a list inside one: judge by the owning universe object
        def owner(a):
            for i, u in enumerate(universe):
                if a is u:
                    return i
                from reamber.base.Map import Map
                if isinstance(u, Map) and any(a is v for v in u.objs.values()):
                    return i
            return None
        owners = [owner(a) for a in args]
        changed = [before_all[i] != after_all[i] if i is not None else False for i in owners]
        others_changed = any(before_all[i] != after_all[i] for i in range(len(universe)) if i not in owners)
        is_copy = op in COPY_OPS
        aliases = []
        if kind == "fresh":
            for res in results:
                al = None
                for k, a in enumerate(args):
                    if _shares(res, a):
                        al = k
                        break
                if al is None and is_copy:
                    base = [snap(u) for u in universe]
                    _mutate(res)
                    now = [snap(u) for u in universe]
                    for k, i in enumerate(owners):
                        if i is not None and base[i] != now[i]:
                            al = k
                            break
                    if base != now and al is None:
                        al = 0
                    if base != now:
                        # the probe damaged the inputs: rebuild them for the following operations
                        m = M.build_map(case["map"])
                        m2 = M.build_map(case["map2"])
                aliases.append(al)
            if not is_copy and op in NEWFRAME_OPS:
                # sorted / append / boolean filters build a NEW frame (the mechanism the property names): a result that IS
                # one of its arguments (same list object or same DataFrame object) shares all of its state with it
                same = []
                for res in results:
                    hit = None
                    for k, a in enumerate(args):
                        if res is a or any(rf is af for rf in _frames(res, []) for af in _frames(a, [])):
                            hit = k
                            break
                    same.append(hit)
                if any(h is not None for h in same):
                    is_copy, aliases = True, same
        obs.append({"op": op, "kind": kind, "nargs": len(args), "copy": is_copy, "changed": changed, "aliases": aliases,
                    "others_changed": others_changed, "ops": ops})
    return {"obs": obs}


def _emitted(out):
    """the observations that become Coq terms (an operation that did not apply called nothing: no term)"""
    return [o for o in out["obs"] if not o.get("nocall")]


def emit_all(case, out):
    terms = []
    for o in _emitted(out):
        ops = F.lst([F.nat(i) for i in o["ops"]])
        if "skipped" in o:
            terms.append(f"CObs KQuery 1%nat false {F.lst([F.boolean(not o['universe_unchanged'])])} [] {ops}")
            continue
        k = "KQuery" if o["kind"] == "query" else "KFresh"
        al = F.lst(["None" if a is None else f"(Some {F.nat(a)})" for a in o["aliases"]])
        ch = [c or o["others_changed"] for c in o["changed"]]
        terms.append(f"CObs {k} {F.nat(o['nargs'])} {F.boolean(o['copy'])} {F.lst([F.boolean(c) for c in ch])} {al} {ops}")
    return terms


def nontrivial(case, out):
    return any(len(l["rows"]) >= 2 for l in case["map"]["lists"].values())


def bucket(case, out):
    return case["game"] + "/" + "+".join(o["op"] + ("(skip)" if "skipped" in o else "(n/a)" if o.get("nocall") else "") for o in out["obs"])


def classify(case, out, kind, sub=None):
    if sub is not None:
        o = _emitted(out)[sub]
        if o["op"] == "sv_normalize" and o.get("changed") == [True]:
            return "sv-normalize-adds-column-to-input"
    return None


def describe(case, out):
    return f"{case['game']} " + ", ".join(f"{o['op']}:changed={o.get('changed')}:aliases={o.get('aliases')}:programs={o.get('ops')}" for o in out["obs"])


def shrink(case):
    for i in range(len(case["ops"])):
        c = dict(case)
        c["ops"] = case["ops"][:i] + case["ops"][i + 1:]
        if c["ops"]:
            yield c
