"""C06: Quaver .qua read/write.  The Coq model works on YAML *trees*: PyYAML (safe_load / CDumper) is a named
oracle whose hypothesis  safe_load(dump(d)) == d  is tested on every generated and every written document.
Two case kinds:
  doc   : a .qua text  -> r = QuaMap.read, w1 = r.write(), w2 = QuaMap.read(w1).write()
  chart : an in-memory QuaMap (built from objects / DataFrames, or produced by OsuToQua / SMToQua / BMSToQua /
          O2JToQua from small source maps), snapshotted before writing -> w1 = write, r1 = read(w1), w2 = r1.write()
All values are float-exact (ints, dyadic fractions), so model and implementation must agree exactly."""
import copy
import os
import math
from fractions import Fraction as Fr

from .. import coqfmt as F
from ..tables.c06 import NAME_IDS, META_KEYS, meta_layout

ID = "C06"
RUNNER = "Corr.RunC06"
CASE_TYPE = "c06case"
RUNNER_TARGETS = ["Corr/RunC06.vo"]
PROOF_TARGETS = ["Props/C06.vo"]
PROPS_FILE = "Props/C06.v"
PROPS_MODULE = "Props.C06"
RULE = ("seeded generator of .qua documents (0..6 notes over lanes 1..10, hits only / holds only / empty sections, StartTime / "
        "Lane / KeySounds / Bpm / Multiplier omitted in some or in all records, 0..3 timing points and scroll velocities, "
        "random subsets of the 21 metadata keys with strings that need YAML quoting, block and flow style, str and line-list "
        "input; every fourth case goes through the file-level API in a tempfile.TemporaryDirectory: the text is put on disk "
        "and read with QuaMap.read_file(path), every document is written with QuaMap.write_file(path) and read back from "
        "disk, the second generation reads that very file) and of in-memory charts (lists built from item objects or from DataFrames with shuffled columns, non-default "
        "row labels, unsorted rows, fractional and negative times, an extra index column; and the outputs of OsuToQua, "
        "SMToQua, BMSToQua, O2JToQua on small source maps built from objects; every fourth chart case likewise through "
        "write_file / read_file); in a third of all cases (both routes, documents, native and converted charts) every object "
        "is written more than once -- write() twice (file route: write() then write_file()), or the four lists' to_yaml() "
        "first -- and the LAST document is judged against the chart snapshot taken BEFORE the first write, in both "
        "generations; each case runs read/write/read/write "
        "(two generations); non-trivial = at least one note, timing point or scroll velocity; distinct by hash of the "
        "canonical JSON of the input; a separate unclaimed stream (foreign note keys, float times, missing sections, "
        "non-string Tags) is checked for correspondence only")
ASSUMPTIONS = [
    "PyYAML is an oracle: the model starts at yaml.safe_load(text) and ends at the dict handed to yaml.dump; "
    "safe_load(dump(d)) == d is tested (not proved) on every generated document and on every document written in the run "
    "(yaml.dump is intercepted in the harness process to see the dict)",
    "values are float-exact (integers, multiples of 1/8): binary64 rounding inside pandas is not modelled; "
    "offset+length and int() truncation are then exact",
    "numeric cells cross the boundary by value whatever their numpy dtype; frame columns are compared as sets, rows in order",
    "an exception of the implementation is compared as 'raised' (class recorded in the evidence, not compared)",
    "format defaults per DESIGN B.2: StartTime 0, Lane 1, KeySounds [], Bpm 120, Multiplier 1.0 (the reader defaults reamber "
    "documents); metadata keys omitted by a document must hold a value of the key's declared type",
]
TRUSTED = ["PyYAML safe_load/CDumper (oracle, tested per run)", "harness/tables/c06.py (live metadata/column tables)"]
MANIFEST = dict(
    text="Coq model on YAML trees of QuaMap.read/write, _read_notes, the four from_yaml/to_yaml DataFrame pipelines and the "
         "metadata reader/writer; specification qua_denote/chart_denote/wf_qua_doc written from the format rules (DESIGN B.2). "
         "Proved for all inputs of the stated domains: the reader returns exactly the chart the document denotes under the "
         "format's defaults (any keys omitted in some or all records) and that chart is strict; the writer's document is "
         "well-formed and denotes the chart with every time moved < 1 ms; both round trips as compositions; oracle soundness; "
         "truncation/no-drift and Tags laws; _refuted theorems about the OLD reader/defaults models. Generations at whole-document "
         "level: every written document has the decidable shape gen_docb, write o read maps every document of that shape to the "
         "same document (doc_same: same keys in the same order, identical metadata values and note records, point records equal "
         "as key->value maps), so generation 2 = generation 1 and every later generation is generation 2 exactly (Leibniz "
         "equality of generations 1 and 2 refuted for non-default timing-point column order; reamber agrees: only that key order "
         "differs in the text). Resolution 0: document times are integers, so write(read d) denotes exactly what d denotes and "
         "read(write(read d)) is exactly the chart read d. The reader / write-after-read oracles are complete; the writer oracles "
         "are exactly the positional relations (completeness for the permutation-closed relation refuted). On every run the model is "
         "compared in Coq with the implementation on generated documents and in-memory charts (native and produced by the four "
         "converters), two generations deep, and the proven-sound oracle is evaluated on the implementation's outputs.",
    note="Trusted: Coq kernel+VM, harness generator/serialiser, PyYAML as a tested oracle, live tables translator. "
         "All seven defect classes found on the pinned tree are repaired (4a9b03a, 3b9da0f, 736886e, e825b78) and recorded as "
         "'fixed'; a recurrence raises a VIOLATION labelled regression:<key>. The writer oracle write_specb compares record i with "
         "row i (an order-changing but correct writer would be a false alarm, never a missed violation). Not proved: charts "
         "outside the strict domain (extra columns, NaN cells: correspondence only).",
    technique="Coq proof over executable model + vm_compute correspondence and oracle on implementation output",
    design="4/C06, B.2")

# defect classes that are still present in /repo (status "known" in findings/C06.json)
KNOWN_ORDER = []
# defect classes repaired in /repo (status "fixed"): still recognised and named by `reasons`, but a recurrence is a VIOLATION
FIXED_KEYS = [
    "qua-meta-isv-default-str",
    "qua-read-holds-all-omit-starttime-keyerror",
    "qua-read-all-omit-lane-attributeerror",
    "qua-read-hold-omitted-starttime-length0",
    "qua-read-omitted-keysounds-nan",
    "qua-write-index-key",
    "qua-write-keysounds-nan",
]

# ------------------------------------------------------------------ tree <-> JSON
def tj(v):
    """Python value -> JSON-able tree.  Fail closed on anything the Coq tree type cannot carry."""
    import numpy as np
    if isinstance(v, (bool, np.bool_)):
        return {"b": bool(v)}
    if isinstance(v, (int, np.integer)):
        return {"i": int(v)}
    if isinstance(v, (float, np.floating)):
        v = float(v)
        if v != v:
            return "nan"
        if math.isinf(v):
            raise ValueError("infinite float")
        return {"f": F.frac_json(Fr(v))}
    if isinstance(v, str):
        return {"s": v}
    if v is None:
        return "null"
    if isinstance(v, (list, tuple)):
        return {"l": [tj(x) for x in v]}
    if isinstance(v, dict):
        for k in v:
            if not isinstance(k, str):
                raise ValueError(f"non-string mapping key {k!r}")
        return {"m": [[k, tj(x)] for k, x in v.items()]}
    raise ValueError(f"untranslatable value {type(v).__name__}")


def untj(t):
    if t == "nan":
        return float("nan")
    if t == "null":
        return None
    if "b" in t:
        return t["b"]
    if "i" in t:
        return t["i"]
    if "f" in t:
        return float(F.frac_from_json(t["f"]))
    if "s" in t:
        return t["s"]
    if "l" in t:
        return [untj(x) for x in t["l"]]
    return {k: untj(x) for k, x in t["m"]}


def _fl(x):
    return {"f": F.frac_json(Fr(x))}


def _it(x):
    return {"i": int(x)}


def _st(s):
    return {"s": s}


# ------------------------------------------------------------------ generators
TRICKY = ["yes", "null", "1e3", "a: b", "# c", "- d", "üñí", "", "~", "true", "007", "it's", '"q"', " lead",
          "trail ", "x", "Carry Me", "{a}", "[b]", "a,b", "音楽", "0x1F", "1_000", ".nan", "No", "3.5", "&a", "*a",
          "!t", "%p", "@h", "`g", "|", ">", "?", "key: 'v'", "a #b", "tab\there"]
WORDS = ["yes", "null", "1e3", "a:", "#c", "-d", "üñí", "~", "true", "x", "k:v", "tag"]
TYPES = None


def _layout():
    global TYPES
    if TYPES is None:
        TYPES = meta_layout()
    return TYPES


def _meta_value(rng, key, code):
    if key == "Tags":
        n = rng.choice([0, 1, 2, 3])
        sep = rng.choice([" ", " ", "  "])
        s = sep.join(rng.choice(WORDS) for _ in range(n))
        if rng.random() < 0.15:
            s = " " + s + " "
        return s
    if key == "Mode":
        return rng.choice(["Keys4", "Keys7", "Keys8", "Keys4"])
    if code == 0:
        return rng.choice(TRICKY)
    if code == 1:
        return rng.choice([0, -1, 1, 169955, 12, -500])
    if code == 2:
        return rng.choice([1.0, 0.5, 2.25, 0.0, 3, 1])
    if code == 3:
        return rng.random() < 0.5
    return [rng.choice(TRICKY) for _ in range(rng.choice([0, 0, 1, 2]))]


def _time(rng):
    r = rng.random()
    if r < 0.15:
        return 0
    if r < 0.3:
        return -rng.randint(1, 2000)
    return rng.randint(1, 400000)


def _gen_doc(rng):
    doc = {}
    lay = _layout()
    scen = rng.choice(["mixed", "mixed", "mixed", "hits", "holds", "empty", "all_omit_st", "all_omit_ks", "all_omit_lane",
                       "full", "full", "meta"])
    p_omit = 0.0 if scen == "full" else 0.25
    with_isv = rng.random() < 0.85
    for key, _, code in lay:
        p = {"full": 1.0, "meta": 0.8}.get(scen, 0.3)
        if key == "InitialScrollVelocity":
            if with_isv:
                doc[key] = _meta_value(rng, key, code)
        elif rng.random() < p:
            doc[key] = _meta_value(rng, key, code)
    if rng.random() < 0.1:
        doc["FooBar"] = rng.choice(["x", 3, [1, 2]])            # foreign top-level key: ignored by the format
    nn = 0 if scen in ("empty", "meta") and rng.random() < 0.7 else rng.choice([1, 1, 2, 3, 4, 6])
    keys_max = rng.choice([4, 7, 8, 10])
    notes = []
    for _ in range(nn):
        n = {}
        hold = {"hits": False, "holds": True}.get(scen, rng.random() < 0.45)
        st = _time(rng)
        if not (scen == "all_omit_st" or rng.random() < p_omit):
            n["StartTime"] = st
        if not (scen == "all_omit_lane" or rng.random() < p_omit * 0.2):
            n["Lane"] = rng.randint(1, keys_max)
        if hold:
            n["EndTime"] = st + rng.choice([0, 1, 50, 1000, 33333])
        if not (scen == "all_omit_ks" or rng.random() < p_omit):
            n["KeySounds"] = rng.choice([[], [], [], ["a.wav"], ["a.wav", "b c.ogg"], ["yes"]])
        items = list(n.items())
        rng.shuffle(items)
        notes.append(dict(items))
    doc["HitObjects"] = notes
    tps = []
    for _ in range(rng.choice([0, 1, 1, 2, 3])):
        t = {}
        if rng.random() > p_omit:
            t["StartTime"] = _time(rng)
        if rng.random() > p_omit:
            t["Bpm"] = rng.choice([120, 175.0, 90.5, 200, 133.25, 60.0, 1e3, 0.125])
        tps.append(t)
    doc["TimingPoints"] = tps
    svs = []
    for _ in range(rng.choice([0, 0, 1, 2, 3])):
        t = {}
        if rng.random() > p_omit:
            t["StartTime"] = _time(rng)
        if rng.random() > p_omit:
            t["Multiplier"] = rng.choice([1.0, 0.5, 2, 4.5, -1.0, 0.0, 0.125, 10])
        svs.append(t)
    doc["SliderVelocities"] = svs
    items = list(doc.items())
    if rng.random() < 0.5:
        rng.shuffle(items)
    return dict(items)


def _gen_loose_doc(rng):
    """outside the claimed domain: correspondence only"""
    doc = _gen_doc(rng)
    k = rng.choice(["foreign", "floattime", "nosection", "tagsint", "nondict", "floatlane", "endfloat"])
    notes = doc["HitObjects"]
    if k == "foreign":
        for n in notes[::2]:
            n["EditorLayer"] = 1
        for t in doc["TimingPoints"]:
            t["Signature"] = 4
        if not notes:
            doc["HitObjects"] = [{"StartTime": 1, "Lane": 1, "KeySounds": [], "Type": 2}]
    elif k == "floattime":
        for n in notes:
            if "StartTime" in n:
                n["StartTime"] = n["StartTime"] + 0.5
        doc["TimingPoints"].append({"StartTime": 10.75, "Bpm": 100})
        doc["SliderVelocities"].append({"StartTime": -0.5, "Multiplier": 2})
    elif k == "nosection":
        doc.pop(rng.choice(["HitObjects", "TimingPoints", "SliderVelocities"]))
    elif k == "tagsint":
        doc["Tags"] = rng.choice([5, None, ["a"]])
    elif k == "nondict":
        doc[rng.choice(["TimingPoints", "SliderVelocities"])] = rng.choice([None, [1], "x"])
    elif k == "floatlane":
        for n in notes:
            if "Lane" in n:
                n["Lane"] = float(n["Lane"])
    elif k == "endfloat":
        for n in notes:
            if "EndTime" in n:
                n["EndTime"] = n["EndTime"] + 0.25
    return doc


def _ftime(rng):
    r = rng.random()
    if r < 0.4:
        return _it(_time(rng))
    if r < 0.6:
        return _fl(float(_time(rng)))
    return _fl(Fr(rng.randint(-8000, 3200000), 8))


def _gen_chart(rng):
    """recipe of a native in-memory chart"""
    lay = _layout()
    meta = {}
    for key, attr, code in lay:
        if key == "InitialScrollVelocity":
            if rng.random() < 0.85:
                meta[attr] = rng.choice([1.0, 0.5, 2.25, 0.0])
        elif key == "Tags":
            if rng.random() < 0.5:
                meta[attr] = [rng.choice(WORDS) for _ in range(rng.choice([0, 1, 2, 3]))]
        elif rng.random() < 0.35:
            meta[attr] = _meta_value(rng, key, code)
    via = rng.choice(["objs", "objs", "df", "df", "df_index"])
    keys_max = rng.choice([4, 7, 8, 10])
    scen = rng.choice(["mixed", "mixed", "hits", "holds", "empty"])
    nh = 0 if scen in ("holds", "empty") else rng.choice([1, 2, 3, 5])
    nl = 0 if scen in ("hits", "empty") else rng.choice([1, 2, 3])
    ks = lambda: {"l": [_st(s) for s in rng.choice([[], [], ["a.wav"], ["a.wav", "yes"]])]}
    hits = [{"offset": _ftime(rng), "column": _it(rng.randint(0, keys_max - 1)), "keysounds": ks()} for _ in range(nh)]
    holds = []
    for _ in range(nl):
        ln = rng.choice([_it(0), _it(rng.randint(1, 5000)), _fl(Fr(rng.randint(1, 80000), 8)), _fl(float(rng.randint(1, 999)))])
        holds.append({"offset": _ftime(rng), "column": _it(rng.randint(0, keys_max - 1)), "keysounds": ks(), "length": ln})
    bpms = [{"offset": _ftime(rng), "bpm": rng.choice([_it(120), _fl(175.0), _fl(90.5), _fl(133.25), _it(200)]),
             "metronome": rng.choice([_it(4), _fl(4.0), _it(3)])} for _ in range(rng.choice([0, 1, 1, 2, 3]))]
    svs = [{"offset": _ftime(rng), "multiplier": rng.choice([_fl(1.0), _fl(0.5), _it(2), _fl(-1.0), _fl(4.5)])}
           for _ in range(rng.choice([0, 0, 1, 2]))]
    rec = {"via": via, "hits": hits, "holds": holds, "bpms": bpms, "svs": svs, "meta": meta}
    if via != "objs":
        rec["shuffle"] = rng.randint(0, 10 ** 6)
        rec["extra_index"] = rng.random() < 0.12           # an `index` column as TimedList.empty() leaves it
    return rec


def _gen_conv(rng):
    src = rng.choice(["osu", "sm", "bms", "o2j"])
    kmax = {"osu": rng.choice([4, 7, 8]), "sm": 4, "bms": rng.choice([4, 7, 8]), "o2j": 7}[src]
    t = lambda: rng.choice([float(rng.randint(0, 300000)), float(Fr(rng.randint(0, 2400000), 8)), rng.randint(0, 300000)])
    hits = [[t(), rng.randint(0, kmax - 1)] for _ in range(rng.choice([0, 1, 2, 4]))]
    holds = [[t(), rng.randint(0, kmax - 1), rng.choice([1, 100, 250.5, 1000.125])] for _ in range(rng.choice([0, 1, 2]))]
    if not hits and not holds:
        hits = [[100, 0]]
    if src in ("bms", "osu"):
        hits.append([t(), kmax - 1])          # the key count is derived from the highest column
    bpms = [[t() if i else 0, rng.choice([120, 150.0, 175.5, 90])] for i in range(rng.choice([1, 1, 2]))]
    svs = [[t(), rng.choice([1.0, 0.5, 2.0])] for _ in range(rng.choice([0, 1, 2]))] if src == "osu" else []
    return {"src": src, "keys": kmax, "hits": hits, "holds": holds, "bpms": bpms, "svs": svs,
            "title": rng.choice(TRICKY), "artist": rng.choice(TRICKY), "creator": rng.choice(TRICKY),
            "tags": [rng.choice(WORDS) for _ in range(rng.choice([0, 2]))]}


# a third of the cases write the SAME object more than once; the LAST document is judged against the chart as it was
# before the first write: "twice" = write, write again (file route: write() then write_file()); "lists" = the four
# to_yaml() of the lists first, then the write.  Period 12 against the file route (i % 4 == 1): indices 1 and 5 are file
# cases, 2 and 7 text cases, so both routes get both modes.
_REWRITE = [None, "twice", "twice", None, None, "lists", None, "lists", None, None, None, None]


def generate(rng, tier):
    import yaml
    n = 200 if tier == "quick" else 4000
    cases = []
    for i in range(n):
        doc = _gen_doc(rng)
        flow = rng.choice([False, False, None, True])
        text = yaml.safe_dump(doc, sort_keys=False, allow_unicode=rng.random() < 0.7, default_flow_style=flow)
        cases.append({"kind": "doc", "claim": True, "text": text, "lines": rng.random() < 0.3, "src": tj(doc),
                      "io": "file" if i % 4 == 1 else "str", "rewrite": _REWRITE[i % 12]})
    for i in range(n // 6):
        doc = _gen_loose_doc(rng)
        text = yaml.safe_dump(doc, sort_keys=False, allow_unicode=True)
        cases.append({"kind": "doc", "claim": False, "text": text, "lines": False, "src": tj(doc),
                      "io": "file" if i % 4 == 1 else "str"})
    # a hand-written text (comments, flow sequences, quoted scalars), as an editor or the game would leave it
    hand = ({"kind": "doc", "claim": True, "lines": True, "src": None, "text":
                  "AudioFile: audio.mp3   # comment\nMode: Keys7\nTitle: 'yes'\nArtist: \"a: b\"\nTags: 'x  y'\n"
                  "InitialScrollVelocity: 1.0\nEditorLayers: []\nTimingPoints:\n- StartTime: -341\n  Bpm: 175\n"
                  "SliderVelocities:\n- StartTime: 344\n  Multiplier: 1.5\n- Multiplier: 0.5\nHitObjects:\n"
                  "- StartTime: 1030\n  Lane: 7\n  KeySounds: []\n- Lane: 1\n  KeySounds: []\n"
                  "- StartTime: 2000\n  EndTime: 2400\n  Lane: 3\n  KeySounds: [a.wav]\n"})
    cases.append(dict(hand, io="str"))
    cases.append(dict(hand, io="file", lines=False))   # the same text through QuaMap.read_file / write_file
    for i in range(n // 2):
        rc = _gen_chart(rng)
        # an `index` column is only reachable through TimedList.empty() of the unrepaired tree (converter outputs
        # below are claimed whatever they contain); a synthetic one is checked for correspondence only
        cases.append({"kind": "chart", "claim": not rc.get("extra_index"), "origin": "native", "recipe": rc,
                      "io": "file" if i % 4 == 1 else "str", "rewrite": _REWRITE[i % 12]})
    for i in range(n // 3):
        cases.append({"kind": "chart", "claim": True, "origin": "conv", "recipe": _gen_conv(rng),
                      "io": "file" if i % 4 == 1 else "str", "rewrite": _REWRITE[i % 12]})
    return cases


# ------------------------------------------------------------------ implementation side
EXPECTED = (KeyError, AttributeError, TypeError, ValueError, IndexError)
_captured = []


def _install_capture():
    """see the dict handed to yaml.dump by QuaMap.write (PyYAML oracle test); harness-side, no source hook"""
    import sys
    import reamber.quaver.QuaMap  # noqa
    QM = sys.modules["reamber.quaver.QuaMap"]
    import yaml as real_yaml
    if getattr(QM.yaml, "_c06_wrapped", False):
        return

    class Proxy:
        _c06_wrapped = True

        def __getattr__(self, name):
            return getattr(real_yaml, name)

        @staticmethod
        def dump(data, *a, **k):
            txt = real_yaml.dump(data, *a, **k)
            _captured.append((copy.deepcopy(data), txt))
            return txt
    QM.yaml = Proxy()


def _snap_frame(tl):
    df = tl.df
    cols = [str(c) for c in df.columns]
    rows = []
    for rec in df.to_dict("split")["data"]:
        rows.append([tj(v) for v in rec])
    return {"cols": cols, "rows": rows}


def _snap_chart(m):
    lay = _layout()
    return {"hits": _snap_frame(m.hits), "holds": _snap_frame(m.holds), "bpms": _snap_frame(m.bpms),
            "svs": _snap_frame(m.svs), "meta": [tj(getattr(m, attr)) for _, attr, _ in lay]}


def _same_tree(a, b):
    return a == b


def _write(m, out, tag, tmp=None, rewrite=None):
    """m.write() -> (text, tree); tests the PyYAML hypothesis on the written document.
    With a directory `tmp` the document goes through QuaMap.write_file(path) and is read back from disk (bytes, utf-8)."""
    import yaml
    del _captured[:]
    try:
        if rewrite == "twice":
            m.write()
            out["rewrites"] = out.get("rewrites", 0) + 1
        elif rewrite == "lists":
            m.hits.to_yaml(), m.holds.to_yaml(), m.bpms.to_yaml(), m.svs.to_yaml()
            out["rewrites"] = out.get("rewrites", 0) + 1
        if tmp is None:
            text = m.write()
        else:
            path = os.path.join(tmp, tag + ".qua")
            ret = m.write_file(path)
            if ret is not None:
                raise RuntimeError("write_file returned a value")
            with open(path, "rb") as f:
                text = f.read().decode("utf-8")
            out["file_io"] = out.get("file_io", 0) + 1
    except EXPECTED as e:
        out["exc_" + tag] = type(e).__name__ + ": " + str(e)[:80]
        return None, None
    except yaml.YAMLError as e:
        out["exc_" + tag] = type(e).__name__
        return None, None
    if _captured:
        # the PyYAML hypothesis is about what yaml.dump returned, whatever reached the caller or the disk afterwards
        data, dumped = _captured[-1]
        if not isinstance(dumped, str) or not _same_tree(tj(data), tj(yaml.safe_load(dumped))):
            raise RuntimeError("PyYAML oracle hypothesis failed on a written document: safe_load(dump(d)) != d")
        out["yaml_rt"] = out.get("yaml_rt", 0) + 1
    try:
        tree = tj(yaml.safe_load(text))
    except (yaml.YAMLError, ValueError) as e:
        # what reached the caller / the disk is not a document any more: the implementation's output is "nothing"
        out["exc_" + tag] = "unloadable written text: " + type(e).__name__
        return None, None
    return text, tree


def _read(text, out, tag, lines=False, tmp=None):
    """QuaMap.read(text or lines); with a directory `tmp` the text is put on disk (bytes, utf-8) and QuaMap.read_file(path)
    reads it (for a document written by write_file this is the very file: same bytes)"""
    from reamber.quaver.QuaMap import QuaMap
    try:
        if tmp is not None:
            path = os.path.join(tmp, tag + "_in.qua")
            with open(path, "wb") as f:
                f.write(text.encode("utf-8"))
            out["file_io"] = out.get("file_io", 0) + 1
            return QuaMap.read_file(path)
        return QuaMap.read(text.split("\n")[:-1] if (lines and text.endswith("\n")) else text)
    except EXPECTED as e:
        out["exc_" + tag] = type(e).__name__ + ": " + str(e)[:80]
        return None


def _df(rows, cols_order, rng_seed, extra_index, index_labels):
    import pandas as pd
    import random
    r = random.Random(rng_seed)
    cols = list(cols_order)
    r.shuffle(cols)
    data = [{c: untj(row[c]) for c in cols} for row in rows]
    if extra_index:
        data = [dict(index=0, **d) for d in data]
        cols = ["index"] + cols
    df = pd.DataFrame(data, columns=cols)
    if index_labels and len(df):
        labels = list(range(3, 3 + len(df)))
        r.shuffle(labels)
        df.index = labels
    return df


def _build_native(rc):
    from reamber.quaver import QuaMap, QuaHit, QuaHold, QuaBpm, QuaSv
    from reamber.quaver.lists import QuaBpmList, QuaSvList
    from reamber.quaver.lists.notes import QuaHitList, QuaHoldList
    m = QuaMap()
    if rc["via"] == "objs":
        m.hits = QuaHitList([QuaHit(offset=untj(h["offset"]), column=untj(h["column"]), keysounds=untj(h["keysounds"]))
                             for h in rc["hits"]])
        m.holds = QuaHoldList([QuaHold(offset=untj(h["offset"]), column=untj(h["column"]), length=untj(h["length"]),
                                       keysounds=untj(h["keysounds"])) for h in rc["holds"]])
        m.bpms = QuaBpmList([QuaBpm(offset=untj(b["offset"]), bpm=untj(b["bpm"]), metronome=untj(b["metronome"]))
                             for b in rc["bpms"]])
        m.svs = QuaSvList([QuaSv(offset=untj(s["offset"]), multiplier=untj(s["multiplier"])) for s in rc["svs"]])
    else:
        ix = rc["via"] == "df_index"
        sd, ei = rc["shuffle"], rc["extra_index"]
        m.hits = QuaHitList(_df(rc["hits"], ["offset", "column", "keysounds"], sd, ei, ix))
        m.holds = QuaHoldList(_df(rc["holds"], ["offset", "column", "keysounds", "length"], sd + 1, ei, ix))
        m.bpms = QuaBpmList(_df(rc["bpms"], ["offset", "bpm", "metronome"], sd + 2, ei, ix))
        m.svs = QuaSvList(_df(rc["svs"], ["offset", "multiplier"], sd + 3, ei, ix))
    for attr, v in rc["meta"].items():
        setattr(m, attr, v)
    return m


def _build_conv(rc):
    src = rc["src"]
    if src == "osu":
        from reamber.osu import OsuMap, OsuHit, OsuHold, OsuBpm, OsuSv
        from reamber.osu.lists import OsuBpmList, OsuSvList
        from reamber.osu.lists.notes import OsuHitList, OsuHoldList
        from reamber.algorithms.convert import OsuToQua
        o = OsuMap()
        o.hits = OsuHitList([OsuHit(offset=a, column=c) for a, c in rc["hits"]])
        o.holds = OsuHoldList([OsuHold(offset=a, column=c, length=l) for a, c, l in rc["holds"]])
        o.bpms = OsuBpmList([OsuBpm(offset=a, bpm=b) for a, b in rc["bpms"]])
        o.svs = OsuSvList([OsuSv(offset=a, multiplier=b) for a, b in rc["svs"]])
        o.circle_size = rc["keys"]
        o.title, o.artist, o.creator, o.tags = rc["title"], rc["artist"], rc["creator"], list(rc["tags"])
        return OsuToQua.convert(o)
    if src == "sm":
        from reamber.sm import SMMapSet, SMMap
        from reamber.sm.SMHit import SMHit
        from reamber.sm.SMHold import SMHold
        from reamber.sm.SMBpm import SMBpm
        from reamber.sm.lists import SMBpmList
        from reamber.sm.lists.notes import SMHitList, SMHoldList
        from reamber.algorithms.convert import SMToQua
        sm = SMMap()
        sm.hits = SMHitList([SMHit(offset=a, column=c) for a, c in rc["hits"]])
        sm.holds = SMHoldList([SMHold(offset=a, column=c, length=l) for a, c, l in rc["holds"]])
        sm.bpms = SMBpmList([SMBpm(offset=a, bpm=b) for a, b in rc["bpms"]])
        sms = SMMapSet()
        sms.maps = [sm]
        sms.title, sms.artist, sms.credit = rc["title"], rc["artist"], rc["creator"]
        return SMToQua.convert(sms)[0]
    if src == "bms":
        from reamber.bms import BMSMap
        from reamber.bms.BMSHit import BMSHit
        from reamber.bms.BMSHold import BMSHold
        from reamber.bms.BMSBpm import BMSBpm
        from reamber.bms.lists import BMSBpmList
        from reamber.bms.lists.notes import BMSHitList, BMSHoldList
        from reamber.algorithms.convert import BMSToQua
        b = BMSMap()
        b.hits = BMSHitList([BMSHit(offset=a, column=c) for a, c in rc["hits"]])
        b.holds = BMSHoldList([BMSHold(offset=a, column=c, length=l) for a, c, l in rc["holds"]])
        b.bpms = BMSBpmList([BMSBpm(offset=a, bpm=x) for a, x in rc["bpms"]])
        enc = lambda s: "".join(ch for ch in s if ord(ch) < 128).encode("ascii")
        b.title, b.artist, b.version = enc(rc["title"]), enc(rc["artist"]), enc(rc["creator"])
        return BMSToQua.convert(b)
    if src == "o2j":
        from reamber.o2jam import O2JMapSet, O2JMap
        from reamber.o2jam.O2JHit import O2JHit
        from reamber.o2jam.O2JHold import O2JHold
        from reamber.o2jam.O2JBpm import O2JBpm
        from reamber.o2jam.lists import O2JBpmList
        from reamber.o2jam.lists.notes import O2JHitList, O2JHoldList
        from reamber.algorithms.convert import O2JToQua
        o = O2JMap()
        o.hits = O2JHitList([O2JHit(offset=a, column=c) for a, c in rc["hits"]])
        o.holds = O2JHoldList([O2JHold(offset=a, column=c, length=l) for a, c, l in rc["holds"]])
        o.bpms = O2JBpmList([O2JBpm(offset=a, bpm=x) for a, x in rc["bpms"]])
        os_ = O2JMapSet()
        os_.maps = [o]
        os_.level = [7]
        os_.title, os_.artist, os_.creator = rc["title"], rc["artist"], rc["creator"]
        return O2JToQua.convert(os_)[0]
    raise ValueError(src)


def execute(case):
    if case.get("io") == "file":
        import tempfile
        with tempfile.TemporaryDirectory() as tmp:
            return _execute(case, tmp)
    return _execute(case, None)


def _execute(case, tmp):
    import yaml
    _install_capture()
    out = {}
    if case["kind"] == "doc":
        text = case["text"]
        loaded = yaml.safe_load(text)
        out["doc"] = tj(loaded)
        if case.get("src") is not None:
            if out["doc"] != case["src"]:
                raise RuntimeError("PyYAML oracle hypothesis failed on a generated document: safe_load(dump(d)) != d")
            out["yaml_rt"] = 1
        out["r"] = out["w1"] = out["w2"] = None
        rw = case.get("rewrite")
        m = _read(text, out, "r", case.get("lines", False), tmp)
        if m is not None:
            out["r"] = _snap_chart(m)
            t1, out["w1"] = _write(m, out, "w1", tmp, rw)
            if t1 is not None:
                m2 = _read(t1, out, "r2", False, tmp)
                if m2 is not None:
                    _, out["w2"] = _write(m2, out, "w2", tmp, rw)
        return out
    m = _build_native(case["recipe"]) if case["origin"] == "native" else _build_conv(case["recipe"])
    out["c"] = _snap_chart(m)
    out["w1"] = out["r1"] = out["w2"] = None
    rw = case.get("rewrite")
    t1, out["w1"] = _write(m, out, "w1", tmp, rw)
    if t1 is not None:
        m1 = _read(t1, out, "r1", False, tmp)
        if m1 is not None:
            out["r1"] = _snap_chart(m1)
            _, out["w2"] = _write(m1, out, "w2", tmp, rw)
    return out


# ------------------------------------------------------------------ Coq side
class _Names:
    def __init__(self):
        self.extra = {}

    def __call__(self, name):
        if name in NAME_IDS:
            return str(NAME_IDS[name])
        if name not in self.extra:
            self.extra[name] = 1000 + len(self.extra)
        return str(self.extra[name])


def _z(n):
    return f"({n})" if n < 0 else str(n)


def _tree(t, nm):
    if t == "nan":
        return "YNaN"
    if t == "null":
        return "YNull"
    if "b" in t:
        return "(YBool true)" if t["b"] else "(YBool false)"
    if "i" in t:
        return f"(YInt {_z(t['i'])})"
    if "f" in t:
        n, d = t["f"]
        return f"(YFloat ({_z(n)}#{d}))"
    if "s" in t:
        return "(YStr [" + ";".join(str(ord(c)) for c in t["s"]) + "])"
    if "l" in t:
        return "(YList [" + ";".join(_tree(x, nm) for x in t["l"]) + "])"
    return "(YMap [" + ";".join(f"({nm(k)},{_tree(v, nm)})" for k, v in t["m"]) + "])"


def _frame(f, nm):
    cols = [nm(c) for c in f["cols"]]
    rows = ["[" + ";".join(f"({c},{_tree(v, nm)})" for c, v in zip(cols, r)) + "]" for r in f["rows"]]
    return "(mkFrame [" + ";".join(cols) + "] [" + ";".join(rows) + "])"


def _chart(c, nm):
    return ("(mkChart " + " ".join(_frame(c[k], nm) for k in ("hits", "holds", "bpms", "svs"))
            + " [" + ";".join(_tree(v, nm) for v in c["meta"]) + "])")


def _opt(x, f):
    return "None" if x is None else f"(Some {f(x)})"


def emit(case, out):
    nm = _Names()
    claim = F.boolean(case.get("claim", True))
    if case["kind"] == "doc":
        return (f"(CDoc {claim} {_tree(out['doc'], nm)} {_opt(out['r'], lambda c: _chart(c, nm))} "
                f"{_opt(out['w1'], lambda t: _tree(t, nm))} {_opt(out['w2'], lambda t: _tree(t, nm))})%Z")
    return (f"(CChart {claim} {_chart(out['c'], nm)} {_opt(out['w1'], lambda t: _tree(t, nm))} "
            f"{_opt(out['r1'], lambda c: _chart(c, nm))} {_opt(out['w2'], lambda t: _tree(t, nm))})%Z")


# ------------------------------------------------------------------ Python re-check of the property (independent of Coq)
def _num(t):
    if isinstance(t, dict):
        if "i" in t and "b" not in t:
            return Fr(t["i"])
        if "f" in t:
            return F.frac_from_json(t["f"])
    return None


def _is_int(t):
    return isinstance(t, dict) and "i" in t


def _is_strlist(t):
    return isinstance(t, dict) and "l" in t and all(isinstance(x, dict) and "s" in x for x in t["l"])


def _has_type(code, t):
    if not isinstance(t, dict):
        return False
    if "s" in t:
        return code == 0
    if "i" in t:
        return code in (1, 2)
    if "f" in t:
        return code == 2
    if "b" in t:
        return code == 3
    if "l" in t:
        return code == 4 and _is_strlist(t)
    return False


def _d(t):
    return dict(t["m"]) if isinstance(t, dict) and "m" in t else None


class Reasons(set):
    pass


def _doc_notes(doc):
    """expected notes of a document: (lane, start, end|None, keysounds, flags)"""
    res = []
    for n in _d(doc)["HitObjects"]["l"]:
        r = _d(n)
        st = _num(r["StartTime"]) if "StartTime" in r else Fr(0)
        lane = r["Lane"]["i"] if "Lane" in r else 1
        ks = [x["s"] for x in r["KeySounds"]["l"]] if "KeySounds" in r else []
        end = _num(r["EndTime"]) if "EndTime" in r else None
        res.append({"lane": lane, "start": st, "end": end, "ks": ks, "no_st": "StartTime" not in r,
                    "no_ks": "KeySounds" not in r, "no_lane": "Lane" not in r})
    return res


def _doc_points(doc, sec, key, dflt):
    res = []
    for n in _d(doc)[sec]["l"]:
        r = _d(n)
        res.append((_num(r["StartTime"]) if "StartTime" in r else Fr(0), _num(r[key]) if key in r else Fr(dflt)))
    return res


def _doc_meta(doc):
    d = _d(doc)
    res = []
    for key, _, code in _layout():
        if key not in d:
            res.append(None)
        elif key == "Tags":
            res.append({"l": [_st(w) for w in d[key]["s"].split(" ") if w]})
        else:
            res.append(d[key])
    return res


def _wf_doc(doc, written):
    d = _d(doc)
    if d is None or len(d) != len(doc["m"]):
        return False
    codes = {k: c for k, _, c in _layout()}
    for k, v in d.items():
        if k in ("HitObjects", "TimingPoints", "SliderVelocities"):
            continue
        if k in codes:
            if not _has_type(codes[k], v):
                return False
        elif written:
            return False
    numok = (lambda v: isinstance(v, dict) and "f" in v) if written else (lambda v: _num(v) is not None)
    spec = {"HitObjects": {"StartTime": _is_int, "EndTime": _is_int, "Lane": lambda v: _is_int(v) and v["i"] >= 1,
                           "KeySounds": _is_strlist},
            "TimingPoints": {"StartTime": _is_int, "Bpm": numok},
            "SliderVelocities": {"StartTime": _is_int, "Multiplier": numok}}
    for sec, allowed in spec.items():
        if sec not in d or not (isinstance(d[sec], dict) and "l" in d[sec]):
            return False
        for n in d[sec]["l"]:
            r = _d(n)
            if r is None or len(r) != len(n["m"]):
                return False
            for k, v in r.items():
                if k not in allowed or not allowed[k](v):
                    return False
    return True


def _rows(f):
    return [dict(zip(f["cols"], r)) for r in f["rows"]]


def _chart_notes(c, rs, where):
    """notes of an in-memory chart, hits then holds; None fields where undefined (a reason is recorded)"""
    res = []
    for kind in ("hits", "holds"):
        for r in _rows(c[kind]):
            o, col = _num(r.get("offset")), _num(r.get("column"))
            ks = r.get("keysounds")
            if ks == "nan":
                rs.add(where + "keysounds-nan")
                ksv = []
            elif _is_strlist(ks):
                ksv = [x["s"] for x in ks["l"]]
            else:
                rs.add("other:" + where + "keysounds")
                ksv = []
            if o is None or col is None or col.denominator != 1:
                rs.add("other:" + where + "cell")
                continue
            end = None
            if kind == "holds":
                ln = _num(r.get("length"))
                if ln is None:
                    rs.add("other:" + where + "length")
                    continue
                end = o + ln
            res.append({"lane": int(col) + 1, "start": o, "end": end, "ks": ksv})
    return res


def _chart_points(c, kind, col, rs, where):
    res = []
    for r in _rows(c[kind]):
        o, x = _num(r.get("offset")), _num(r.get(col))
        if o is None or x is None:
            rs.add("other:" + where + kind)
            continue
        res.append((o, x))
    return res


def _cmp_notes(exp, act, rs, where, close, flags=None):
    if len(exp) != len(act):
        rs.add("other:" + where + "note-count")
        return
    for i, (e, a) in enumerate(zip(exp, act)):
        fl = flags[i] if flags else {}
        tol = (lambda x, y: abs(x - y) < 1) if close else (lambda x, y: x == y)
        if e["lane"] != a["lane"] or not tol(e["start"], a["start"]):
            rs.add("other:" + where + "note")
        if (e["end"] is None) != (a["end"] is None):
            rs.add("other:" + where + "hold-kind")
        elif e["end"] is not None and not tol(e["end"], a["end"]):
            if fl.get("no_st") and a["end"] == a["start"]:
                rs.add("qua-read-hold-omitted-starttime-length0")
            else:
                rs.add("other:" + where + "end")
        if e["ks"] != a["ks"]:
            rs.add("other:" + where + "ks")


def _cmp_points(exp, act, rs, where, close):
    if len(exp) != len(act):
        rs.add("other:" + where + "count")
        return
    for e, a in zip(exp, act):
        if (abs(e[0] - a[0]) >= 1 if close else e[0] != a[0]) or e[1] != a[1]:
            rs.add("other:" + where + "point")


def _cmp_meta(declared, actual, rs, where):
    for (key, _, code), d, a in zip(_layout(), declared, actual):
        if d is None:
            want = 4 if key == "Tags" else code
            if not _has_type(want, a):
                if key == "InitialScrollVelocity" and a == {"s": ""}:
                    rs.add("qua-meta-isv-default-str")
                else:
                    rs.add("other:" + where + "meta-default:" + key)
        elif d != a:
            rs.add("other:" + where + "meta:" + key)


def _check_written(w, rs, where):
    """well-formedness of a written document, with the known deviations named"""
    d = _d(w)
    fixed = {"m": []}
    for k, v in w["m"]:
        if k in ("HitObjects", "TimingPoints", "SliderVelocities") and isinstance(v, dict) and "l" in v:
            recs = []
            for n in v["l"]:
                r = []
                for kk, vv in (n["m"] if isinstance(n, dict) and "m" in n else []):
                    if kk == "index":
                        rs.add("qua-write-index-key")
                        continue
                    if kk == "KeySounds" and vv == "nan":
                        rs.add("qua-write-keysounds-nan")
                        vv = {"l": []}
                    r.append([kk, vv])
                recs.append({"m": r})
            fixed["m"].append([k, {"l": recs}])
        elif k == "InitialScrollVelocity" and v == {"s": ""}:
            rs.add("qua-meta-isv-default-str")
            fixed["m"].append([k, _fl(0.0)])
        else:
            fixed["m"].append([k, v])
    if not _wf_doc(fixed, True):
        rs.add("other:" + where + "not-wf")
    if any(k not in d for k, _, _ in _layout()):
        rs.add("other:" + where + "meta-key-missing")
    return fixed


def _sorted_hits_then_holds(notes):
    return [n for n in notes if n["end"] is None] + [n for n in notes if n["end"] is not None]


def reasons(case, out):
    """every way in which this case's outputs violate the property, as stable keys; '' set = no violation.
    None = the case is outside the claimed domain."""
    rs = Reasons()
    if not case.get("claim", True):
        return None
    if case["kind"] == "doc":
        doc = out["doc"]
        if not _wf_doc(doc, False):
            return None
        exp = _doc_notes(doc)
        exp_hh = _sorted_hits_then_holds(exp)
        e_b = _doc_points(doc, "TimingPoints", "Bpm", 120)
        e_s = _doc_points(doc, "SliderVelocities", "Multiplier", 1)
        e_m = _doc_meta(doc)
        if out["r"] is None:
            hits = [n for n in exp if n["end"] is None]
            holds = [n for n in exp if n["end"] is not None]
            exc = out.get("exc_r", "")
            if holds and all(n["no_st"] for n in holds) and exc.startswith("KeyError"):
                rs.add("qua-read-holds-all-omit-starttime-keyerror")
            elif ((hits and all(n["no_lane"] for n in hits)) or (holds and all(n["no_lane"] for n in holds))) \
                    and exc.startswith("AttributeError"):
                rs.add("qua-read-all-omit-lane-attributeerror")
            else:
                rs.add("other:read-raised:" + exc[:40])
            return rs
        c = out["r"]
        sub = Reasons()
        act = _chart_notes(c, sub, "r:")
        if "r:keysounds-nan" in sub:
            sub.discard("r:keysounds-nan")
            # NaN where the document omitted KeySounds, and only there
            ok = True
            rows = _rows(c["hits"]) + _rows(c["holds"])
            for e, r in zip(exp_hh, rows):
                if (r.get("keysounds") == "nan") and not e["no_ks"]:
                    ok = False
            rs.add("qua-read-omitted-keysounds-nan" if ok and len(rows) == len(exp_hh) else "other:r:keysounds-nan")
        rs |= sub
        _cmp_notes(exp_hh, act, rs, "r:", False, exp_hh)
        _cmp_points(e_b, _chart_points(c, "bpms", "bpm", rs, "r:"), rs, "r:bpm-", False)
        _cmp_points(e_s, _chart_points(c, "svs", "multiplier", rs, "r:"), rs, "r:sv-", False)
        _cmp_meta(e_m, c["meta"], rs, "r:")
        # write after read
        if out["w1"] is None:
            rs.add("other:w1-raised:" + out.get("exc_w1", "")[:40])
            return rs
        fixed = _check_written(out["w1"], rs, "w1:")
        if "qua-write-keysounds-nan" in rs and "qua-read-omitted-keysounds-nan" in rs:
            rs.discard("qua-write-keysounds-nan")          # same defect seen one step later
        try:
            _cmp_notes(exp_hh, _doc_notes(fixed), rs, "w1:", False, exp_hh)
            _cmp_points(e_b, _doc_points(fixed, "TimingPoints", "Bpm", 120), rs, "w1:bpm-", False)
            _cmp_points(e_s, _doc_points(fixed, "SliderVelocities", "Multiplier", 1), rs, "w1:sv-", False)
            _cmp_meta(e_m, _doc_meta(fixed), rs, "w:")
        except (KeyError, TypeError, AttributeError):
            rs.add("other:w1:undenotable")
        if out["w2"] != out["w1"] and not _tree_same_mod_order(out["w1"], out["w2"]):
            rs.add("other:generation-drift")
        return rs
    # ---- chart case
    c = out["c"]
    if not _wf_chart(c):
        return None
    sub = Reasons()
    exp = _chart_notes(c, sub, "c:")
    nan_in = "c:keysounds-nan" in sub
    sub.discard("c:keysounds-nan")
    rs |= sub
    e_b = _chart_points(c, "bpms", "bpm", rs, "c:")
    e_s = _chart_points(c, "svs", "multiplier", rs, "c:")
    if out["w1"] is None:
        rs.add("other:w1-raised:" + out.get("exc_w1", "")[:40])
        return rs
    fixed = _check_written(out["w1"], rs, "w1:")
    if nan_in and "qua-write-keysounds-nan" not in rs:
        rs.add("other:c:keysounds-nan-vanished")
    try:
        _cmp_notes(exp, _doc_notes(fixed), rs, "w1:", True)
        _cmp_points(e_b, _doc_points(fixed, "TimingPoints", "Bpm", 120), rs, "w1:bpm-", True)
        _cmp_points(e_s, _doc_points(fixed, "SliderVelocities", "Multiplier", 1), rs, "w1:sv-", True)
        cm = list(c["meta"])
        if cm[6] == {"s": ""}:
            cm[6] = _fl(0.0)
        _cmp_meta(_doc_meta(fixed), cm, rs, "w:")
    except (KeyError, TypeError, AttributeError):
        rs.add("other:w1:undenotable")
    if out["r1"] is None:
        rs.add("other:r1-raised:" + out.get("exc_r1", "")[:40])
        return rs
    sub = Reasons()
    act = _chart_notes(out["r1"], sub, "r1:")
    if "r1:keysounds-nan" in sub:
        sub.discard("r1:keysounds-nan")
        if not nan_in:
            rs.add("other:r1:keysounds-nan")
    rs |= sub
    _cmp_notes(exp, act, rs, "r1:", True)
    _cmp_points(e_b, _chart_points(out["r1"], "bpms", "bpm", rs, "r1:"), rs, "r1:bpm-", True)
    _cmp_points(e_s, _chart_points(out["r1"], "svs", "multiplier", rs, "r1:"), rs, "r1:sv-", True)
    if [x for i, x in enumerate(out["r1"]["meta"])] != list(c["meta"]):
        rs.add("other:r1:meta")
    if not _tree_same_mod_order(out["w1"], out["w2"], strip="qua-write-index-key" in rs):
        rs.add("other:generation-drift")
    return rs


def _canon(t):
    if isinstance(t, dict):
        if "m" in t:
            return ("m", tuple(sorted((k, _canon(v)) for k, v in t["m"])))
        if "l" in t:
            return ("l", tuple(_canon(x) for x in t["l"]))
        return tuple(sorted((k, str(v)) for k, v in t.items()))
    return t


def _strip_index(t):
    """a document without the `index` keys of its records (consequence of qua-write-index-key)"""
    if isinstance(t, dict) and "m" in t:
        return {"m": [[k, _strip_index(v)] for k, v in t["m"] if k != "index"]}
    if isinstance(t, dict) and "l" in t:
        return {"l": [_strip_index(x) for x in t["l"]]}
    return t


def _tree_same_mod_order(a, b, strip=False):
    if a is None or b is None:
        return a is b
    if strip:
        a, b = _strip_index(a), _strip_index(b)
    return _canon(a) == _canon(b)


def _wf_chart(c):
    decl = {"hits": {"offset", "column", "keysounds"}, "holds": {"offset", "column", "keysounds", "length"},
            "bpms": {"offset", "bpm", "metronome"}, "svs": {"offset", "multiplier"}}
    for k, d in decl.items():
        cols = c[k]["cols"]
        if len(set(cols)) != len(cols) or not d <= set(cols) or not set(cols) <= d | {"index"}:
            return False
        for r in _rows(c[k]):
            for col, v in r.items():
                if col == "keysounds":
                    if not (v == "nan" or _is_strlist(v)):
                        return False
                elif col == "column":
                    x = _num(v)
                    if x is None or x.denominator != 1 or x < 0:
                        return False
                elif col == "index":
                    if not _is_int(v):
                        return False
                elif _num(v) is None:
                    return False
    for (key, _, code), v in zip(_layout(), c["meta"]):
        if key == "Tags":
            if not (_is_strlist(v) and all(x["s"] and " " not in x["s"] for x in v["l"])):
                return False
        elif not _has_type(code, v) and not (key == "InitialScrollVelocity" and v == {"s": ""}):
            return False
    return True


def py_oracle(case, out):
    rs = reasons(case, out)
    if rs is None:
        return None
    return not rs


def classify(case, out, kind):
    """the known key only when EVERY violation of the case is a still-open known finding; otherwise the name of the
    first violation that is not (a repaired class that came back, or an unclassified one) - never in the known list"""
    if kind != "spec":
        return None
    try:
        rs = reasons(case, out)
    except Exception:
        return None
    if not rs:
        return None
    bad = sorted(r for r in rs if r not in KNOWN_ORDER)
    if bad:
        for k in FIXED_KEYS:
            if k in bad:
                return "regression:" + k
        return bad[0]
    for k in KNOWN_ORDER:
        if k in rs:
            return k
    return None


def nontrivial(case, out):
    if case["kind"] == "doc":
        d = _d(out["doc"]) or {}
        return any(isinstance(d.get(s), dict) and d[s].get("l") for s in ("HitObjects", "TimingPoints", "SliderVelocities"))
    c = out["c"]
    return any(c[k]["rows"] for k in ("hits", "holds", "bpms", "svs"))


def bucket(case, out):
    if case["kind"] == "doc":
        k = "doc" + ("" if case.get("claim", True) else "-unclaimed")
        if out.get("r") is None:
            k += "/read-raised:" + out.get("exc_r", "?").split(":")[0]
    else:
        k = "chart/" + case["origin"] + (":" + case["recipe"]["src"] if case["origin"] == "conv" else ":" + case["recipe"]["via"])
        if out.get("w1") is None:
            k += "/write-raised"
    k += f"/yaml-oracle-ok={out.get('yaml_rt', 0)}"
    if case.get("io") == "file":
        k += f"/read_file+write_file:{out.get('file_io', 0)}"
    if case.get("rewrite"):
        k += f"/same-object-rewritten:{case['rewrite']}x{out.get('rewrites', 0)}"
    return k


def describe(case, out):
    try:
        rs = reasons(case, out)
    except Exception as e:
        rs = f"reasons failed: {e}"
    if case["kind"] == "doc":
        return f"document (claimed={case.get('claim', True)}):\n{case['text']}\nviolations: {sorted(rs) if rs else rs}"
    return f"chart origin={case['origin']} recipe={case['recipe']}\nviolations: {sorted(rs) if rs else rs}"


def _label(case):
    try:
        return classify(case, execute(case), "spec")
    except Exception:
        return None


def shrink(case):
    """candidates that still show the SAME not-known violation class (so that shrinking cannot slide from a new violation
    into a known finding or into another class); when the case has none (pure correspondence failure) every candidate"""
    want = _label(case)
    if want in KNOWN_ORDER:
        want = None
    for c in _shrink_all(case):
        if want is None or _label(c) == want:
            yield c


def _shrink_all(case):
    import yaml
    if case["kind"] == "doc":
        try:
            doc = yaml.safe_load(case["text"])
        except Exception:
            return
        if not isinstance(doc, dict):
            return

        def mk(d):
            return {"kind": "doc", "claim": case.get("claim", True), "lines": False, "src": tj(d),
                    "io": case.get("io", "str"), "rewrite": case.get("rewrite"),
                    "text": yaml.safe_dump(d, sort_keys=False, allow_unicode=True)}
        for k in list(doc):
            if k in ("HitObjects", "TimingPoints", "SliderVelocities"):
                if isinstance(doc[k], list):
                    for i in range(len(doc[k])):
                        d = copy.deepcopy(doc)
                        del d[k][i]
                        yield mk(d)
                    for i, rec in enumerate(doc[k]):
                        if isinstance(rec, dict):
                            for kk in list(rec):
                                d = copy.deepcopy(doc)
                                del d[k][i][kk]
                                yield mk(d)
            else:
                d = copy.deepcopy(doc)
                del d[k]
                yield mk(d)
        return
    rc = case["recipe"]
    for k in ("hits", "holds", "bpms", "svs"):
        for i in range(len(rc[k])):
            c = copy.deepcopy(case)
            del c["recipe"][k][i]
            yield c
    if case["origin"] == "native":
        for a in list(rc["meta"]):
            c = copy.deepcopy(case)
            del c["recipe"]["meta"][a]
            yield c
