"""C20: pattern grouping and combinations.

One "pipe" case drives the public API end to end and records every intermediate state the
implementation exposes: Pattern(...)/Pattern.from_note_lists(...) -> .df, .group(...) -> groups,
PtnFilter*.create(...) -> .ar, PtnCombo(groups).combinations(...)/template_* -> combinations.
Coq re-checks each step from the implementation's own previous state (model == implementation, and the
specification's oracle on the implementation's output).  "create_*" cases exercise the filter
constructors' option expansion alone."""
from fractions import Fraction as Fr
from math import lcm
import itertools

from .. import coqfmt as F

ID = "C20"
RUNNER = "Corr.RunC20"
CASE_TYPE = "c20case"
RUNNER_TARGETS = ["Corr/RunC20.vo"]
PROOF_TARGETS = ["Props/C20.vo"]
PROPS_FILE = "Props/C20.v"
PROPS_MODULE = "Props.C20"
RULE = ("seeded generator of note sets (0..12 notes on a small time grid so that ties and repeated columns are the norm; "
        "hits, holds with tails, game subclasses; built directly or through note lists with/without tails), windows "
        "v in {0, one step, several steps, huge, fractional, rarely negative}, h in {None, 0, 1, 2, keys, rarely negative}, "
        "both jack settings, keys 4..7 (rarely 1..3, 8), combination sizes 2..4 (rarely 1, 5), make_size2 both, chord / column / type "
        "filters built by the constructors with every option mask and exclude flag (rows drawn from the sizes/columns/types "
        "actually present, or random; rarely of the wrong width), both templates; thorough tier adds all multisets of "
        "<= 4 hits on 4 columns x 4 times with every window from a small set; a case is non-trivial when it has >= 2 groups "
        "or a filter constructor with a non-zero option mask; distinct by hash of the canonical JSON of the input")
ASSUMPTIONS = [
    "times are only compared, added and subtracted by the anchored code: the model is over Z and the harness multiplies "
    "all times of a case (offsets, hold lengths, v_window) by their common denominator; generated times are integers or "
    "dyadic fractions so the implementation's float additions offset+length and offset+v_window are exact",
    "pandas' sort_values in Pattern.__init__ is not stable (observed for > 16 rows): the tie for construction is relational "
    "(df is a permutation of the rows, sorted by offset) and grouping/combinations are checked from the df the implementation built",
    "bisect_left/bisect_right are modelled by their meaning on a sorted list (count of elements < x / <= x); sortedness of "
    "Pattern.df is checked on every case (wf)",
    "note classes are modelled by a 7-element enum closed under the observable subclass relation "
    "(object > Note > {Hit > OsuHit, Hold > OsuHold, HoldTail}); int64 overflow of the column hash is not modelled "
    "(keys <= 8, size <= 5 generated)",
    "rows of one combination array are compared up to permutation (the order np.meshgrid yields is modelled but not promised)",
    "PtnFilter.__and__/__or__ are not part of the property and not modelled",
]
TRUSTED = []
MANIFEST = dict(
    text="Machine-checked theorems (Coq 8.16.1, 28 statements in Props/C20.v) about an executable Gallina model of Pattern.__init__/"
         "from_note_lists, Pattern.group, PtnCombo.combinations, PtnFilter{Combo,Chord,Type}.filter/.create and the two templates, for ALL "
         "note sets, windows v >= 0, h in {None,0,1,..}, both jack settings, sizes >= 2, make_size2 and filter arrays: grouping is a "
         "partition (multiset of rows), every group lies in the vertical and horizontal window of its first note and has no repeated "
         "column when jacks are avoided; combinations() returns exactly (multiset, both inclusions) the sequences taking one note from "
         "each of n consecutive groups that pass the chord-size, column and type filters (C20_combos_exact, every filter, no guard; "
         "np.meshgrid order proved a permutation of the product; base-keys hash proved injective on 0..keys-1); template_jacks and "
         "template_chord_stream are proved equal to their own specifications; every constructor option (REPEAT/HMIRROR/VMIRROR/AND_LOWER/"
         "AND_HIGHER/ANY_ORDER/MIRROR, np.unique) is characterised as a set of rows; the boolean oracles are proved to decide the "
         "specification. The defect found by this check (element-wise chord test, fixed in 1bc6769) survives as a clearly named OLD "
         "variant of which the statement is refuted with a witness. The model is tied to the code on every run by in-Coq correspondence on "
         "~1200 generated cases (thorough: 24000 + exhaustive small scope), step by step along the implementation's own states (df, "
         "groups, filter arrays, combinations), plus the oracle on implementation outputs; only the repaired behaviour is accepted.",
    note="No known findings (chord-filter-elementwise-any fixed in 1bc6769; reverting it raises a VIOLATION with a replay). Domain guards: "
         "size >= 2, filter width = combination size, columns and filter rows within 0..keys-1 when a column filter or a template is used "
         "(hash collisions otherwise). bisect is modelled by its meaning on a sorted list (sortedness checked per case). Trusted: Coq "
         "kernel+VM, harness generator/serialiser; times scaled to Z; all theorems 'Closed under the global context'.",
    technique="Coq proof over executable model + vm_compute correspondence against the implementation",
    design="4/C20")

TYPES = ["Hit", "Hold", "HoldTail", "OsuHit", "OsuHold", "object", "Note"]
COQ_T = {"Hit": "THit", "Hold": "THold", "HoldTail": "TTail", "OsuHit": "TGHit", "OsuHold": "TGHold",
         "object": "TObject", "Note": "TNote"}
_PARENTS = {"Hit": ["Hit", "Note", "object"], "Hold": ["Hold", "Note", "object"], "HoldTail": ["HoldTail", "Note", "object"],
            "OsuHit": ["OsuHit", "Hit", "Note", "object"], "OsuHold": ["OsuHold", "Hold", "Note", "object"],
            "Note": ["Note", "object"], "object": ["object"]}


def _sub(x, c):
    return c in _PARENTS[x]


def _classes():
    from reamber.base.Hit import Hit
    from reamber.base.Hold import Hold, HoldTail
    from reamber.base.Note import Note
    from reamber.osu.OsuHit import OsuHit
    from reamber.osu.OsuHold import OsuHold
    return {"Hit": Hit, "Hold": Hold, "HoldTail": HoldTail, "OsuHit": OsuHit, "OsuHold": OsuHold,
            "object": object, "Note": Note}


# ------------------------------------------------------------------ generator
def _times(rng):
    step = rng.choice([Fr(1), Fr(1), Fr(100), Fr(50), Fr(1, 2), Fr(1, 4), Fr(25, 2)])
    base = rng.choice([Fr(0), Fr(0), Fr(1000), Fr(-300), Fr(-5, 2)])
    span = rng.choice([1, 2, 3, 4, 6])
    return step, base, span


def _gen_notes(rng, keys, narrow=False):
    step, base, span = _times(rng)
    n = rng.choice([0, 1, 2, 3, 4, 5, 6, 6, 7, 8, 8, 9, 10, 12])
    bad_col = rng.random() < 0.06
    few = rng.sample(range(keys), min(keys, rng.choice([1, 2, 2])))
    def col():
        if bad_col and rng.random() < 0.3:
            return rng.choice([-1, keys, keys + 2, -3])
        if narrow:
            return rng.choice(few)
        if rng.random() < 0.3:
            return rng.randrange(min(keys, 2))
        return rng.randrange(keys)
    def t():
        return base + step * rng.randrange(span + 1)
    if rng.random() < 0.5:
        notes = []
        for _ in range(n):
            notes.append([col(), F.frac_json(t()), rng.choice(["Hit", "Hit", "Hit", "Hold", "HoldTail", "OsuHit", "OsuHold"])])
        # holds with their tails, in the same column
        for _ in range(rng.choice([0, 0, 1, 2])):
            c, o = col(), t()
            ln = step * rng.choice([0, 1, 1, 2, 5])
            notes.append([c, F.frac_json(o), "Hold"])
            notes.append([c, F.frac_json(o + ln), "HoldTail"])
        rng.shuffle(notes)
        notes = notes[:14]
        return {"mode": "direct", "notes": notes, "floats": rng.random() < 0.5}, step
    lists = []
    left = n
    for cls in rng.sample(["HitList", "HoldList", "OsuHitList", "OsuHoldList", "HitList", "HoldList"], rng.choice([0, 1, 2, 2, 3, 4])):
        k = rng.choice([0, 1, 2, 3, 4, 5]) if left > 0 else 0
        k = min(k, left)
        left -= k
        rows = []
        for _ in range(k):
            ln = step * rng.choice([0, 1, 1, 2, 3, 7]) if "Hold" in cls else Fr(0)
            rows.append([col(), F.frac_json(t()), F.frac_json(ln)])
        lists.append({"cls": cls, "rows": rows})
    return {"mode": "lists", "lists": lists, "tails": rng.random() < 0.7}, step


def _gen_window(rng, step, keys):
    r = rng.random()
    if r < 0.25:
        v = Fr(0)
    elif r < 0.5:
        v = step
    elif r < 0.65:
        v = step * rng.choice([2, 3])
    elif r < 0.75:
        v = step * rng.choice([Fr(1, 2), Fr(3, 2)])
    elif r < 0.9:
        v = Fr(10 ** rng.choice([4, 9]))
    elif r < 0.96:
        v = step - Fr(1, 4)
    else:
        v = -step
    r = rng.random()
    if r < 0.4:
        h = None
    elif r < 0.95:
        h = rng.choice([0, 0, 1, 1, 2, 3, keys])
    else:
        h = -1
    return v, h, rng.random() < 0.6


def _chord_rows_estimate(rows, keys, options):
    """number of rows the constructor builds before np.unique (bounds the size of the Coq literal / model run)"""
    w = len(rows[0])
    n = len(rows)
    mx = [max(r[k] for r in rows) for k in range(w)]
    if options & 4:
        hi = 1
        for k in range(w):
            hi *= max(0, keys + 1 - min(r[k] for r in rows))
        n += hi
        if hi:
            mx = [max(m, keys) for m in mx]
    if options & 2:
        lo = 1
        for m in mx:
            lo *= max(0, m)
        n += lo
    return n


def _gen_chord_spec(rng, size, keys, wrong=False):
    w = size if not wrong else rng.choice([1, size + 1, max(1, size - 1)])
    nrows = rng.choice([1, 1, 1, 2, 3])
    top = max(1, min(4, keys))
    rows = [[min(top, rng.choice([1, 1, 2, 2, 3, 4, top, top])) if rng.random() < 0.97 else keys + 1 for _ in range(w)]
            for _ in range(nrows)]
    options = rng.choice([0, 0, 0, 1, 2, 3, 4, 5, 6, 7])
    for drop in (4, 2):
        if _chord_rows_estimate(rows, keys, options) > 160:
            options &= ~drop
    inp = rows
    if nrows == 1 and rng.random() < 0.2:
        inp = rows[0]           # 1-D: one row
    return {"rows": inp, "keys": keys, "options": options, "exclude": rng.random() < 0.2}


def _gen_combo_spec(rng, size, keys, wrong=False):
    w = size if not wrong else rng.choice([1, size + 1, max(1, size - 1)])
    nrows = rng.choice([1, 1, 2, 3, 5])
    rows = []
    for _ in range(nrows):
        r = rng.random()
        if r < 0.3:
            c = rng.randrange(keys)
            rows.append([c] * w)
        else:
            rows.append([rng.randrange(keys) for _ in range(w)])
    if rng.random() < 0.03:
        rows[0][0] = rng.choice([-1, keys, -3])
    return {"rows": rows, "keys": keys, "options": rng.choice([0, 0, 1, 1, 2, 3, 4, 5, 6, 7]), "exclude": rng.random() < 0.3}


def _gen_type_spec(rng, size, wrong=False):
    w = size if not wrong else rng.choice([1, size + 1, max(1, size - 1)])
    nrows = rng.choice([1, 1, 2, 3])
    pool = ["Hit", "Hit", "Hold", "HoldTail", "object", "object", "Note", "OsuHit", "OsuHold"]
    rows = [[rng.choice(pool) for _ in range(w)] for _ in range(nrows)]
    return {"rows": rows, "options": rng.choice([0, 0, 1, 2, 3]), "exclude": rng.random() < 0.4}


def _gen_req(rng, keys):
    r = rng.random()
    if r < 0.08:
        return None
    if r < 0.68:
        size = rng.choice([2, 2, 2, 3, 3, 4, 4, 1, 5]) if rng.random() < 0.15 else rng.choice([2, 2, 3, 3, 4])
        # wrong filter widths only for size >= 2: with size 1 numpy broadcasts the length-1 vector against any
        # width, which lies outside the property's sizes 2..4 and is not modelled
        wrong = rng.random() < 0.05 and size >= 2
        return {"t": "combos", "size": size, "ms2": rng.random() < 0.5,
                "chord": _gen_chord_spec(rng, size, keys, wrong and rng.random() < 0.5) if rng.random() < 0.45 else None,
                "combo": _gen_combo_spec(rng, size, keys, wrong and rng.random() < 0.5) if rng.random() < 0.5 else None,
                "type": _gen_type_spec(rng, size, wrong and rng.random() < 0.5) if rng.random() < 0.5 else None}
    if r < 0.82:
        return {"t": "jacks", "minlen": rng.choice([2, 2, 3, 3, 4, 1]), "keys": keys}
    return {"t": "cs", "p": rng.choice([1, 2, 2, 3]), "s": rng.choice([1, 1, 2, 3]), "keys": keys,
            "and_lower": rng.random() < 0.5, "include_jack": rng.random() < 0.4}


def _gen_pipe(rng):
    keys = rng.choice([4, 4, 5, 6, 7]) if rng.random() < 0.9 else rng.choice([1, 2, 3, 8])
    req = _gen_req(rng, keys)
    # jacks need repeated columns in consecutive groups (and tails among them): few distinct columns
    init, step = _gen_notes(rng, keys, narrow=bool(req) and req["t"] == "jacks" and rng.random() < 0.7)
    v, h, aj = _gen_window(rng, step, keys)
    return {"kind": "pipe", "init": init, "v": F.frac_json(v), "h": h, "aj": aj, "vfloat": rng.random() < 0.5,
            "req": req}


def _gen_create(rng):
    keys = rng.choice([1, 2, 3, 4, 4, 5, 6, 7, 8])
    size = rng.choice([1, 2, 2, 3, 3, 4])
    r = rng.random()
    if r < 0.4:
        s = _gen_combo_spec(rng, size, keys)
        if rng.random() < 0.1:
            s["rows"] = [rng.randrange(keys) for _ in range(rng.choice([1, 2, 3]))]   # 1-D: column vector
        if rng.random() < 0.1:
            s["rows"][0] = [rng.choice([-2, keys + 1])] * len(s["rows"][0]) if isinstance(s["rows"][0], list) else s["rows"][0]
        return {"kind": "create_combo", "f": s}
    if r < 0.75:
        s = _gen_chord_spec(rng, size, keys)
        if rng.random() < 0.05:
            s["rows"] = rng.choice([1, 2, keys + 1])                                   # scalar
        return {"kind": "create_chord", "f": s}
    s = _gen_type_spec(rng, size)
    if rng.random() < 0.1:
        s["rows"] = [rng.choice(["Hit", "Hold", "HoldTail"]) for _ in range(rng.choice([1, 2, 3]))]
    return {"kind": "create_type", "f": s}


def _exhaustive(budget):
    """all multisets of <= 4 hits on 4 columns x 4 times, windows from a small set, both jack settings"""
    cells = [(c, t) for t in range(4) for c in range(4)]
    wins = [(v, h, aj) for v in (0, 1, 3) for h in (None, 0, 1) for aj in (True, False)]
    out = []
    k = 0
    for n in range(0, 5):
        for ms in itertools.combinations_with_replacement(cells, n):
            v, h, aj = wins[k % len(wins)]
            typ = ["Hit", "Hold", "HoldTail"][k % 3] if k % 5 == 0 else "Hit"
            notes = [[c, [t, 1], typ if i == 0 else "Hit"] for i, (c, t) in enumerate(ms)]
            req = [None, {"t": "combos", "size": 2, "ms2": False, "chord": None, "combo": None, "type": None},
                   {"t": "jacks", "minlen": 2, "keys": 4},
                   {"t": "combos", "size": 3, "ms2": True, "chord": None,
                    "combo": {"rows": [[0, 1, 0]], "keys": 4, "options": 7, "exclude": False}, "type": None}][k % 4]
            out.append({"kind": "pipe", "init": {"mode": "direct", "notes": notes, "floats": False},
                        "v": [v, 1], "h": h, "aj": aj, "vfloat": False, "req": req})
            k += 1
            if len(out) >= budget:
                return out
    return out


def generate(rng, tier):
    n = 1200 if tier == "quick" else 24000
    cases = []
    for i in range(n):
        cases.append(_gen_create(rng) if rng.random() < 0.3 else _gen_pipe(rng))
    if tier != "quick":
        cases.extend(_exhaustive(5000))
    return cases


# ------------------------------------------------------------------ implementation side
def _num(fr, as_float):
    fr = Fr(fr)
    if as_float:
        return float(fr)
    return int(fr) if fr.denominator == 1 else float(fr)


def _tname(cls):
    names = {v: k for k, v in _classes().items()}
    return names[cls]


def _item(x):
    return x.item() if hasattr(x, "item") else x


def _rowj(rec):
    return [int(_item(rec["column"])), F.frac_json(Fr(_item(rec["offset"]))), _tname(rec["type"])]


def _arr_rows(ar):
    rows = []
    for row in ar:
        vals = [Fr(_item(x)) for x in row]
        if any(v.denominator != 1 for v in vals):
            raise ValueError("non-integral filter entry")
        rows.append([int(v) for v in vals])
    return rows


def _mk_chord(s):
    from reamber.algorithms.pattern.filters.PtnFilter import PtnFilterChord
    return PtnFilterChord.create(s["rows"], keys=s["keys"], options=s["options"], exclude=s["exclude"])


def _mk_combo(s):
    from reamber.algorithms.pattern.filters.PtnFilter import PtnFilterCombo
    return PtnFilterCombo.create(s["rows"], keys=s["keys"], options=s["options"], exclude=s["exclude"])


def _mk_type(s):
    from reamber.algorithms.pattern.filters.PtnFilter import PtnFilterType
    C = _classes()
    rows = s["rows"]
    rows = [[C[x] for x in r] for r in rows] if rows and isinstance(rows[0], list) else [C[x] for x in rows]
    return PtnFilterType.create(rows, options=s["options"], exclude=s["exclude"])


def _fout(f, typ=False):
    import numpy as np
    ar = np.asarray(f.ar)
    if ar.ndim != 2:
        raise ValueError(f"filter array of ndim {ar.ndim}")
    rows = [[_tname(x) for x in r] for r in ar] if typ else _arr_rows(ar)
    return {"w": int(ar.shape[1]), "ar": rows, "inv": bool(f.invert_filter), "keys": int(f.keys)}


_EXC = (ValueError, IndexError, TypeError)


def execute(case):
    import numpy as np
    kind = case["kind"]
    if kind.startswith("create_"):
        s = case["f"]
        try:
            f = {"create_chord": _mk_chord, "create_combo": _mk_combo, "create_type": _mk_type}[kind](s)
        except _EXC as e:
            return {"v": None, "exc": type(e).__name__ + ": " + str(e)[:80]}
        return {"v": _fout(f, kind == "create_type")}

    from reamber.algorithms.pattern import Pattern
    from reamber.algorithms.pattern.combos import PtnCombo
    C = _classes()
    init = case["init"]
    if init["mode"] == "direct":
        notes = init["notes"]
        p = Pattern([n[0] for n in notes], [_num(F.frac_from_json(n[1]), init.get("floats")) for n in notes],
                    [C[n[2]] for n in notes])
    else:
        from reamber.base.Hit import Hit
        from reamber.base.Hold import Hold
        from reamber.base.lists.notes.HitList import HitList
        from reamber.base.lists.notes.HoldList import HoldList
        from reamber.osu.OsuHit import OsuHit
        from reamber.osu.OsuHold import OsuHold
        from reamber.osu.lists.notes.OsuHitList import OsuHitList
        from reamber.osu.lists.notes.OsuHoldList import OsuHoldList
        nls = []
        for l in init["lists"]:
            rows = [(r[0], float(F.frac_from_json(r[1])), float(F.frac_from_json(r[2]))) for r in l["rows"]]
            if l["cls"] == "HitList":
                nls.append(HitList([Hit(o, c) for c, o, _ in rows]))
            elif l["cls"] == "HoldList":
                nls.append(HoldList([Hold(o, c, ln) for c, o, ln in rows]))
            elif l["cls"] == "OsuHitList":
                nls.append(OsuHitList([OsuHit(o, c) for c, o, _ in rows]))
            else:
                nls.append(OsuHoldList([OsuHold(o, c, ln) for c, o, ln in rows]))
        p = Pattern.from_note_lists(nls, include_tails=init["tails"])
    out = {"df": [_rowj(r) for r in p.df.to_records(index=False)], "groups": None, "combos": None, "filters": {}}
    v = _num(F.frac_from_json(case["v"]), case.get("vfloat"))
    try:
        groups = p.group(v, case["h"], case["aj"])
    except ValueError as e:
        out["exc_group"] = str(e)[:80]
        return out
    out["groups"] = [[_rowj(r) for r in g] for g in groups]
    req = case.get("req")
    if not req:
        return out
    pc = PtnCombo(groups)
    if req["t"] == "combos":
        try:
            cf = _mk_chord(req["chord"]) if req["chord"] else None
            kf = _mk_combo(req["combo"]) if req["combo"] else None
            tf = _mk_type(req["type"]) if req["type"] else None
        except _EXC as e:
            # a constructor rejected its arguments (covered by the create_* cases): nothing to combine
            out["req_dropped"] = type(e).__name__ + ": " + str(e)[:80]
            return out
        out["filters"] = {"chord": _fout(cf) if cf else None, "combo": _fout(kf) if kf else None,
                          "type": _fout(tf, True) if tf else None}
    try:
        if req["t"] == "combos":
            res = pc.combinations(size=req["size"], make_size2=req["ms2"],
                                  chord_filter=cf.filter if cf else None,
                                  combo_filter=kf.filter if kf else None,
                                  type_filter=tf.filter if tf else None)
        elif req["t"] == "jacks":
            res = pc.template_jacks(req["minlen"], req["keys"])
        else:
            res = pc.template_chord_stream(req["p"], req["s"], req["keys"], req["and_lower"], req["include_jack"])
    except _EXC as e:
        out["exc_combos"] = type(e).__name__ + ": " + str(e)[:80]
        return out
    combos = []
    for ar in res:
        ar = np.asarray(ar)
        if ar.ndim != 2:
            raise ValueError("combination array is not 2-D")
        combos.append([[_rowj(x) for x in row] for row in ar])
    out["combos"] = combos
    return out


# ------------------------------------------------------------------ Coq side
def _scale(case, out):
    dens = [Fr(*case["v"]).denominator]
    init = case["init"]
    if init["mode"] == "direct":
        dens += [n[1][1] for n in init["notes"]]
    else:
        for l in init["lists"]:
            for r in l["rows"]:
                dens += [r[1][1], r[2][1]]
    for r in out["df"]:
        dens.append(r[1][1])
    return lcm(*dens)


def _z(fr, k):
    x = Fr(*fr) * k
    if x.denominator != 1:
        raise ValueError("time not integral after scaling")
    return str(int(x)) if x >= 0 else f"({int(x)})"


def _zi(n):
    n = int(n)
    return str(n) if n >= 0 else f"({n})"


def _note(r, k):
    return f"Nt {_zi(r[0])} {_z(r[1], k)} {COQ_T[r[2]]}"


def _b(x):
    return "true" if x else "false"


def _nf(f):
    if f is None:
        return "None"
    return f"(Some (NF {f['w']} {F.lst([F.lst([_zi(x) for x in r]) for r in f['ar']])} {_zi(f['keys'])} {_b(f['inv'])}))"


def _tf(f):
    if f is None:
        return "None"
    return f"(Some (TF {f['w']} {F.lst([F.lst([COQ_T[x] for x in r]) for r in f['ar']])} {_b(f['inv'])}))"


def _arr_in(rows, conv):
    if not isinstance(rows, list):
        return f"(In0 {conv(rows)})"
    if not rows or not isinstance(rows[0], list):
        return f"(In1 {F.lst([conv(x) for x in rows])})"
    return f"(A2 {len(rows[0])} {F.lst([F.lst([conv(x) for x in r]) for r in rows])})"


def emit(case, out):
    kind = case["kind"]
    if kind.startswith("create_"):
        s = case["f"]
        v = out["v"]
        if kind == "create_type":
            o = "None" if v is None else f"(Some ({v['w']}, {F.lst([F.lst([COQ_T[x] for x in r]) for r in v['ar']])}))"
            return f"(CCreateType {_arr_in(s['rows'], lambda x: COQ_T[x])} {s['options']} {_b(s['exclude'])} {o})%Z"
        o = "None" if v is None else f"(Some ({v['w']}, {F.lst([F.lst([_zi(x) for x in r]) for r in v['ar']])}))"
        ctor = "CCreateCombo" if kind == "create_combo" else "CCreateChord"
        return f"({ctor} {_arr_in(s['rows'], _zi)} {_zi(s['keys'])} {s['options']} {_b(s['exclude'])} {o})%Z"
    k = _scale(case, out)
    init = case["init"]
    if init["mode"] == "direct":
        inp = "(PDirect " + F.lst([_note(n, k) for n in init["notes"]]) + ")"
    else:
        cls_t = {"HitList": "THit", "HoldList": "THold", "OsuHitList": "TGHit", "OsuHoldList": "TGHold"}
        inp = "(PLists " + F.lst([f"NLs {cls_t[l['cls']]} " + F.lst([f"({_zi(r[0])},{_z(r[1], k)},{_z(r[2], k)})" for r in l["rows"]])
                                  for l in init["lists"]]) + f" {_b(init['tails'])})"
    df = out["df"]
    index = {}
    for i, r in enumerate(df):
        index.setdefault(json_key(r), i)
    def rid(r):
        return str(index[json_key(r)])
    dfl = F.lst([_note(r, k) for r in df])
    groups = "None" if out["groups"] is None else "(Some " + F.lst([F.lst([rid(r) for r in g]) for g in out["groups"]]) + ")"
    req = _req(case, out)
    if not req or out["groups"] is None:
        rq = "RNone"
    elif req["t"] == "combos":
        fl = out.get("filters") or {}
        rq = f"(RCombos {req['size']} {_b(req['ms2'])} {_nf(fl.get('chord'))} {_nf(fl.get('combo'))} {_tf(fl.get('type'))})"
    elif req["t"] == "jacks":
        rq = f"(RJacks {_zi(req['minlen'])} {_zi(req['keys'])})"
    else:
        rq = f"(RChordStream {req['p']} {req['s']} {req['keys']} {_b(req['and_lower'])} {_b(req['include_jack'])})"
    combos = "None" if out["combos"] is None else "(Some " + F.lst(
        [F.lst([F.lst([rid(x) for x in row]) for row in ar]) for ar in out["combos"]]) + ")"
    h = "None" if case["h"] is None else f"(Some {_zi(case['h'])})"
    return f"(CPipe {inp} {dfl} {_z(case['v'], k)} {h} {_b(case['aj'])} {groups} {rq} {combos})%Z"


def _req(case, out):
    return None if out.get("req_dropped") else case.get("req")


def json_key(r):
    return (r[0], r[1][0], r[1][1], r[2])


# ------------------------------------------------------------------ Python re-check of the property
def _key(r):
    return (r[0], Fr(*r[1]), r[2])


def _py_group_ok(case, out):
    df = [_key(r) for r in out["df"]]
    groups = [[_key(r) for r in g] for g in out["groups"]]
    v = Fr(*case["v"])
    h = case["h"]
    if sorted(x for g in groups for x in g) != sorted(df):
        return False
    for g in groups:
        if not g:
            return False
        c0, o0, _ = g[0]
        for c, o, _ in g:
            if not (o0 <= o <= o0 + v):
                return False
            if h is not None and abs(c - c0) > h:
                return False
        if case["aj"] and len({c for c, _, _ in g}) != len(g):
            return False
    return True


def _row_in(row, rows):
    return any(list(row) == list(r) for r in rows)


def _row_any(row, f):
    n = len(row)
    for r in f["ar"]:
        rr = r if len(r) == n else [r[0]] * n
        if any(a == b for a, b in zip(rr, row)):
            return True
    return False


def _pairs(s):
    return [(s[i], s[i + 1]) for i in range(len(s) - 1)]


def _expected(case, out, chord_any):
    """the multiset the property demands (chord_any=False) or the one the observed defect yields"""
    groups = [[_key(r) for r in g] for g in out["groups"]]
    req = case["req"]
    res = []
    if req["t"] == "combos":
        n, fl = req["size"], out["filters"]
        cf, kf, tf = fl.get("chord"), fl.get("combo"), fl.get("type")
        for i in range(0, len(groups) - n + 1):
            chunk = groups[i:i + n]
            sizes = [len(g) for g in chunk]
            if cf:
                hit = _row_any(sizes, cf) if chord_any else _row_in(sizes, cf["ar"])
                if hit == cf["inv"]:
                    continue
            for s in itertools.product(*chunk):
                if kf and _row_in([x[0] for x in s], kf["ar"]) == kf["inv"]:
                    continue
                if tf and any(len(r) == n and all(_sub(x[2], c) for x, c in zip(s, r)) for r in tf["ar"]) == tf["inv"]:
                    continue
                res.extend(_pairs(s) if req["ms2"] else [tuple(s)])
    elif req["t"] == "jacks":
        n, keys = req["minlen"], req["keys"]
        for i in range(0, len(groups) - n + 1):
            for s in itertools.product(*groups[i:i + n]):
                if all(x[0] == s[0][0] for x in s) and 0 <= s[0][0] < keys and all(x[2] != "HoldTail" for x in s):
                    res.extend(_pairs(s))
    else:
        p, q, keys = req["p"], req["s"], req["keys"]
        rows = {(p, q)}
        if req["and_lower"]:
            rows |= {(a, b) for a in range(1, p + 1) for b in range(1, q + 1)}
            rows |= {(b, a) for a, b in rows}
        for i in range(0, len(groups) - 1):
            a, b = len(groups[i]), len(groups[i + 1])
            ok = any(a == x or b == y for x, y in rows) if chord_any else (a, b) in rows
            if not ok:
                continue
            for x in groups[i]:
                for y in groups[i + 1]:
                    if not req["include_jack"] and x[0] == y[0] and 0 <= x[0] < keys:
                        continue
                    if x[2] == "HoldTail" or y[2] == "HoldTail":
                        continue
                    res.append((x, y))
    return sorted(res)


def _in_domain(case, out):
    if Fr(*case["v"]) < 0 or (case["h"] is not None and case["h"] < 0) or out["groups"] is None:
        return False
    req = _req(case, out)
    if not req:
        return True
    cols = [r[0] for g in out["groups"] for r in g]
    if req["t"] == "combos":
        n, fl = req["size"], out.get("filters") or {}
        if n < 2:
            return False
        for f in (fl.get("chord"), fl.get("combo"), fl.get("type")):
            if f and (f["w"] != n or any(len(r) != n for r in f["ar"])):
                return False
        kf = fl.get("combo")
        if kf:
            k = kf["keys"]
            if k < 1 or any(not 0 <= c < k for c in cols) or any(not 0 <= c < k for r in kf["ar"] for c in r):
                return False
        return True
    if req["t"] == "jacks" and req["minlen"] < 2:
        return False
    return req["keys"] >= 1 and all(0 <= c < req["keys"] for c in cols)


def _combos_match(case, out, chord_any):
    if out["combos"] is None:
        return False
    got = sorted(tuple(_key(x) for x in row) for ar in out["combos"] for row in ar)
    return got == _expected(case, out, chord_any)


def py_oracle(case, out):
    if case["kind"] != "pipe":
        return None
    if Fr(*case["v"]) < 0 or (case["h"] is not None and case["h"] < 0):
        return None
    if out["groups"] is None or not _py_group_ok(case, out):
        return False
    if not _req(case, out) or not _in_domain(case, out):
        return True
    return _combos_match(case, out, chord_any=False)


def classify(case, out, kind):
    """No known findings (chord-filter-elementwise-any was fixed in 1bc6769).  A violation that matches the old
    element-wise chord test gets a descriptive key (a regression of that fix); it is NOT listed as known, so it raises."""
    if kind != "spec" or case["kind"] != "pipe" or out.get("groups") is None or not _req(case, out):
        return None
    try:
        req = case.get("req") or {}
        uses = (req.get("t") == "combos" and req.get("chord") is not None) or req.get("t") == "cs"
        if (uses and _py_group_ok(case, out) and _in_domain(case, out)
                and not _combos_match(case, out, chord_any=False) and _combos_match(case, out, chord_any=True)):
            return "regression-chord-filter-elementwise-any"
    except Exception:
        return None
    return None


# ------------------------------------------------------------------ evidence helpers
def nontrivial(case, out):
    if case["kind"] != "pipe":
        return case["f"]["options"] != 0
    return out.get("groups") is not None and len(out["groups"]) >= 2


def bucket(case, out):
    if case["kind"] != "pipe":
        return case["kind"] + ("/exc" if out.get("v") is None else "") + f"/opt={case['f']['options']}"
    req = case.get("req")
    k = "pipe/" + case["init"]["mode"] + "/" + (req["t"] if req else "group-only")
    if out.get("groups") is None:
        k += "/group-exc"
    elif req and out.get("combos") is None:
        k += "/combos-exc"
    return k


def describe(case, out):
    if case["kind"] != "pipe":
        return f"{case['kind']} {case['f']}"
    return (f"pipe notes={len(out.get('df', []))} v={case['v']} h={case['h']} avoid_jack={case['aj']} "
            f"groups={None if out.get('groups') is None else [len(g) for g in out['groups']]} req={case.get('req')}")


def shrink(case):
    if case["kind"] != "pipe":
        rows = case["f"]["rows"]
        if isinstance(rows, list) and len(rows) > 1 and isinstance(rows[0], list):
            for i in range(len(rows)):
                c = dict(case); c["f"] = dict(case["f"]); c["f"]["rows"] = rows[:i] + rows[i + 1:]
                yield c
        return
    init = case["init"]
    if init["mode"] == "direct":
        ns = init["notes"]
        for i in range(len(ns)):
            c = dict(case); c["init"] = dict(init); c["init"]["notes"] = ns[:i] + ns[i + 1:]
            yield c
    else:
        for li, l in enumerate(init["lists"]):
            for i in range(len(l["rows"])):
                c = dict(case); c["init"] = dict(init)
                c["init"]["lists"] = [dict(x) for x in init["lists"]]
                c["init"]["lists"][li]["rows"] = l["rows"][:i] + l["rows"][i + 1:]
                yield c
    req = case.get("req")
    if req and req["t"] == "combos":
        for f in ("chord", "combo", "type"):
            if req[f] is not None:
                c = dict(case); c["req"] = dict(req); c["req"][f] = None
                yield c
                rows = req[f]["rows"]
                if isinstance(rows, list) and len(rows) > 1 and isinstance(rows[0], list):
                    for i in range(len(rows)):
                        c = dict(case); c["req"] = dict(req); c["req"][f] = dict(req[f])
                        c["req"][f]["rows"] = rows[:i] + rows[i + 1:]
                        yield c
                if req[f]["options"]:
                    c = dict(case); c["req"] = dict(req); c["req"][f] = dict(req[f]); c["req"][f]["options"] = 0
                    yield c
        if req["ms2"]:
            c = dict(case); c["req"] = dict(req); c["req"]["ms2"] = False
            yield c
    if req:
        c = dict(case); c["req"] = None
        yield c
