"""C19: dominant bpm, scroll speed, SV normalisation.

Charts are built from objects (all five games for dominant_bpm / scroll_speed, osu + Quaver for
sv_normalize).  Exact stream: integer/dyadic offsets, bpms = base * 2^k (all pairwise ratios exact
in binary64), dyadic SV multipliers, overrides chosen so that the one division is exact -> equality
is demanded.  Rounded stream: arbitrary float bpms / multipliers / overrides / 3-decimal offsets,
relative tolerance 1e-9.  Every float crosses the boundary as the exact rational it denotes."""
from fractions import Fraction as Fr
import copy

from .. import coqfmt as F

ID = "C19"
RUNNER = "Corr.RunC19"
CASE_TYPE = "c19case"
RUNNER_TARGETS = ["Corr/RunC19.vo"]
PROOF_TARGETS = ["Props/C19.vo"]
PROPS_FILE = "Props/C19.v"
PROPS_MODULE = "Props.C19"
RULE = ("seeded generator of charts built from objects: 1..7 tempo points (plus a few 18..30-row charts), bpm values drawn with "
        "repetition from base*2^k families (exact stream) or arbitrary floats (rounded stream), a quarter of the charts with crawl "
        "(1-12 bpm) / teleport (10^5 .. 2*10^6 bpm) tempo points so that normalising multipliers leave 0.01x..10x, 0..6 SVs (osu/Quaver) that may "
        "coincide with tempo points / each other / lie before the first tempo point or after the last note, 1..5 notes "
        "(hits, holds, StepMania mines), rows sorted or shuffled, default / permuted / duplicate row labels, int or float "
        "columns, optional override bpm; three call kinds (dominant_bpm on 5 games, scroll_speed on 5 games, sv_normalize on "
        "osu/Quaver); non-trivial = >=2 tempo points or >=1 SV; distinct by hash of the canonical JSON of the input")
ASSUMPTIONS = [
    "'object' in the property = a note (hit / hold head / StepMania mine); 'last object' = the largest note offset "
    "(hold tails are not counted, as in Map.stack().offset); tempo points and SVs are not objects",
    "active bpm before the first tempo point = the first tempo point's bpm; among SVs sharing a time the last one in row "
    "order is the active one (osu! file-order rule); an SV at a tempo point's time survives that tempo point's reset",
    "exact stream: the implementation's binary64 arithmetic is exact on the generated values (dyadic offsets, bpm ratios "
    "that are powers of two times a small integer), equality demanded; rounded stream: relative tolerance 1e-9 on "
    "speeds / multipliers, and a bpm is accepted as dominant when its active time is within 1e-9*(1+max) of the maximum",
    "pandas sort_values is modelled as a stable sort; ties that could be resolved differently by an unstable sort only "
    "arise between a tempo row and the head/tail marker rows, which the correspondence run would expose; pd.merge does not "
    "promise the order of left rows sharing a key, so two coincident tempo points (outside the domain) are generated with "
    "equal bpm for scroll_speed",
]
TRUSTED = []
MANIFEST = dict(
    text="Machine-checked theorems (Coq 8.16.1) about an executable Gallina model over exact rationals of the three pandas pipelines as of "
         "/repo commit d3e6d46 (dominant_bpm: sorted tempo rows, last NOTE, clip/diff/set_axis/groupby-sum/idxmax; scroll_speed: head/tail rows, "
         "stable sort, ffill/bfill, drop_duplicates, SV table with groupby-last, outer merge, ffill/bfill; sv_normalize). Proved for ALL inputs of "
         "the property's domain (>= 1 tempo point at or before the first note, >= 1 note, no two tempo points at one time, bpm > 0), in any row "
         "order and with tempo/SV rows after the last note: the returned bpm maximises the independently specified active time "
         "(C19_dominant_is_argmax); sv_normalize returns exactly one SV per tempo point with mult*bpm=ref for every override > 0 or the dominant "
         "reference (C19_sv_normalize_spec); scroll_speed, for every chart of every game WITH OR WITHOUT an SV list and every override > 0 or "
         "none, returns at every breakpoint active bpm/ref * active SV multiplier (an SV lasts until the next SV or tempo point; SVs may "
         "coincide with a tempo point or with each other -- last in row order counts --, lie before the first tempo point or after the last "
         "note; tempo and SV rows in any row order) and every tempo point and every SV is a breakpoint (C19_scroll_speed_spec, no side "
         "condition beyond the domain; C19_scroll_speed_with_spec for any reference value; C19_scroll_speed_spec_nosv is the no-SV instance). "
         "The three boolean oracles are sound (the dominant one also complete). The same dominant statement is refuted, with concrete witnesses, "
         "for the model of the code BEFORE d3e6d46. Extra cross-check: C19_scroll_speed_small_scope re-establishes the scroll statement on an "
         "exhaustive small scope (about 35 000 charts) by evaluating the oracle on the model. No statement of C19 is partial any more. Beyond "
         "the property text (which does not promise it): on the chart whose SV list is replaced by sv_normalize's result, scroll_speed is 1 "
         "at every breakpoint (C19_normalize_then_scroll).",
    note="Trusted: Coq kernel+VM, harness generator/serialiser; the tie model = implementation is the per-run in-Coq correspondence (not a "
         "proof about pandas); binary64 rounding measured (rounded stream, rel. tol 1e-9) not proved; pandas' unstable sort modelled as stable; "
         "'object' read as note (hold tails not counted). Inside the domain the bpm frame is proved to have one row per key after "
         "drop_duplicates, so pd.merge's unspecified order among equal left keys cannot matter there. Findings dominant-unsorted-rows / "
         "dominant-tempo-after-last-object / dominant-sv-after-last-object are fixed in d3e6d46 (reverting it makes the check fire with one "
         "replay per class). All Props theorems are 'Closed under the global context'.",
    technique="Coq proof over executable model + vm_compute correspondence against the implementation",
    design="4/C19")

GAMES_SV = ["osu", "qua"]
GAMES_ALL = ["osu", "qua", "sm", "bms", "o2j"]
TOL = Fr(1, 10 ** 9)


# ------------------------------------------------------------------ helpers on cases
def _fr(p):
    return Fr(p[0], p[1])


def _bpms(case):
    return [(_fr(o), _fr(b)) for o, b in case["bpms"]]


def _svs(case):
    return None if case["svs"] is None else [(_fr(o), _fr(x)) for o, x in case["svs"]]


def _notes(case):
    return [_fr(o) for o in case["hits"]] + [_fr(o) for o, _ in case["holds"]] + [_fr(o) for o in case.get("extra", [])]


def _ov(case):
    return None if case.get("ov") is None else _fr(case["ov"])


def _tol(case):
    return Fr(0) if case.get("exact", True) else TOL


def _stack(case):
    return [o for o, _ in _bpms(case)] + [o for o, _ in (_svs(case) or [])] + _notes(case)


def in_domain(case):
    b, n = _bpms(case), _notes(case)
    if not b or not n:
        return False
    offs = [o for o, _ in b]
    if len(set(offs)) != len(offs) or min(offs) > min(n):
        return False
    if any(x <= 0 for _, x in b):
        return False
    ov = _ov(case)
    return ov is None or ov > 0


# ------------------------------------------------------------------ Python copy of the specification
def s_active(case):
    b, n = _bpms(case), _notes(case)
    first, last = min(o for o, _ in b), max(n)

    def clip(x):
        return min(max(x, first), last)
    at = {}
    for o, bpm in b:
        later = [o2 for o2, _ in b if o2 > o]
        end = clip(min(later)) if later else max(last, first)
        at[bpm] = at.get(bpm, Fr(0)) + (end - clip(o) if end > clip(o) else Fr(0))
    return at


def s_argmax(case, tol=Fr(0)):
    at = s_active(case)
    return [b for b, v in sorted(at.items()) if all(w - v <= tol * (1 + w) for w in at.values())]


def _close(a, b, tol):
    return abs(a - b) <= tol * abs(a)


def s_bpm_at(b, t):
    le = [(o, x) for o, x in b if o <= t]
    return max(le)[1] if le else min(b)[1]


def s_sv_at(b, svs, t):
    if svs is None:
        return Fr(1)
    le = [o for o, _ in b if o <= t]
    lo = max(le) if le else None
    cand = [(o, x) for o, x in svs if o <= t and (lo is None or lo <= o)]
    if not cand:
        return Fr(1)
    mo = max(o for o, _ in cand)
    return [x for o, x in cand if o == mo][-1]


def s_scroll_ok(case, v, ref, tol):
    b, svs = _bpms(case), _svs(case)
    idx = {t for t, _ in v}
    if any(o not in idx for o, _ in b) or any(o not in idx for o, _ in (svs or [])):
        return False
    for t, s in v:
        if s is None:
            return False
        if not _close(s_bpm_at(b, t) / ref * s_sv_at(b, svs, t), s, tol):
            return False
    return True


def s_norm_ok(case, v, ref, tol):
    b = _bpms(case)
    want = sorted((o, ref / x) for o, x in b)
    got = sorted(v)
    return len(want) == len(got) and all(w[0] == g[0] and _close(w[1], g[1], tol) for w, g in zip(want, got))


def _refs(case, tol, dom_fn):
    ov = _ov(case)
    return [ov] if ov else dom_fn(case, tol)


def _out_v(case, out):
    k = case["kind"]
    if out.get("v") is None:
        return None
    if k == "dom":
        return _fr(out["v"])
    if k == "scroll":
        return [(_fr(t), None if s is None else _fr(s)) for t, s in out["v"]]
    return [(_fr(t), _fr(s)) for t, s in out["v"]]


def py_oracle(case, out):
    """Direct re-check of the property on the implementation's output (False = violated)."""
    if not in_domain(case):
        return True
    v = _out_v(case, out)
    if v is None:
        return False
    tol = _tol(case)
    k = case["kind"]
    if k == "dom":
        return v in s_argmax(case, tol)
    refs = _refs(case, tol, s_argmax)
    if k == "scroll":
        return any(s_scroll_ok(case, v, r, tol) for r in refs)
    return any(s_norm_ok(case, v, r, tol) for r in refs)


# ------------------------------------------------------------------ input classes that used to fail (before d3e6d46); for the distribution only
def _defect_feature(case):
    b, svs, n = _bpms(case), _svs(case), _notes(case)
    offs = [o for o, _ in b]
    if offs != sorted(offs):
        return "dominant-unsorted-rows"
    if max(offs) > max(n):
        return "dominant-tempo-after-last-object"
    if svs and max(o for o, _ in svs) > max(n):
        return "dominant-sv-after-last-object"
    return None


def classify(case, out, kind):
    """The three dominant_bpm defects of the originally pinned tree were repaired in /repo commit d3e6d46
    (findings/C19.json: status fixed, which suppresses nothing); every violation raises.  The key only names the
    input class so that a regression of one of them is reported with its own replay."""
    try:
        return _defect_feature(case) if (kind == "spec" and in_domain(case)) else None
    except Exception:
        return None


# ------------------------------------------------------------------ generator
BASES = [120.0, 100.0, 75.0, 133.5, 87.25, 60.0, 200.0, 177.0]
MULTS = [0.25, 0.5, 0.75, 1.0, 1.25, 1.5, 2.0, 3.0, 4.0, 0.125, 10.0, 1.0, 2.0]


def _off(rng, exact, lo=-1000, hi=12000):
    r = rng.random()
    if r < 0.55:
        return Fr(rng.randrange(lo // 250, hi // 250) * 250)
    if r < 0.8 or exact:
        return Fr(rng.randint(lo, hi)) + (Fr(rng.randint(0, 7), 8) if rng.random() < 0.3 else 0)
    return Fr(float(rng.randint(lo * 1000, hi * 1000) / 1000))


def _gen_chart(rng, kind, exact, big=False):
    game = rng.choice(GAMES_SV if kind == "norm" else (GAMES_ALL if rng.random() < 0.5 else GAMES_SV))
    has_sv = game in GAMES_SV
    nb = rng.choice([1, 1, 2, 2, 3, 3, 4, 5, 7]) if not big else rng.randint(18, 30)
    base = rng.choice(BASES)
    if exact:
        pool = [Fr(base * 2.0 ** k) for k in rng.sample([-2, -1, 0, 1, 2, 3], rng.choice([1, 2, 2, 3, 4]))]
    else:
        pool = [Fr(float(rng.choice([rng.randint(3000, 40000) / 100, rng.uniform(20, 500), rng.randint(30, 400)])))
                for _ in range(rng.choice([1, 2, 2, 3, 4]))]
    # a quarter of the charts carry tempo points far from the others (1-12 bpm crawls, "teleport" points of 10^5 .. 2*10^6 bpm):
    # normalising multipliers outside 0.01x .. 10x, which the routines must produce as they are
    if rng.random() < 0.25:
        if exact:
            pool += [Fr(base * 2.0 ** k) for k in rng.sample([-7, -5, 6, 10, 14], rng.choice([1, 2]))]
        else:
            pool += [Fr(float(v)) for v in rng.sample([1.0, 7.5, 12.0, 100000.0, 2000000.0, 48000.5], rng.choice([1, 2]))]
    # tempo points at distinct times (a small share with a coincident pair: outside the domain, correspondence only)
    offs = set()
    while len(offs) < nb:
        offs.add(_off(rng, exact, 0, 10000))
    offs = sorted(offs)
    bpms = [[o, rng.choice(pool)] for o in offs]
    if 2 <= nb <= 7 and rng.random() < 0.04:     # (unstable pandas sort: only small charts, where numpy's sort is stable)
        bpms[1][0] = bpms[0][0]
        if kind == "scroll":      # pd.merge does not promise the order of rows sharing a key: keep the pair indistinguishable
            bpms[1][1] = bpms[0][1]
    first = min(o for o, _ in bpms)
    last_t = max(o for o, _ in bpms)
    # notes: first object at or after the first tempo point (rarely before: outside the domain)
    nn = rng.choice([1, 2, 2, 3, 5])
    notes = []
    r = rng.random()
    for i in range(nn):
        if r < 0.2:      # everything before the last tempo point: tempo point after the last object
            hi = max(first, last_t - 1)
            notes.append(first + Fr(rng.randint(0, max(0, int(hi - first)))))
        elif r < 0.35:   # last object exactly at a tempo point
            notes.append(rng.choice([o for o, _ in bpms]))
        else:
            notes.append(first + Fr(rng.randint(0, 14000)))
    if rng.random() < 0.3:
        notes[0] = first
    if rng.random() < 0.03:
        notes.append(first - Fr(rng.randint(1, 500)))
    svs = None
    if has_sv:
        svs = []
        ns = rng.choice([0, 0, 1, 2, 3, 4, 6])
        for _ in range(ns):
            q = rng.random()
            if q < 0.25:
                o = rng.choice([o for o, _ in bpms])
            elif q < 0.4 and svs:
                o = rng.choice(svs)[0]
            elif q < 0.5:
                o = first - Fr(rng.randint(1, 800))
            elif q < 0.58:
                o = max(notes) + Fr(rng.randint(1, 5000))
            elif q < 0.66:
                o = rng.choice(notes)
            else:
                o = _off(rng, exact, int(first) - 200, 14000)
            x = Fr(rng.choice(MULTS)) if exact else Fr(float(rng.choice([rng.randint(10, 1000) / 100, rng.uniform(0.01, 10)])))
            svs.append([o, x])
    # most charts end with a note (inside the guard of the dominant-bpm theorem); the rest keep a tempo point or SV after it
    if rng.random() < 0.6:
        tail = max([last_t] + [o for o, _ in (svs or [])] + notes)
        notes.append(tail + Fr(rng.choice([0, 0, 1, 250, 3000])))
    # split notes into hits / holds / extra
    hits, holds, extra = [], [], []
    for o in notes:
        q = rng.random()
        if q < 0.6:
            hits.append(o)
        elif q < 0.9 or game != "sm":
            holds.append([o, Fr(rng.choice([1, 50, 500, 20000]))])
        else:
            extra.append(o)
    # row order
    order = rng.random()
    if order < 0.2:
        rng.shuffle(bpms)
    elif order < 0.25:
        bpms.reverse()
    if svs is not None and rng.random() < 0.4:
        rng.shuffle(svs)
    elif svs is not None:
        svs.sort(key=lambda p: p[0])
    if rng.random() < 0.5:
        rng.shuffle(hits)
    ov = None
    if kind != "dom" and rng.random() < 0.4:
        if exact:
            k = 2.0 ** rng.choice([-2, -1, 0, 1, 2])
            if kind == "norm":
                ov = Fr(base * k * rng.choice([1, 1, 3, 5]))
            else:
                ov = Fr(base * k) if base in (133.5, 87.25, 177.0) else Fr(base * k / rng.choice([1, 1, 4, 5]))
        else:
            ov = Fr(float(rng.choice([rng.randint(3000, 40000) / 100, rng.uniform(20, 500)])))
    fj = lambda x: F.frac_json(Fr(float(x)))      # every value is exactly a binary64 number
    return {
        "kind": kind, "game": game, "exact": exact,
        "bpms": [[fj(o), fj(b)] for o, b in bpms],
        "svs": None if svs is None else [[fj(o), fj(x)] for o, x in svs],
        "hits": [fj(o) for o in hits],
        "holds": [[fj(o), fj(l)] for o, l in holds],
        "extra": [fj(o) for o in extra],
        "ov": None if ov is None else fj(ov),
        "ints": rng.random() < 0.3,
        "labels": rng.choice(["default", "default", "default", "perm", "dup"]),
    }


def generate(rng, tier):
    n = 420 if tier == "quick" else 12000
    cases = list(_fixed())
    for i in range(n):
        kind = rng.choice(["dom", "dom", "scroll", "scroll", "scroll", "norm"])
        exact = rng.random() < 0.75
        cases.append(_gen_chart(rng, kind, exact, big=(i % 60 == 59)))
    # unusual states: empty lists (exceptions are part of the correspondence)
    for kind in ("dom", "scroll", "norm"):
        c = _gen_chart(rng, kind, True)
        c["bpms"] = []
        cases.append(c)
        c = _gen_chart(rng, kind, True)
        c["hits"], c["holds"], c["extra"] = [], [], []
        cases.append(c)
    return cases


def _mkcase(kind, game, bpms, svs, hits, ov=None, holds=()):
    return {"kind": kind, "game": game, "exact": True,
            "bpms": [[F.frac_json(Fr(o)), F.frac_json(Fr(b))] for o, b in bpms],
            "svs": None if svs is None else [[F.frac_json(Fr(o)), F.frac_json(Fr(x))] for o, x in svs],
            "hits": [F.frac_json(Fr(o)) for o in hits],
            "holds": [[F.frac_json(Fr(o)), F.frac_json(Fr(l))] for o, l in holds], "extra": [],
            "ov": None if ov is None else F.frac_json(Fr(ov)), "ints": False, "labels": "default"}


def _fixed():
    """The scenarios of reamber's own tests and the hand-observed defect witnesses (kept in reach on every run)."""
    t = [(0, 100), (200, 200), (300, 300)]
    yield _mkcase("dom", "osu", t, [], [-100, 600])                       # test_dominant_bpm (object before first tempo: outside domain)
    yield _mkcase("scroll", "osu", t, [(0, 1), (100, 2), (300, 2)], [0, 400])
    yield _mkcase("scroll", "osu", t, [(0, 1), (100, 2), (300, 2)], [0, 400], ov=50)
    yield _mkcase("scroll", "sm", t, None, [0, 400])
    yield _mkcase("norm", "osu", [(0, 100), (200, 200), (300, 400)], [], [0, 1000])
    yield _mkcase("norm", "osu", [(0, 100), (200, 200), (300, 400)], [], [0, 1000], ov=200)
    for kind in ("dom", "scroll", "norm"):
        yield _mkcase(kind, "osu", [(1000, 240), (0, 120)], [], [0, 3000])                        # unsorted rows
        yield _mkcase(kind, "qua", [(0, 120), (1000, 240), (10000, 60)], [], [0, 1500])           # tempo after last object
        yield _mkcase(kind, "osu", [(0, 120), (1000, 240)], [(9000, 2)], [0, 1500])               # SV after last object


# ------------------------------------------------------------------ implementation side
def _num(x, ints):
    x = Fr(x)
    return int(x) if (ints and x.denominator == 1) else float(x)


def _relabel(lst, mode):
    n = len(lst.df)
    if mode == "perm" and n:
        lst.df = lst.df.set_axis([(7 * i + 3) % n + 10 for i in range(n)] if n % 7 else list(range(n, 0, -1)))
    elif mode == "dup" and n:
        lst.df = lst.df.set_axis([5] * n)
    return lst


def build_map(case):
    g, ints, lab = case["game"], case.get("ints", False), case.get("labels", "default")
    bp = [(_num(_fr(o), ints), _num(_fr(b), ints)) for o, b in case["bpms"]]
    sv = None if case["svs"] is None else [(_num(_fr(o), ints), _num(_fr(x), ints)) for o, x in case["svs"]]
    hits = [_num(_fr(o), ints) for o in case["hits"]]
    holds = [(_num(_fr(o), ints), _num(_fr(l), ints)) for o, l in case["holds"]]
    extra = [_num(_fr(o), ints) for o in case.get("extra", [])]
    if g == "osu":
        from reamber.osu import OsuMap, OsuBpm, OsuHit, OsuSv, OsuHold
        from reamber.osu.lists import OsuBpmList, OsuSvList
        from reamber.osu.lists.notes import OsuHitList, OsuHoldList
        m = OsuMap()
        m.bpms = OsuBpmList([OsuBpm(o, b) for o, b in bp])
        m.svs = OsuSvList([OsuSv(o, x) for o, x in sv])
        m.hits = OsuHitList([OsuHit(o, i % 4) for i, o in enumerate(hits)])
        m.holds = OsuHoldList([OsuHold(o, i % 4, l) for i, (o, l) in enumerate(holds)])
    elif g == "qua":
        from reamber.quaver import QuaMap, QuaBpm, QuaHit, QuaHold, QuaSv
        from reamber.quaver.lists import QuaBpmList, QuaSvList
        from reamber.quaver.lists.notes import QuaHitList, QuaHoldList
        m = QuaMap()
        m.bpms = QuaBpmList([QuaBpm(o, b) for o, b in bp])
        m.svs = QuaSvList([QuaSv(o, x) for o, x in sv])
        m.hits = QuaHitList([QuaHit(o, i % 4, []) for i, o in enumerate(hits)])
        m.holds = QuaHoldList([QuaHold(o, i % 4, l, []) for i, (o, l) in enumerate(holds)])
    elif g == "sm":
        from reamber.sm import SMMap, SMBpm, SMHit, SMHold, SMMine
        from reamber.sm.lists import SMBpmList
        from reamber.sm.lists.notes import SMHitList, SMHoldList, SMMineList
        m = SMMap()
        m.bpms = SMBpmList([SMBpm(o, b) for o, b in bp])
        m.hits = SMHitList([SMHit(o, i % 4) for i, o in enumerate(hits)])
        m.holds = SMHoldList([SMHold(o, i % 4, l) for i, (o, l) in enumerate(holds)])
        m.mines = SMMineList([SMMine(o, i % 4) for i, o in enumerate(extra)])
    elif g == "bms":
        from reamber.bms import BMSMap, BMSBpm, BMSHit, BMSHold
        from reamber.bms.lists import BMSBpmList
        from reamber.bms.lists.notes import BMSHitList, BMSHoldList
        m = BMSMap()
        m.bpms = BMSBpmList([BMSBpm(o, b) for o, b in bp])
        m.hits = BMSHitList([BMSHit(o, i % 4) for i, o in enumerate(hits)])
        m.holds = BMSHoldList([BMSHold(o, i % 4, l) for i, (o, l) in enumerate(holds)])
    elif g == "o2j":
        from reamber.o2jam import O2JMap, O2JBpm, O2JHit, O2JHold
        from reamber.o2jam.lists import O2JBpmList
        from reamber.o2jam.lists.notes import O2JHitList, O2JHoldList
        m = O2JMap()
        m.bpms = O2JBpmList([O2JBpm(o, b) for o, b in bp])
        m.hits = O2JHitList([O2JHit(o, i % 4) for i, o in enumerate(hits)])
        m.holds = O2JHoldList([O2JHold(o, i % 4, l) for i, (o, l) in enumerate(holds)])
    else:
        raise ValueError(g)
    if lab != "default":
        _relabel(m.bpms, lab)
        if sv is not None:
            _relabel(m.svs, lab)
        _relabel(m.hits, lab)
    return m


def _f(x):
    """A numeric cell of the implementation's output as an exact rational (None for NaN/None)."""
    if x is None:
        return None
    x = float(x)
    if x != x:
        return None
    return F.frac_json(Fr(x))


def execute(case):
    from reamber.algorithms.utils import dominant_bpm
    from reamber.algorithms.analysis import scroll_speed
    from reamber.algorithms.generate import sv_normalize
    m = copy.deepcopy(build_map(case))
    kind = case["kind"]
    ov = None if case.get("ov") is None else _num(_fr(case["ov"]), case.get("ints", False))
    try:
        if kind == "dom":
            r = dominant_bpm(m)
            return {"v": _f(r)}
        if kind == "scroll":
            r = scroll_speed(m, ov) if ov is not None else scroll_speed(m)
            return {"v": [[_f(t), _f(s)] for t, s in zip(r.index.tolist(), r.tolist())]}
        if kind == "norm":
            r = sv_normalize(m, ov) if ov is not None else sv_normalize(m)
            if type(r).__name__ != type(m.svs).__name__:
                raise TypeError("sv_normalize returned " + type(r).__name__)
            return {"v": [[_f(t), _f(s)] for t, s in zip(r.offset.tolist(), r.multiplier.tolist())]}
    except ValueError as e:
        if "argmax of an empty sequence" in str(e):
            return {"v": None, "exc": "ValueError: " + str(e)[:80]}
        raise
    raise ValueError(kind)


# ------------------------------------------------------------------ Coq side
def _pairs(l):
    return F.lst([f"({F.q(_fr(a))},{F.q(_fr(b))})" for a, b in l])


def _chart(case):
    svs = "None" if case["svs"] is None else f"(Some {_pairs(case['svs'])})"
    notes = F.lst([F.q(x) for x in _notes(case)])
    return f"(mkChart {_pairs(case['bpms'])} {svs} {notes})"


def emit(case, out):
    kind = case["kind"]
    tol = F.q(_tol(case))
    ch = _chart(case)
    ov = F.opt(case.get("ov"), lambda p: F.q(_fr(p)))
    v = out.get("v")
    if kind == "dom":
        return f"CDom {tol} {ch} {F.opt(v, lambda p: F.q(_fr(p)))}"
    if kind == "scroll":
        o = F.opt(v, lambda rows: F.lst([f"({F.q(_fr(t))},{F.opt(s, lambda p: F.q(_fr(p)))})" for t, s in rows]))
        return f"CScroll {tol} {ch} {ov} {o}"
    o = F.opt(v, lambda rows: F.lst([f"({F.q(_fr(t))},{F.q(_fr(s))})" for t, s in rows]))
    return f"CNorm {tol} {ch} {ov} {o}"


def nontrivial(case, out):
    return len(case["bpms"]) >= 2 or bool(case["svs"])


def bucket(case, out):
    k = case["kind"] + "/" + case["game"] + ("" if case.get("exact", True) else "/rounded")
    if out.get("v") is None:
        return k + "/exc"
    if not in_domain(case):
        return k + "/outside-domain"
    f = _defect_feature(case)
    if f:
        k += "/" + f.replace("dominant-", "")
    if case.get("ov") is not None:
        k += "/override"
    return k


def describe(case, out):
    return (f"{case['kind']} on {case['game']} chart: {len(case['bpms'])} tempo rows, "
            f"{0 if case['svs'] is None else len(case['svs'])} SV rows, {len(_notes(case))} notes, override={_ov(case)}, "
            f"exact={case.get('exact', True)}, feature={_defect_feature(case) if in_domain(case) else 'outside-domain'}")


def shrink(case):
    for key in ("svs", "hits", "holds", "extra", "bpms"):
        l = case.get(key)
        if not l:
            continue
        for i in range(len(l)):
            c = dict(case)
            c[key] = l[:i] + l[i + 1:]
            if in_domain(c):
                yield c
    if case.get("labels") != "default" or case.get("ints"):
        c = dict(case)
        c["labels"], c["ints"] = "default", False
        yield c
