"""C17: full-LN generation (reamber/algorithms/generate/full_ln.py).

Charts of all five games (and the base Map) are built from objects, full_ln is run through the public API,
and the argument chart / result chart are snapshotted list by list (every entry of Map.objs, in order).
All times are dyadic rationals of moderate size, on which binary64 subtraction/comparison is exact, so model and
implementation must agree exactly; for Coq every time of a case is scaled by the case's common denominator."""
from fractions import Fraction as Fr
import copy
import math

from .. import coqfmt as F

ID = "C17"
RUNNER = "Corr.RunC17"
CASE_TYPE = "c17case"
RUNNER_TARGETS = ["Corr/RunC17.vo"]
PROOF_TARGETS = ["Props/C17.vo"]
PROPS_FILE = "Props/C17.v"
PROPS_MODULE = "Props.C17"
RULE = ("seeded generator of charts of osu/Quaver/BMS/O2Jam/StepMania/base Map built from objects or from_dict: 0..45 notes "
        "drawn from a small pool of (dyadic, possibly negative) times over 1..10 columns so that chords, ties at equal "
        "time in one column, single-note and empty columns are frequent; hit/hold mix 0..100 %, empty hit or hold lists, "
        "unsorted rows, non-default/duplicate row labels, game-specific fields set, tempo/SV/stop lists, StepMania "
        "mines/fakes/lifts/keysounds/rolls; gap and threshold from {0, 1/8, small, huge, exact decision boundaries "
        "+-1/8}; a few cases outside the domain (negative gap/threshold, NaN hold length) for correspondence only. "
        "Non-trivial: some column holds >= 2 notes (a fill decision is taken); distinct by hash of the canonical JSON")
ASSUMPTIONS = [
    "times are modelled over Z: the algorithm only subtracts and compares offsets/lengths/gap/threshold, and every value of "
    "a case (inputs and outputs) is multiplied by the case's common denominator by the harness; generated values are dyadic "
    "rationals below 2^45 on which the implementation's binary64 arithmetic is exact (the harness raises if an output is not)",
    "pandas sort_values is not stable: for notes at the same time in one column any processing order is accepted by "
    "Corr and by the specification (the visible freedom is which of them is last in its column)",
    "rows of the rebuilt hits/holds are compared as multisets (row order and row labels are not promised); game-specific "
    "fields of rebuilt notes (hitsounds, samples, volume) are not promised and not compared",
    "'input left unchanged' is observed by the harness (values, columns, dtypes, row labels of every list before/after) and "
    "enters the verdict as a boolean",
    "other lists are compared through interned row ids (full row values by value, NaN-aware)",
]
TRUSTED = []
MANIFEST = dict(
    text="Machine-checked theorems (Coq 8.16.1) about an executable Gallina model of full_ln (m.Stacker([m.hits, m.holds]), sort by "
         "offset, group by column, diff-to-next, the two thresholds, from_dict rebuild) over integer-scaled times: for every chart "
         "of any game (whatever other lists it has), every gap >= 0 and threshold >= 0 and EVERY sorted order of tied notes the "
         "result satisfies an independently written per-column specification (non-last notes filled by the stated rule, last note "
         "kept, other lists unchanged), note count and (column,time) multiset are preserved, no hold passes a later note of its "
         "column, the last note is kept, the operation is total; the boolean oracle is proved to decide the specification and the "
         "per-run correspondence relation is proved to transfer the theorem. The old stacking by type (before fix 2c338d8: StepMania "
         "mines/fakes/lifts/keysounds/rolls came back duplicated) is kept as a named old variant with a refuted count theorem. The "
         "model is tied to the code on every run by in-Coq correspondence on charts of all five games, and the oracle is evaluated "
         "on the implementation's outputs.",
    note="Trusted: Coq kernel+VM, harness generator/serialiser (scaling to integers, interning of other lists' rows); binary64 "
         "exactness on dyadic inputs is checked per case, not proved; row order/labels and game-specific fields of rebuilt lists "
         "are outside the property. No open finding (sm-extra-note-lists fixed by 2c338d8; corpus case kept).",
    technique="Coq proof over executable model + vm_compute correspondence against the implementation",
    design="4/C17")

GAMES = {
    "osu": ("reamber.osu.OsuMap", "OsuMap"),
    "qua": ("reamber.quaver.QuaMap", "QuaMap"),
    "bms": ("reamber.bms.BMSMap", "BMSMap"),
    "o2j": ("reamber.o2jam.O2JMap", "O2JMap"),
    "sm": ("reamber.sm.SMMap", "SMMap"),
    "base": ("reamber.base.Map", "Map"),
}
SM_EXTRA_HITS = ["fakes", "lifts", "keysounds", "mines"]


# ------------------------------------------------------------------ generator
def _fj(x):
    return F.frac_json(Fr(x))


def _pool(rng):
    step = rng.choice([1, 1, 25, 50, 125, 250, 1000])
    den = rng.choice([1, 1, 1, 2, 4, 8])
    k = rng.choice([1, 2, 3, 4, 6, 9, 14])
    lo = rng.choice([0, 0, 0, -8, 1000])
    pool = set()
    while len(pool) < k:
        pool.add(Fr(rng.randint(lo, lo + 3 * k + 4) * step) + Fr(rng.randint(0, den - 1), den))
    return sorted(pool), step, den


def _length(rng, step, den):
    r = rng.random()
    if r < 0.1:
        return Fr(0)
    if r < 0.3:
        return Fr(rng.randint(1, 8 * den), den)
    if r < 0.6:
        return Fr(rng.choice([10, 50, 100, 150, 250, 1000]))
    if r < 0.8:
        return Fr(step * rng.randint(1, 5))
    if r < 0.9:
        return Fr(rng.randint(1, 10 ** 6))
    return Fr(2 ** rng.randint(20, 40))


def _note_rows(rng, pool, cols, n, p_hold, step, den, nan_ok=False):
    hits, holds = [], []
    for _ in range(n):
        c = rng.choice(cols)
        t = rng.choice(pool)
        x = rng.randint(0, 30)
        if rng.random() < p_hold:
            l = _length(rng, step, den)
            holds.append({"c": c, "o": _fj(t), "l": (None if (nan_ok and rng.random() < 0.3) else _fj(l)), "x": x})
        else:
            hits.append({"c": c, "o": _fj(t), "x": x})
    return hits, holds


def _col_diffs(notes):
    by = {}
    for r in notes:
        by.setdefault(r["c"], []).append(F.frac_from_json(r["o"]))
    d = []
    for ts in by.values():
        ts.sort()
        d.extend(b - a for a, b in zip(ts, ts[1:]))
    return d


def _gap_thr(rng, notes, den):
    diffs = _col_diffs(notes)
    eps = Fr(1, 8)
    gap = rng.choice([Fr(0), Fr(0), eps, Fr(1), Fr(50), Fr(150), Fr(1, 2), Fr(10 ** 9), Fr(2 ** 40)]
                     + ([rng.choice(diffs), rng.choice(diffs) + rng.choice([-eps, eps, -1, 1])] if diffs else []))
    if gap < 0:
        gap = Fr(0)
    thr_c = [Fr(0), Fr(0), eps, Fr(1), Fr(100), Fr(10 ** 9), Fr(2 ** 40)]
    if diffs:
        for _ in range(4):
            d = rng.choice(diffs)
            for e in (0, eps, -eps, 1, -1):
                thr_c.append(d - gap + e)
    thr = rng.choice(thr_c)
    if thr < 0:
        thr = Fr(0)
    return gap, thr


def _gen_case(rng, game=None, force=None):
    game = game or rng.choice(["osu", "osu", "qua", "bms", "bms", "o2j", "o2j", "sm", "sm", "sm", "base"])
    pool, step, den = _pool(rng)
    keys = rng.choice([1, 2, 4, 4, 7, 7, 10])
    ncols = rng.randint(1, keys)
    cols = rng.sample(range(keys), ncols)
    n = rng.choice([0, 1, 2, 3, 4, 6, 9, 13, 20, 30, 45])
    p_hold = rng.choice([0.0, 0.0, 0.3, 0.5, 0.5, 0.8, 1.0])
    nan_ok = rng.random() < 0.02
    if force == "ties":
        # many notes sharing the last time of a column, more than 16 rows overall (unstable sort territory)
        n = rng.choice([18, 24, 33, 40])
        cols = cols[:2]
        pool = pool[:3]
        p_hold = 0.5
    hits, holds = _note_rows(rng, pool, cols, n, p_hold, step, den, nan_ok)
    if force == "ties":
        tmax = max(pool)
        for _ in range(rng.randint(2, 6)):
            c = cols[0]
            if rng.random() < 0.5:
                hits.append({"c": c, "o": _fj(tmax), "x": 0})
            else:
                holds.append({"c": c, "o": _fj(tmax), "l": _fj(_length(rng, step, den)), "x": 0})
    r = rng.random()
    if r < 0.08:
        hits = []
    elif r < 0.16:
        holds = []
    if rng.random() < 0.6:
        rng.shuffle(hits)
        rng.shuffle(holds)
    else:
        hits.sort(key=lambda q: Fr(*q["o"]))
        holds.sort(key=lambda q: Fr(*q["o"]))
    lists = {"hits": hits, "holds": holds}
    lists["bpms"] = [{"o": _fj(rng.choice([0, -10, 1000, Fr(1, 2)])), "bpm": _fj(rng.choice([120, 150, Fr(333, 2)]))}
                     for _ in range(rng.choice([0, 1, 1, 2, 3]))]
    if game in ("osu", "qua") and rng.random() < 0.6:
        lists["svs"] = [{"o": _fj(rng.randint(0, 5000)), "mult": _fj(rng.choice([1, Fr(1, 2), 2, Fr(5, 4)]))}
                        for _ in range(rng.choice([1, 2, 3]))]
    if game == "sm":
        if rng.random() < 0.5:
            lists["stops"] = [{"o": _fj(rng.randint(0, 5000)), "l": _fj(rng.choice([100, 250]))}
                              for _ in range(rng.choice([1, 2]))]
        if rng.random() < 0.55:
            for nm in SM_EXTRA_HITS:
                if rng.random() < 0.4:
                    h, _ = _note_rows(rng, pool, cols, rng.choice([1, 1, 2, 4]), 0.0, step, den)
                    lists[nm] = h
            if rng.random() < 0.4:
                _, ro = _note_rows(rng, pool, cols, rng.choice([1, 1, 2, 3]), 1.0, step, den)
                lists["rolls"] = ro
    gap, thr = _gap_thr(rng, hits + holds, den)
    r = rng.random()
    if r < 0.015:
        gap = -rng.choice([Fr(1), Fr(1, 8), Fr(150)])
    elif r < 0.03:
        thr = -rng.choice([Fr(1), Fr(1, 8), Fr(100)])
    return {"game": game, "gap": _fj(gap), "thr": _fj(thr), "lists": lists,
            "build": rng.choice(["objs", "objs", "dict"]),
            "ints": rng.random() < 0.3,
            "labels": rng.choice(["range", "range", "rev", "rand", "dup"]),
            "fields": rng.random() < 0.5,
            "defaults": rng.random() < 0.1}


def generate(rng, tier):
    n = 640 if tier == "quick" else 12000
    cases = []
    # fixed small cases: the six examples of the test-suite on every game, boundaries of the two thresholds
    for game in GAMES:
        for hs, hos in [([0, 250], []), ([0, 249], []), ([], [(0, 100), (250, 100)]), ([], [(0, 100), (249, 100)]),
                        ([0], [(250, 100)]), ([250], [(0, 100)]), ([], []), ([5], []), ([], [(5, 7)])]:
            cases.append({"game": game, "gap": _fj(150), "thr": _fj(100), "build": "objs", "ints": False, "labels": "range",
                          "fields": False, "defaults": False,
                          "lists": {"hits": [{"c": 0, "o": _fj(t), "x": 0} for t in hs],
                                    "holds": [{"c": 0, "o": _fj(t), "l": _fj(l), "x": 0} for t, l in hos],
                                    "bpms": [{"o": _fj(0), "bpm": _fj(120)}]}})
    for i in range(n):
        cases.append(_gen_case(rng, force="ties" if i % 12 == 0 else None))
    return cases


# ------------------------------------------------------------------ implementation side
def _num(fr, ints):
    fr = Fr(fr)
    if ints and fr.denominator == 1:
        return int(fr)
    v = float(fr)
    if Fr(v) != fr:
        raise ValueError("generated value is not float-exact")
    return v


def _game_fields(game, x, hold):
    if game == "osu":
        return dict(hitsound_set=x % 4, sample_set=x % 3, volume=(x * 7) % 101, hitsound_file="" if x % 2 else "s%d.wav" % x)
    if game == "bms":
        return dict(sample=b"" if x % 3 == 0 else ("%02d" % (x % 100)).encode())
    if game == "o2j":
        return dict(volume=x % 16, pan=(x * 3) % 16)
    if game == "qua":
        return dict(keysounds=[] if x % 2 else ["k%d" % x])
    return {}


def _build_list(case, m, name, rows):
    import numpy as np
    cur = m.objs[name]
    cls = type(cur)
    if not rows:
        return cls([])
    game, ints = case["game"], case["ints"]
    item = cls._item_class()
    recs = []
    for r in rows:
        d = {"offset": _num(Fr(*r["o"]), ints)}
        if "c" in r:
            d["column"] = int(r["c"])
        if "l" in r:
            d["length"] = float("nan") if r["l"] is None else _num(Fr(*r["l"]), ints)
        if "bpm" in r:
            d["bpm"] = _num(Fr(*r["bpm"]), ints)
        if "mult" in r:
            d["multiplier"] = _num(Fr(*r["mult"]), ints)
        recs.append((d, r.get("x", 0)))
    if case["build"] == "dict" and game != "qua":
        lst = cls.from_dict([d for d, _ in recs])
    else:
        objs = []
        for d, x in recs:
            kw = dict(d)
            if "c" in rows[0] and case["fields"]:
                kw.update(_game_fields(game, x, "length" in d))
            elif game == "qua" and "c" in rows[0]:
                kw["keysounds"] = []
            objs.append(item(**kw))
        lst = cls(objs)
    lab = case["labels"]
    k = len(lst.df)
    if lab == "rev":
        lst.df.index = list(range(k - 1, -1, -1))
    elif lab == "rand":
        lst.df.index = [100 + 7 * ((i * 5 + 3) % k) + (i // k) for i in range(k)]
    elif lab == "dup":
        lst.df.index = [0] * k
    return lst


def _build(case):
    import importlib
    modname, clsname = GAMES[case["game"]]
    m = getattr(importlib.import_module(modname), clsname)()
    if case.get("defaults"):
        # leave lists that are empty in the case as the constructor made them
        for name, rows in case["lists"].items():
            if rows:
                setattr(m, name, _build_list(case, m, name, rows))
        return m
    for name, rows in case["lists"].items():
        if name not in m.objs:
            raise ValueError(f"chart of game {case['game']} has no list {name}")
        setattr(m, name, _build_list(case, m, name, rows))
    return m


def _norm(v):
    import numpy as np
    if isinstance(v, (bool, np.bool_)):
        return ("b", bool(v))
    if isinstance(v, (int, float, np.integer, np.floating)):
        f = float(v)
        if f != f:
            return ("nan",)
        return ("n", Fr(f).numerator, Fr(f).denominator)
    if isinstance(v, bytes):
        return ("y", v.hex())
    if isinstance(v, str):
        return ("s", v)
    if isinstance(v, (list, tuple)):
        return ("l",) + tuple(_norm(x) for x in v)
    if v is None:
        return ("none",)
    return ("r", repr(v))


def _snapshot(m, intern):
    """Every entry of Map.objs in order: class flags, the (column, offset, length) view, interned full rows."""
    from reamber.base.lists.notes.HitList import HitList
    from reamber.base.lists.notes.HoldList import HoldList
    import numpy as np
    out = []
    for name, lst in m.objs.items():
        cls = "hit" if isinstance(lst, HitList) else "hold" if isinstance(lst, HoldList) else "none"
        slot = "hits" if lst is m.hits else "holds" if lst is m.holds else "other"
        df = lst.df
        notes = []
        if cls != "none":
            for i in range(len(df)):
                row = df.iloc[i]
                c = float(row["column"])
                o = float(row["offset"])
                if c != int(c) or o != o:
                    raise ValueError("non-integral column / NaN offset in a note list")
                l = None
                if "length" in df.columns:
                    lv = float(row["length"])
                    l = None if lv != lv else _fj(Fr(lv))
                notes.append([int(c), _fj(Fr(o)), l])
        ids = []
        names = sorted(str(c) for c in df.columns)
        for i in range(len(df)):
            row = df.iloc[i]
            keyt = tuple((nm, _norm(row[nm])) for nm in names)
            ids.append(intern.setdefault(keyt, len(intern) + 1))
        out.append({"name": name, "slot": slot, "cls": cls, "notes": notes, "ids": ids})
    return out


def _same_map(a, b):
    """argument chart identical before/after: same lists, values, columns, dtypes, row labels"""
    if list(a.objs.keys()) != list(b.objs.keys()):
        return False
    for k in a.objs:
        da, db = a.objs[k].df, b.objs[k].df
        if type(a.objs[k]) is not type(b.objs[k]):
            return False
        if list(da.columns) != list(db.columns) or list(da.index) != list(db.index):
            return False
        if list(da.dtypes.astype(str)) != list(db.dtypes.astype(str)):
            return False
        for c in da.columns:
            if [_norm(x) for x in da[c].tolist()] != [_norm(x) for x in db[c].tolist()]:
                return False
    return True


def execute(case):
    from reamber.algorithms.generate import full_ln
    m = _build(case)
    before = copy.deepcopy(m)
    intern = {}
    snap_in = _snapshot(m, intern)
    gap = _num(Fr(*case["gap"]), case["ints"])
    thr = _num(Fr(*case["thr"]), case["ints"])
    res = {"in": snap_in}
    try:
        o = full_ln(m, gap, thr)
    except ValueError as e:
        res.update({"v": None, "exc": "ValueError: " + str(e)[:120], "unchanged": _same_map(before, m)})
        return res
    res["unchanged"] = _same_map(before, m) and (o is not m)
    res["v"] = _snapshot(o, intern)
    return res


# ------------------------------------------------------------------ Coq side
def _all_fracs(case, out):
    yield Fr(*case["gap"])
    yield Fr(*case["thr"])
    for snap in (out["in"], out.get("v") or []):
        for l in snap:
            for c, o, ln in l["notes"]:
                yield Fr(*o)
                if ln is not None:
                    yield Fr(*ln)


def _scale(case, out):
    d = 1
    for f in _all_fracs(case, out):
        d = d * f.denominator // math.gcd(d, f.denominator)
    return d


def _zi(fr, d):
    v = Fr(fr) * d
    if v.denominator != 1:
        raise ValueError("scaling failed")
    n = v.numerator
    return f"({n})" if n < 0 else str(n)


def _note(n, d, cls):
    c, o, ln = n
    cz = f"({c})" if c < 0 else str(c)
    if ln is None:
        return f"nh {cz} {_zi(Fr(*o), d)}"
    return f"nl {cz} {_zi(Fr(*o), d)} {_zi(Fr(*ln), d)}"


def _chart(snap, d):
    items = []
    for l in snap:
        slot = {"hits": "SHits", "holds": "SHolds", "other": "SOther"}[l["slot"]]
        cls = {"hit": "CHit", "hold": "CHold", "none": "CNone"}[l["cls"]]
        notes = F.lst([_note(n, d, l["cls"]) for n in l["notes"]])
        ids = F.lst([F.z(i) for i in l["ids"]]) if l["slot"] == "other" else "[]"
        items.append(f"TL {slot} {cls} {notes} {ids}")
    return F.lst(items)


def emit(case, out):
    d = _scale(case, out)
    m = _chart(out["in"], d)
    o = "None" if out["v"] is None else f"(Some {_chart(out['v'], d)})"
    return f"C17 {m} {_zi(Fr(*case['gap']), d)} {_zi(Fr(*case['thr']), d)} {o} {F.boolean(out['unchanged'])}"


# ------------------------------------------------------------------ direct Python re-check (independent of Coq)
def _notes_of(snap, which):
    res = []
    for l in snap:
        if which(l):
            for c, o, ln in l["notes"]:
                ln = None if (ln is None or l["cls"] == "hit") else Fr(*ln)
                res.append((c, Fr(*o), ln))
    return res


def _rule_ok(I, O, gap, thr):
    """per column: all but one output are the fills of consecutive sorted times; the remaining one is an input note
    at the greatest time of the column, unchanged"""
    from collections import Counter
    cols = {c for c, _, _ in I} | {c for c, _, _ in O}
    for c in cols:
        Ic = [(o, l) for cc, o, l in I if cc == c]
        Oc = Counter((o, l) for cc, o, l in O if cc == c)
        if not Ic:
            return False
        ts = sorted(o for o, _ in Ic)
        exp = Counter()
        for a, b in zip(ts, ts[1:]):
            inv = b - a - gap
            exp[(a, inv if inv >= thr else None)] += 1
            if inv >= thr and a + inv > b:
                return False
        rest = Oc - exp
        if sum(Oc.values()) != len(Ic) or sum(rest.values()) != 1 or (exp - Oc):
            return False
        (lo, ll), = rest.keys()
        if lo != ts[-1] or (lo, ll) not in Ic:
            return False
    return True


def _others_same(snap_in, snap_out, also_notes=False):
    a = [(l["name"], l["cls"], l["ids"], l["notes"]) for l in snap_in if l["slot"] == "other"]
    b = [(l["name"], l["cls"], l["ids"], l["notes"]) for l in snap_out if l["slot"] == "other"]
    return a == b and [l["slot"] for l in snap_in] == [l["slot"] for l in snap_out]


def _in_domain(case, out):
    if Fr(*case["gap"]) < 0 or Fr(*case["thr"]) < 0:
        return False
    for l in out["in"]:
        if l["cls"] == "hold" and any(n[2] is None for n in l["notes"]):
            return False
    return True


def _check(case, out):
    if out["v"] is None or not out["unchanged"]:
        return False
    gap, thr = Fr(*case["gap"]), Fr(*case["thr"])
    I = _notes_of(out["in"], lambda l: l["slot"] != "other")
    oh = _notes_of(out["v"], lambda l: l["slot"] == "hits")
    oo = _notes_of(out["v"], lambda l: l["slot"] == "holds")
    if any(l is not None for _, _, l in oh) or any(l is None for _, _, l in oo):
        return False
    for l in out["v"]:
        if l["slot"] == "hits" and l["cls"] != "hit" or l["slot"] == "holds" and l["cls"] != "hold":
            return False
    if not _others_same(out["in"], out["v"]):
        return False
    return _rule_ok(I, oh + oo, gap, thr)


def py_oracle(case, out):
    if not _in_domain(case, out):
        return None
    return _check(case, out)


def _extras_nonempty(out):
    return any(l["slot"] == "other" and l["cls"] != "none" and l["notes"] for l in out["in"])


def classify(case, out, kind):
    # no known finding is open for C17 (sm-extra-note-lists is fixed by 2c338d8): every violation raises
    return None


def nontrivial(case, out):
    by = {}
    for l in out["in"]:
        if l["cls"] != "none":
            for c, _, _ in l["notes"]:
                by[c] = by.get(c, 0) + 1
    return any(v >= 2 for v in by.values())


def _has_last_tie(out):
    by = {}
    for l in out["in"]:
        if l["cls"] != "none":
            for c, o, ln in l["notes"]:
                by.setdefault(c, []).append((Fr(*o), None if l["cls"] == "hit" or ln is None else tuple(ln)))
    for v in by.values():
        tm = max(t for t, _ in v)
        if len({ln for t, ln in v if t == tm}) >= 2:
            return True
    return False


def bucket(case, out):
    k = case["game"]
    n = sum(len(l["notes"]) for l in out["in"] if l["cls"] != "none")
    k += "/n=" + ("0" if n == 0 else "1-4" if n <= 4 else "5-16" if n <= 16 else "17+")
    if _has_last_tie(out):
        k += "/last-tie"
    if _extras_nonempty(out):
        k += "/extras"
    if out["v"] is None:
        k += "/exc"
    if not _in_domain(case, out):
        k += "/outside"
    return k


def describe(case, out):
    ls = {k: len(v) for k, v in case["lists"].items() if v}
    return (f"game={case['game']} gap={Fr(*case['gap'])} thr={Fr(*case['thr'])} lists={ls} build={case['build']} "
            f"labels={case['labels']} result={'exception ' + out.get('exc', '') if out.get('v') is None else 'chart'}")


def shrink(case):
    lists = case["lists"]
    for name in list(lists):
        rows = lists[name]
        if rows and name not in ("hits", "holds"):
            c = copy.deepcopy(case); c["lists"][name] = []
            yield c
    for name in list(lists):
        rows = lists[name]
        if len(rows) > 4:
            for half in (rows[: len(rows) // 2], rows[len(rows) // 2:]):
                c = copy.deepcopy(case); c["lists"][name] = copy.deepcopy(half)
                yield c
        for i in range(min(len(rows), 12)):
            c = copy.deepcopy(case); c["lists"][name] = rows[:i] + rows[i + 1:]
            yield c
    for k, v in (("labels", "range"), ("fields", False), ("build", "objs"), ("ints", False), ("defaults", False)):
        if case.get(k) != v:
            c = copy.deepcopy(case); c[k] = v
            yield c
