"""C13: rate change scales time uniformly, composes, and survives a write.
Charts/mapsets of all five games are rate-changed; Coq compares the rated lists AND the file-level fields (osu preview point /
sample events / other attributes, StepMania offset / sample window / other attributes, every chart of a mapset) with the model
of Map/Rate.v + Map/RateFile.v (corr) and with uniform scaling (spec), and checks that the original is untouched; the strict
reading of osu's preview marker is a separate term (CPreview).  Write survival: theorems in Props/C13.v; per run through
reamber's readers (py_oracle)."""
from fractions import Fraction as Fr

from .. import coqfmt as F
from .. import frames as FR
from .. import maps as M

ID = "C13"
RUNNER = "Corr.RunC13"
CASE_TYPE = "c13case"
RUNNER_TARGETS = ["Corr/RunC13.vo"]
PROOF_TARGETS = ["Props/C13.vo"]
PROPS_FILE = "Props/C13.v"
PROPS_MODULE = "Props.C13"
RULE = ("random charts of the five games (empty hold/SV/sample lists included, ties, non-default labels, int-typed columns) and StepMania/O2Jam/base "
        "mapsets (1-3 charts; StepMania offset None / 0 / negative / fractional); rates from the exact family {1/4,1/2,1,2,4,8} (equality demanded) "
        "and the rounded family {1.1,0.75,1.5,0.9,1.25} (1e-9 relative); kinds: rate, rate(1), rate(a).rate(b) vs rate(a*b), osu charts with their "
        "file-level fields (preview point incl. the marker -1, 0-3 sample events, all other attributes) before / after on the original and on the copy, "
        "StepMania mapsets with offset / sample window / other attributes likewise, write->read of the rated chart (osu, Quaver: < 1 ms; "
        "StepMania mapsets and BMS charts on the 1/4-beat grid of one tempo at a measure line with power-of-two rates: hits, holds and tempo "
        "points read back exactly, half of the originals written / asked for their timing map once before rate(); an exception counts as failure); "
        "non-trivial = chart has >= 2 rows in some list and rate != 1")
ASSUMPTIONS = [
    "exact stream: dyadic values and power-of-two rates, where binary64 division/multiplication is exact; rounded stream: tolerance 1e-9 relative",
    "per run, write->read survival is additionally judged through reamber's own readers (py_oracle); the theorems C13_<game>_rate_survives_write are "
    "about the format models of C01/C03/C05/C06 and their reference semantics",
    "osu preview_time = -1 is the format's 'no preview point' marker (kept by OsuMap.rate since 09d92a7): generated previews are -1 or >= 0; the strict "
    "reading (marker kept, a preview point p at p/r) is a separate check (CPreview); a negative preview time p = -r, which lands on the marker, is "
    "outside the generated domain (C13_osu_preview_strict_refuted / C13_osu_file_rate_compose_refuted state it)",
    "file-level attributes other than the time fields are compared as opaque interned cells (dataclass fields in declaration order)",
]
TRUSTED = ["harness/frames.py, harness/maps.py"]
MANIFEST = dict(
    text="Coq proofs, for every chart / mapset and every rate: (1) Map.rate - modelled as the three edits through the stacker - is uniform scaling "
         "(rate_lists = rate_spec, by composing the C12 stacker theorems), keeps columns / row counts / other cells, is the identity at 1 and composes; "
         "(2) file level (Map/RateFile.v): OsuMap.rate divides every sample event's time by r, keeps the preview marker -1 and divides any other preview value, keeps every other attribute, "
         "SMMapSet.rate divides offset (when set), sample start and sample length and rates every chart, MapSet.rate rates each chart on its own; "
         "identity and composition for those too (osu composition under the exact guard preview = -1 or preview <> -a: a negative preview time -a lands on "
         "the marker, refuted without it, replayed on the code); a chart without a preview point has none afterwards (the defect of the OLD model, "
         "-1 -> -0.5 -> 'PreviewTime: 0', stays stated as C13_OLD_osu_preview_unset_refuted; repaired by 09d92a7); (3) write survival over the format models: Quaver whole "
         "document for every chart of C06's writer domain (denote(write(rate r c)) = rated timeline, every time within < 1 ms of t/r, bpm*r exactly, "
         "counts/lanes/key sounds kept), StepMania and BMS by composition with C03's / C05's whole-file writer theorems for every rated chart in "
         "their decidable domains (objects at exactly t/r resp. within 1/192 beat and exact on the grid, tempo at t/r with bpm*r), osu by composition with "
         "C01's whole-file writer theorem (notes and samples within < 1 ms of t/r, tempo at t/r with bpm*r; printers as oracle parameters); the format-level rate functions are proved equal to the stacker model "
         "under explicit embeddings. (4) closure of the writer domains under rate (hypothesis on the SOURCE chart, theorems ..._closed): uniform scaling "
         "changes no position -- for r > 0 TimingMap.snaps of the rated rows at the rated times returns the very same positions, and the re-derived "
         "script, its millisecond form, time_of, the active tempo, cumulative beats, the grid test and C10's domains commute with the scaling "
         "(C13_scaling_keeps_positions/_script/_beats); hence StepMania's exact write domain c03_domb is closed for every r > 0 "
         "(C13_sm_domain_closed, C13_sm_rate_survives_write_closed: no hypothesis on the rated mapset), BMS's write_dom is closed under exactly the "
         "guard that bpm*r survives ':.3f' (closure refuted without it: C13_bms_write_dom_rate_refuted, r = 3/7 on C05's example; real code: a note "
         "at 466666.67 ms is read back at 466662.78 ms -- the known finding bpm-3f-rounding seen through rate), osu's structural write_domain is "
         "closed for every r <> 0 and the full domain only up to the printer oracle on the rated numbers (C13_osu_wdom6_rate_refuted: 1000/3 has no "
         "six-decimal print). Tied to Map.rate/MapSet.rate/OsuMap.rate/SMMapSet.rate by in-Coq correspondence on charts of all five games "
         "(model output = implementation output, original untouched, file-level fields included).",
    note="Trusted: Coq kernel+VM, harness; binary64 exact on the exact stream by construction, measured (1e-9) on the rounded stream. Closure of the writer domains under "
         "rate: proved for StepMania (r > 0), for BMS under the ':.3f' guard, for osu's write_domain (the printer clause of the full osu domain "
         "stays a hypothesis on the rated numbers); the theorems with the hypothesis on the rated chart are kept. BMS charts with tempo rows out of time order are covered "
         "(write_dom_any closed under the same guard, C13_bms_rate_survives_write_any_order). Not covered: the cap regime of C03 (c03_cap_domb). Fixed findings: SM offset unscaled (0398fe5), osu preview marker scaled (09d92a7).",
    technique="Coq proof (composition of stacker refinement; composition with the formats' writer theorems) + vm_compute correspondence",
    design="4/C13")

EXACT = [0.25, 0.5, 1.0, 2.0, 4.0, 8.0]
ROUNDED = [1.1, 0.75, 1.5, 0.9, 1.25]


def _grid_chart(rng, game, off):
    """chart on the 1/4-beat grid of ONE tempo (120 bpm at [off], a measure line): 125 ms steps; no two objects of a column touch"""
    cls = M.map_class(game)
    m = cls()
    spec = {"game": game, "lists": {}}
    maxcol = 3 if game == "sm" else 6
    used = []
    for name, lst in m.objs.items():
        props = lst._item_class()._props
        rows = []
        if name == "bpms":
            r = {k: M.rand_val(rng, k, v[0]) for k, v in props.items()}
            r.update({"offset": off, "bpm": 120.0, "metronome": 4.0})
            rows.append(r)
        elif name in ("hits", "holds"):
            for _ in range(rng.choice([1, 2, 3, 5] if name == "hits" else [0, 1, 2, 3])):
                r = {k: M.rand_val(rng, k, v[0]) for k, v in props.items()}
                for _try in range(40):
                    r["offset"], r["column"] = off + rng.randint(0, 47) * 125.0, rng.randint(0, maxcol)
                    ln = rng.choice([125.0, 250.0, 500.0]) if "length" in r else 0.0
                    a, b = r["offset"], r["offset"] + ln
                    if all(c != r["column"] or b < s0 or a > e0 for (c, s0, e0) in used):
                        if "length" in r:
                            r["length"] = ln
                        used.append((r["column"], a, b))
                        rows.append(r)
                        break
        spec["lists"][name] = {"rows": rows, "labels": "default"}
    return spec


def generate(rng, tier):
    n = 30 if tier == "quick" else 300
    cases = []
    # write survival on the row grid (StepMania mapsets, BMS charts): one tempo at a measure line, 1/4-beat positions, power-of-two
    # rates, so that write -> read must give the rated times exactly; half of the originals are written (or asked for their
    # timing map) once BEFORE rate(), as a caller that saves the original first does
    for _ in range(max(12, n // 2)):
        off = rng.choice([0.0, 0.0, 500.0, 2000.0])
        shared = _grid_chart(rng, "sm", off)
        maps = [shared] + [_grid_chart(rng, "sm", off) for _ in range(rng.choice([0, 1]))]
        for mp in maps[1:]:
            mp["lists"]["bpms"] = shared["lists"]["bpms"]
        cases.append({"kind": "mapset", "game": "sm", "maps": maps, "by": rng.choice([0.5, 2.0, 4.0, 0.25]), "exact": True,
                      "grid": True, "pre": rng.choice(["none", "write", "timing_map", "write"]),
                      "sm": {"offset": off, "sample_start": rng.choice([0.0, 10000.0]), "sample_length": 10000.0}})
    for _ in range(max(8, n // 3)):
        cases.append({"kind": "write", "game": "bms", "map": _grid_chart(rng, "bms", 0.0), "by": rng.choice([0.5, 2.0, 4.0]),
                      "by2": 1.0, "exact": True, "grid": True, "pre": rng.choice(["none", "write", "timing_map"]),
                      "preview": 0, "samples": [], "sm": {}})
    for game in M.GAMES:
        for _ in range(n):
            exact = rng.random() < 0.7
            by = rng.choice(EXACT if exact else ROUNDED)
            kind = rng.choice(["rate", "rate", "rate", "one", "compose", "fields", "write"])
            c = {"kind": kind, "game": game, "map": M.gen_map_spec(rng, game, max_rows=rng.choice([2, 4, 6])), "by": by,
                 "by2": rng.choice(EXACT if exact else ROUNDED), "exact": exact,
                 "preview": rng.choice([0, 1000, 2500, 12345, 12345, -1]), "samples": [M.rand_time(rng) for _ in range(rng.choice([0, 1, 3]))],
                 "sm": {"offset": rng.choice([0.0, 500.0, -250.0, 1234.5]), "sample_start": rng.choice([0.0, 10000.0, 2500.0]),
                        "sample_length": rng.choice([10000.0, 5000.0])}}
            if game == "osu" and kind == "one":
                c["preview"] = rng.choice([-1, 1000])
            cases.append(c)
        for _ in range(max(2, n // 4)):
            exact = rng.random() < 0.7
            cases.append({"kind": "mapset", "game": game, "maps": [M.gen_map_spec(rng, game, max_rows=3) for _ in range(rng.choice([1, 2, 3]))],
                          "by": rng.choice(EXACT if exact else ROUNDED), "exact": exact,
                          # (osu charts of a set carry their own file-level fields: a set's rate must scale them too)
                          "preview": rng.choice([1000, 2500, 12345, -1]), "samples": [M.rand_time(rng) for _ in range(rng.choice([1, 3]))],
                          "sm": {"offset": rng.choice([0.0, 500.0, -250.0, 1234.5, None]), "sample_start": rng.choice([0.0, 10000.0, 2500.0]),
                                 "sample_length": rng.choice([10000.0, 5000.0])}})
    return cases


def _ul(m, it):
    return [M.snapshot_list(v, it) for v in m.objs.values()]


def _frames(m, it):
    return [FR.frame_json(v.df, it) for v in m.objs.values()]


def _prep(case, m):
    if case["game"] == "osu":
        from reamber.osu.lists.OsuSampleList import OsuSampleList
        from reamber.osu.OsuSample import OsuSample
        m.preview_time = case["preview"]
        m.samples = OsuSampleList([OsuSample(offset=o, sample_file="s.wav", volume=70) for o in case["samples"]])
        m.title, m.tags, m.audio_lead_in = "t:1", ["a", "b"], 500
    return m


OSU_TIME_FIELDS = ("objs", "samples", "preview_time")
SM_TIME_FIELDS = ("maps", "offset", "sample_start", "sample_length")


def _meta_cells(obj, skip, it):
    """every other dataclass attribute, in declaration order, as opaque cells (they must travel unchanged)"""
    import dataclasses
    return [FR.cell_json(getattr(obj, f.name), it) for f in dataclasses.fields(obj) if f.name not in skip]


def _osu_file(m, it):
    return {"lists": _ul(m, it), "samples": M.snapshot_list(m.samples, it), "preview": F.frac_json(Fr(m.preview_time)),
            "meta": _meta_cells(m, OSU_TIME_FIELDS, it)}


def _sm_file(ms, it):
    return {"charts": [_ul(m, it) for m in ms.maps], "offset": None if ms.offset is None else F.frac_json(Fr(ms.offset)),
            "start": F.frac_json(Fr(ms.sample_start)), "length": F.frac_json(Fr(ms.sample_length)),
            "meta": _meta_cells(ms, SM_TIME_FIELDS, it)}


def execute(case):
    it = FR.Interner()
    by = case["by"]
    out = {"checks": []}
    if case["kind"] == "mapset":
        maps = [M.build_map(s) for s in case["maps"]]
        if case["game"] == "osu" and "preview" in case:
            maps = [_prep(case, m) for m in maps]
        ms = M.build_mapset(case["game"], maps)
        if case["game"] == "sm":
            ms.offset, ms.sample_start, ms.sample_length = case["sm"]["offset"], case["sm"]["sample_start"], case["sm"]["sample_length"]
            ms.title, ms.selectable = "t", False
        if case.get("grid"):
            _pre(case, ms, maps)
        fb = [_frames(m, it) for m in maps]
        osu_src = [_osu_file(m, it) for m in maps] if case["game"] == "osu" and "preview" in case else None
        if case["game"] == "sm":
            src = _sm_file(ms, it)
        else:
            src = [_ul(m, it) for m in maps]
        r = ms.rate(by)
        out["types_ok"] = type(r) is type(ms) and len(r.maps) == len(maps) and all(type(a) is type(b) for a, b in zip(r.maps, maps))
        fa = [_frames(m, it) for m in ms.maps]
        if osu_src is not None and len(r.maps) == len(maps):
            # every osu chart of the set: the same file-level check as for a single chart
            for k, (m, m2) in enumerate(zip(maps, r.maps)):
                out["checks"].append({"t": "osu", "src": osu_src[k], "out": _osu_file(m2, it), "after": _osu_file(m, it),
                                      "fb": fb[k], "fa": fa[k]})
        if case["game"] == "sm":
            out["checks"].append({"t": "sm", "src": src, "out": _sm_file(r, it), "after": _sm_file(ms, it), "fb": fb, "fa": fa})
            if case.get("grid"):
                out["write"] = _grid_write_read("sm", r)
        else:
            out["checks"].append({"t": "set", "src": src, "out": [_ul(m, it) for m in r.maps], "fb": fb, "fa": fa})
        return out
    m = _prep(case, M.build_map(case["map"]))
    if case.get("grid"):
        _pre(case, None, [m])
    ub, fb = _ul(m, it), _frames(m, it)
    kind = case["kind"]
    if kind in ("rate", "fields", "write"):
        src = _osu_file(m, it) if case["game"] == "osu" else None
        m2 = m.rate(by)
        out["types_ok"] = type(m2) is type(m) and all(type(a) is type(b) for a, b in zip(m2.objs.values(), m.objs.values()))
        if case["game"] == "osu":
            out["checks"].append({"t": "osu", "src": src, "out": _osu_file(m2, it), "after": _osu_file(m, it), "fb": fb, "fa": _frames(m, it)})
            out["checks"].append({"t": "preview", "before": src["preview"], "after": F.frac_json(Fr(m2.preview_time))})
        else:
            out["checks"].append({"t": "rate", "src": ub, "out": _ul(m2, it), "sb": fb, "sa": _frames(m, it)})
        if kind == "write" and case["game"] in ("osu", "qua"):
            out["write"] = _write_read(case["game"], m2)
        if kind == "write" and case.get("grid"):
            out["write"] = _grid_write_read(case["game"], m2)
    elif kind == "one":
        m2 = m.rate(1.0)
        out["checks"].append({"t": "same", "a": _ul(m2, it), "b": ub})
        if case["game"] == "osu":
            out["checks"].append({"t": "preview", "by": 1.0, "before": F.frac_json(Fr(m.preview_time)), "after": F.frac_json(Fr(m2.preview_time))})
    elif kind == "compose":
        a, b = case["by"], case["by2"]
        out["checks"].append({"t": "same", "a": _ul(m.rate(a).rate(b), it), "b": _ul(m.rate(a * b), it)})
        if case["game"] == "osu":
            x, y = m.rate(a).rate(b), m.rate(a * b)
            out["checks"].append({"t": "same", "a": [M.snapshot_list(x.samples, it)], "b": [M.snapshot_list(y.samples, it)]})
            out["checks"].append({"t": "preview", "by": a * b, "before": F.frac_json(Fr(m.preview_time)), "after": F.frac_json(Fr(x.preview_time))})
    return out


def _pre(case, ms, maps):
    """what a caller that saves / inspects the original first does (must not influence the rated copy)"""
    if case.get("pre") == "write":
        if ms is not None:
            ms.write()
        else:
            for m in maps:
                m.write()
    elif case.get("pre") == "timing_map":
        for m in maps:
            m.bpms.to_timing_map()


GRID_TOL = 1e-6


def _grid_write_read(game, rated):
    """rated StepMania mapset / BMS chart -> text -> reamber's reader: hits, holds (start, length) and tempo points of every
    chart at the rated in-memory values (grid charts: exact up to GRID_TOL); an exception while writing or reading fails"""
    try:
        if game == "sm":
            from reamber.sm.SMMapSet import SMMapSet
            back = SMMapSet.read(rated.write()).maps
            want = rated.maps
        else:
            from reamber.bms.BMSMap import BMSMap
            txt = rated.write()
            back = [BMSMap.read(txt.decode("ascii").split("\n") if isinstance(txt, bytes) else txt)]
            want = [rated]
    except Exception as e:      # the rated chart could not be written / read back
        return {"worst": float("inf"), "counts_ok": False, "tol": GRID_TOL, "exc": f"{type(e).__name__}: {e}"[:200]}
    worst, counts_ok = 0.0, len(back) == len(want)
    for a, b in zip(want, back):
        pairs = [(sorted(zip(a.hits.column.tolist(), a.hits.offset.tolist())), sorted(zip(b.hits.column.tolist(), b.hits.offset.tolist()))),
                 (sorted(zip(a.holds.column.tolist(), a.holds.offset.tolist(), a.holds.length.tolist())),
                  sorted(zip(b.holds.column.tolist(), b.holds.offset.tolist(), b.holds.length.tolist()))),
                 (sorted(zip(a.bpms.offset.tolist(), a.bpms.bpm.tolist())), sorted(zip(b.bpms.offset.tolist(), b.bpms.bpm.tolist())))]
        for x, y in pairs:
            if len(x) != len(y):
                counts_ok = False
                continue
            for u, v in zip(x, y):
                worst = max([worst] + [abs(float(p) - float(q)) for p, q in zip(u, v)])
    return {"worst": worst, "counts_ok": counts_ok, "tol": GRID_TOL}


def _write_read(game, m2):
    """rated chart -> text -> reader: every time within 1 ms of the rated time (int truncation of the writers)"""
    import math
    if game == "osu":
        from reamber.osu.OsuMap import OsuMap
        m2 = m2.deepcopy()
        m2.circle_size = 7
        m3 = OsuMap.read(m2.write().split("\n") if isinstance(m2.write(), str) else m2.write())
    else:
        from reamber.quaver.QuaMap import QuaMap
        m2 = m2.deepcopy()
        m3 = QuaMap.read(m2.write())
    worst = 0.0
    counts_ok = True
    for name in ("hits", "holds", "bpms"):
        a = sorted(m2.objs[name].offset.tolist())
        b = sorted(m3.objs[name].offset.tolist())
        if len(a) != len(b):
            counts_ok = False
            continue
        for x, y in zip(a, b):
            worst = max(worst, abs(x - y))
    return {"worst": worst, "counts_ok": counts_ok}


def _uls(snaps):
    return F.lst([M.ulist_coq(s) for s in snaps])


def _cells(cs):
    return F.lst([FR.cell_coq(c) for c in cs])


def _qj(p):
    return F.q(F.frac_from_json(p))


def _osu_coq(f):
    return f"(mkOsuFile {_uls(f['lists'])} {M.ulist_coq(f['samples'])} {_qj(f['preview'])} {_cells(f['meta'])})"


def _sm_coq(f):
    off = "None" if f["offset"] is None else f"(Some {_qj(f['offset'])})"
    return f"(mkSmFile {F.lst([_uls(c) for c in f['charts']])} {off} {_qj(f['start'])} {_qj(f['length'])} {_cells(f['meta'])})"


def _frames2(ff):
    return F.lst([F.lst([FR.frame_coq(f) for f in fs]) for fs in ff])


def emit_all(case, out):
    tol = "0" if case.get("exact", True) else "(1#1000000000)"
    by = F.q(Fr(case["by"]))
    terms = []
    for c in out["checks"]:
        if c["t"] == "rate":
            terms.append(f"CRate {tol} {by} {_uls(c['src'])} {_uls(c['out'])} {F.lst([FR.frame_coq(f) for f in c['sb']])} "
                         f"{F.lst([FR.frame_coq(f) for f in c['sa']])}")
        elif c["t"] == "osu":
            a = c["after"]
            terms.append(f"COsu {tol} {by} {_osu_coq(c['src'])} {_osu_coq(c['out'])} {M.ulist_coq(a['samples'])} {_qj(a['preview'])} "
                         f"{_cells(a['meta'])} {F.lst([FR.frame_coq(f) for f in c['fb']])} {F.lst([FR.frame_coq(f) for f in c['fa']])}")
        elif c["t"] == "sm":
            a = c["after"]
            off = "None" if a["offset"] is None else f"(Some {_qj(a['offset'])})"
            terms.append(f"CSm {tol} {by} {_sm_coq(c['src'])} {_sm_coq(c['out'])} {off} {_qj(a['start'])} {_qj(a['length'])} "
                         f"{_cells(a['meta'])} {_frames2(c['fb'])} {_frames2(c['fa'])}")
        elif c["t"] == "set":
            terms.append(f"CSet {tol} {by} {F.lst([_uls(x) for x in c['src']])} {F.lst([_uls(x) for x in c['out']])} "
                         f"{_frames2(c['fb'])} {_frames2(c['fa'])}")
        elif c["t"] == "preview":
            b = F.q(Fr(c["by"])) if "by" in c else by
            terms.append(f"CPreview {tol} {b} {_qj(c['before'])} {_qj(c['after'])}")
        elif c["t"] == "same":
            terms.append(f"CSame {tol} {_uls(c['a'])} {_uls(c['b'])}")
    return terms


def py_oracle(case, out):
    if out.get("types_ok") is False:
        return False
    w = out.get("write")
    if w is not None and (not w["counts_ok"] or w["worst"] >= w.get("tol", 1.0) or "exc" in w):
        return False
    return True


def nontrivial(case, out):
    specs = case["maps"] if case["kind"] == "mapset" else [case["map"]]
    return case["by"] != 1.0 and any(len(l["rows"]) >= 2 for s in specs for l in s["lists"].values())


def bucket(case, out):
    return f"{case['kind']}/{case['game']}/" + ("exact" if case.get("exact", True) else "rounded")


def classify(case, out, kind, sub=None):
    if sub is not None and kind == "spec":
        chk = out["checks"][sub]
        if chk["t"] == "sm":
            s, o, a = chk["src"], chk["out"], chk["after"]
            rest_ok = (all(a[k] == s[k] for k in ("offset", "start", "length", "meta")) and o["meta"] == s["meta"]
                       and all(abs(float(F.frac_from_json(s[k])) / case["by"] - float(F.frac_from_json(o[k]))) <= 1e-6
                               for k in ("start", "length")))
            if rest_ok and s["offset"] is not None and o["offset"] == s["offset"] and case["by"] != 1.0 and F.frac_from_json(s["offset"]) != 0:
                return "sm-rate-offset-unscaled"
    return None


def describe(case, out):
    return f"{case['kind']} {case['game']} by={case['by']} exact={case.get('exact')}"
