"""C08: converters preserve chart content exactly, from any source state.
All 16 converters (+ O2JToSM.convert_merge) are run on source charts built by random histories (fresh, rate-changed,
edited through the stack, filtered, reverse-sorted, appended to, deep-copied); ConvertBase.cast is wrapped from the
harness process to record the mapping it is called with; Coq re-runs the cast model on the source frames and runs
`conv_run` of the GENERATED description of the converter (harness/tables/convert.py -> Tables.convert) on the source
charts, comparing with the charts the implementation returned (corr), and evaluates the content-preservation oracle on
the implementation's target charts (spec)."""
import copy
import dataclasses
import math
from fractions import Fraction as Fr

import numpy as np
import pandas as pd

from .. import coqfmt as F
from .. import frames as FR
from .. import maps as M
from ..tables import convert as CV

ID = "C08"
RUNNER = "Corr.RunC08"
CASE_TYPE = "c08case"
RUNNER_TARGETS = ["Corr/RunC08.vo"]
PROOF_TARGETS = ["Props/C08.vo"]
PROPS_FILE = "Props/C08.v"
PROPS_MODULE = "Props.C08"
RULE = ("each of the 16 converters (and convert_merge) x random source charts of the source game (0-5 rows per list, empty lists, "
        "ties, SV lists for osu/Quaver, 1-3 charts for StepMania/O2Jam mapsets; a third of the charts with values no game client "
        "honours: 0x / negative / 25x / 0.005x SV multipliers, 0.125 .. 2*10^6 bpm) x a random history of the source (none, rate, stack "
        "edit, filter, reverse sort, append, deepcopy, combinations) x shift argument for the BMS targets; the first case of every converter and one in ten of the others has source charts without notes; per case the whole source "
        "(lists as frames with labels, every declared attribute of chart and mapset) and the whole result are handed to Coq; "
        "non-trivial = some source list has >= 2 rows; distinct by hash of canonical JSON")
ASSUMPTIONS = [
    "metadata strings are ASCII: shift_jis encode/decode and unidecode are library oracles, modelled as the identity on ASCII and as "
    "'not modelled' (outside chart_wfb) elsewhere",
    "difficulty name: the target's difficulty-name attribute must CONTAIN the source's difficulty name (converters add prefixes such as "
    "'Level '; StepMania targets receive it in `description` because `difficulty` is an enumeration; StepMania sources give `difficulty`)",
    "BMS has no creator attribute: converters from / to BMS are not asked to carry one (encoded in src_role / tgt_role of Converters.v)",
    "values not modelled are taken from the implementation's own output (oracle argument of conv_run): only BMSToOsu's decoded "
    "hitsound_file column; the property does not speak of it.  Everything else is modelled, incl. the key-count functions "
    "(SMMapChartTypes.get_type / get_keys, QuaMapMode.get_mode / get_keys: tables read off the functions' own source, fail-closed to "
    "opaque when a function is not an `if x == k: return v ... else: return d` chain), class constants, `a or b`, `a if c else b`, "
    "len(list), list.first_offset() (StepMania offset = first tempo point), chart.stack().column.max() + 1 (NaN without notes), "
    "`x == x`, local variables, target class defaults; `if c: tgt.f = e` on an attribute not assigned before is described as "
    "`tgt.f = e if c else <live class default>`",
    "metadata numbers are compared by value (numpy / Python int vs float are not distinguished)",
    "a list of charts, a list of one-chart StepMania mapsets and one merged mapset are all compared as the sequence of their charts; "
    "O2JMapSet.level_name is modelled as level[position of the chart] (charts of a mapset are distinct objects)",
    "values are dyadic rationals so that rate changes in the history are exact",
]
TRUSTED = ["harness/tables/convert.py: the TRANSLATOR of the convert() bodies (Python ast -> Tables.convert descriptions); it alone decides "
           "which statement is a cast / metadata assignment / shift / guard and which loop shape a function has; everything it does not "
           "recognise exactly is emitted as SUnknown (fails conv_okb); its output is compared per case with the implementation through conv_run",
           "harness/frames.py, harness/maps.py; the wrapper around ConvertBase.cast that records its arguments; the attribute / list "
           "serialisation of whole charts in harness/props/c08.py",
           "the role tables src_role / tgt_role and the reference name ids of coq/Convert/Converters.v (which attribute is a game's title, "
           "artist, creator, difficulty name)"]
MANIFEST = dict(
    text="Coq theorems: (1) ConvertBase.cast / TimedList.empty are exact for ALL source frames (any labels, any row order); (2) every "
         "converter DESCRIPTION that passes the boolean check conv_okb maps EVERY source chart of its domain to a target chart whose hits, "
         "holds, tempo points and (when both games have them) scroll velocities carry, row by row in the source's order, the source's "
         "offset / column(+explicit shift) / length / bpm / multiplier, whose lists are exactly the target class's lists with exactly its "
         "declared columns, with no missing value under a non-NaN default, whose metadata assignments all took effect and whose title / "
         "artist / creator / difficulty name hold the source's text; one target chart per source chart, in order; source labels "
         "irrelevant. The descriptions of the 16 converters and convert_merge are re-translated from the Python source on every run "
         "(fail-closed: unrecognised statement -> SUnknown) and the obligation `forallb conv_okb converters = true` plus the exact list of "
         "17 names is re-proved by vm_compute; per case the real converter's whole output is compared in Coq with conv_run of the "
         "generated description, the recorded cast mapping is re-run, and the content oracle is evaluated on every produced chart.",
    note="Trusted: Coq kernel+VM; the AST translator harness/tables/convert.py (fail-closed, output checked by correspondence); harness "
         "(chart construction, cast recorder, snapshots, serialisation); shift_jis/unidecode oracles (ASCII only); role tables of "
         "Converters.v. Only BMSToOsu's decoded hitsound_file column comes from the implementation (oracle) - outside the property; the key-count tables are read off the source of get_type/get_keys/get_mode.",
    technique="Coq proof over translated converter descriptions (fail-closed AST translator + vm_compute obligation on the live tree) + "
              "cast exactness + vm_compute correspondence of whole conversions + content oracle per converter",
    design="4/C08")

CONVERTERS = ["BMSToOsu", "BMSToQua", "BMSToSM", "O2JToBMS", "O2JToOsu", "O2JToQua", "O2JToSM", "OsuToBMS", "OsuToQua",
              "OsuToSM", "QuaToBMS", "QuaToOsu", "QuaToSM", "SMToBMS", "SMToOsu", "SMToQua"]
SRC_GAME = {"BMS": "bms", "O2J": "o2j", "Osu": "osu", "Qua": "qua", "SM": "sm"}
HIST = ["none", "rate", "stack_edit", "filter", "sorted_rev", "append", "deepcopy"]
WORDS = ["Alpha", "Re Zero", "xi", "Camellia feat Nanahira", "Hard", "Insane 7K", "mapper_01", "", "A B C"]


def _split(conv):
    a, b = conv.split("To")
    return SRC_GAME[a], SRC_GAME[b]


def generate(rng, tier):
    n = 9 if tier == "quick" else 150
    cases = []
    for conv in CONVERTERS + ["O2JToSM.merge"]:
        sg, tg = _split(conv.split(".")[0])
        for j in range(n):
            nmaps = rng.choice([1, 2, 3]) if sg in ("sm", "o2j") else 1
            maps = [M.gen_map_spec(rng, sg, max_rows=rng.choice([2, 3, 5])) for _ in range(nmaps)]
            # the first case of every converter, and one in ten of the others, converts charts WITHOUT notes (empty hit and
            # hold lists: no highest column, no first note); all other source charts have at least two notes at different times
            noteless = (j == 0) or rng.random() < 0.1
            for ms in maps:
                if noteless:
                    ms["lists"]["hits"]["rows"] = []
                    ms["lists"]["holds"]["rows"] = []
                elif len(ms["lists"]["hits"]["rows"]) < 2:
                    props = M.map_class(sg)().objs["hits"]._item_class()._props
                    ms["lists"]["hits"]["rows"] = M.gen_rows(rng, props, 2, ties=False)
                    ms["lists"]["hits"]["rows"][1]["offset"] = ms["lists"]["hits"]["rows"][0]["offset"] + 250.0
            # a third of the charts carry values far outside what a game client honours (0x / negative / 25x / 0.005x scroll
            # velocities, 1 bpm crawls, "teleport" tempo points): legal in the formats, and a converter must carry them as they are
            for ms in maps:
                if rng.random() < 0.35:
                    for r_ in ms["lists"].get("svs", {}).get("rows", []):
                        if "multiplier" in r_ and rng.random() < 0.6:
                            r_["multiplier"] = float(rng.choice([0.0, -1.5, 25.0, 0.005, 100.0, 0.001, 12.5, -0.25]))
                    for r_ in ms["lists"].get("bpms", {}).get("rows", []):
                        if "bpm" in r_ and rng.random() < 0.4:
                            r_["bpm"] = float(rng.choice([1.0, 0.5, 2000000.0, 5000.0, 12.0, 0.125]))
            hist = [rng.choice(HIST) for _ in range(rng.choice([0, 1, 1, 2]))]
            meta = {"title": rng.choice(WORDS[:5]), "artist": rng.choice(WORDS[:4]), "creator": rng.choice(WORDS[5:7]),
                    "diff": [rng.choice(["Hard", "Insane 7K", "Easy"]) for _ in range(nmaps)],
                    "level": [rng.randint(1, 40) for _ in range(3)],
                    # key counts (with and without a StepMania / Quaver name) and chart types (with and without a key count)
                    "keys": rng.choice([4, 7, 4, 7, 5, 8, 6]),
                    "chart_type": [rng.choice(["dance-single", "kb7-single", "dance-solo"]
                                              + (["pump-single"] if conv == "SMToOsu" else [])) for _ in range(nmaps)]}
            cases.append({"conv": conv, "maps": maps, "hist": hist, "hseed": rng.randint(0, 10 ** 6), "meta": meta,
                          "shift": rng.choice([0, 1, 1, 2]) if conv in ("O2JToBMS", "OsuToBMS", "QuaToBMS") else 0})
    return cases


# ------------------------------------------------------------------ implementation side
def _apply_history(m, hist, seed):
    import random
    r = random.Random(seed)
    for h in hist:
        if h == "rate":
            m = m.rate(r.choice([2.0, 0.5]))
        elif h == "stack_edit":
            m.stack().offset += 250.0
        elif h == "filter":
            for k, lst in list(m.objs.items()):
                if k in ("hits", "holds") and len(lst) > 1:
                    m.objs[k] = lst.after(min(lst.offset), include_end=False)
        elif h == "sorted_rev":
            for k, lst in list(m.objs.items()):
                if k != "bpms":
                    m.objs[k] = lst.sorted(reverse=True)
        elif h == "append":
            lst = m.objs["hits"]
            if len(lst):
                m.objs["hits"] = lst.append(lst[0])
        elif h == "deepcopy":
            m = m.deepcopy()
    return m


def _set_meta(game, container, m, meta, k):
    if game == "osu":
        m.title, m.artist, m.creator, m.version = meta["title"], meta["artist"], meta["creator"], meta["diff"][k]
        m.circle_size = meta.get("keys", m.circle_size)
    elif game == "qua":
        m.title, m.artist, m.creator, m.difficulty_name = meta["title"], meta["artist"], meta["creator"], meta["diff"][k]
        if "keys" in meta:
            from reamber.quaver.QuaMapMeta import QuaMapMode
            m.mode = QuaMapMode.get_mode(meta["keys"])
    elif game == "bms":
        m.title, m.artist, m.version = meta["title"].encode("shift_jis"), meta["artist"].encode("shift_jis"), meta["diff"][k].encode("shift_jis")
    elif game == "sm":
        container.title, container.artist, container.credit = meta["title"], meta["artist"], meta["creator"]
        m.difficulty = meta["diff"][k].split(" ")[0]
        m.description = meta["diff"][k]
        if "chart_type" in meta:
            m.chart_type = meta["chart_type"][k]
    elif game == "o2j":
        container.title, container.artist, container.creator = meta["title"], meta["artist"], meta["creator"]
        container.level = list(meta["level"])


def _get_meta(game, container, m, k, as_source=False):
    """canonical (title, artist, creator, diffname) as strings or None"""
    def s(x):
        if isinstance(x, bytes):
            return x.decode("shift_jis")
        return None if x is None else str(x)
    if game == "osu":
        return s(m.title), s(m.artist), s(m.creator), s(m.version)
    if game == "qua":
        return s(m.title), s(m.artist), s(m.creator), s(m.difficulty_name)
    if game == "bms":
        return s(m.title), s(m.artist), None, s(m.version)
    if game == "sm":
        if as_source:
            return s(container.title), s(container.artist), s(container.credit), s(m.difficulty)
        return s(container.title), s(container.artist), s(container.credit), s(m.description) + " " + s(m.difficulty)
    if game == "o2j":
        return s(container.title), s(container.artist), s(container.creator), s(container.level[k])


def _flatten(tg, res):
    """-> list of (container, map)"""
    from reamber.sm.SMMapSet import SMMapSet
    if isinstance(res, SMMapSet):
        return [(res, m) for m in res.maps]
    if isinstance(res, list):
        out = []
        for r in res:
            if isinstance(r, SMMapSet):
                out.extend((r, m) for m in r.maps)
            else:
                out.append((None, r))
        return out
    return [(None, res)]



# ------------------------------------------------------------------ whole charts for conv_run (Convert/Converters.v)
def _mval_json(v, it):
    """an attribute value of a chart / mapset object -> tagged JSON (Coq `mval`)"""
    if v is None:
        return ["none"]
    if isinstance(v, (bool, np.bool_)):
        return ["bool", bool(v)]
    if isinstance(v, (int, np.integer)):
        return ["int", int(v)]
    if isinstance(v, (float, np.floating)):
        v = float(v)
        if math.isnan(v):
            return ["nan"]
        if math.isinf(v):
            return ["other", it.get(repr(v))]
        f = Fr(v)
        return ["float", [f.numerator, f.denominator]]
    if isinstance(v, str):
        return ["text", [ord(c) for c in v]]
    if isinstance(v, bytes):
        return ["bytes", list(v)]
    if isinstance(v, list):
        if all(isinstance(e, str) for e in v):
            return ["texts", [[ord(c) for c in e] for e in v]]
        if all(isinstance(e, (int, np.integer)) and not isinstance(e, (bool, np.bool_)) for e in v):
            return ["ints", [int(e) for e in v]]
    return ["other", it.get(v)]


def _mval_coq(j):
    t = j[0]
    if t == "none":
        return "MNone"
    if t == "nan":
        return "MNaN"
    if t == "bool":
        return f"MBool {F.boolean(j[1])}"
    if t == "int":
        return f"MInt {F.z(j[1])}"
    if t == "float":
        return f"MFloat {F.q(Fr(j[1][0], j[1][1]))}"
    if t == "text":
        return "MText " + F.lst([F.z(c) for c in j[1]])
    if t == "bytes":
        return "MBytes " + F.lst([F.z(c) for c in j[1]])
    if t == "texts":
        return "MTexts " + F.lst([F.lst([F.z(c) for c in e]) for e in j[1]])
    if t == "ints":
        return "MInts " + F.lst([F.z(c) for c in j[1]])
    if t == "other":
        return f"MOther {F.z(j[1])}"
    raise ValueError(t)


def _meta_json(obj, on_set, it):
    """every declared attribute of a chart / mapset object (not its lists / charts)"""
    if obj is None or not dataclasses.is_dataclass(obj):
        return []
    names = sorted((f.name for f in dataclasses.fields(obj) if f.name not in ("objs", "maps")), key=CV.field_id)
    return [[on_set, CV.field_id(n), _mval_json(getattr(obj, n), it)] for n in names]


def _chart_json(m, container, it):
    lists = sorted(((CV.list_id(n), FR.frame_json(l.df, it)) for n, l in m.objs.items()), key=lambda p: p[0])
    return {"lists": [[i, fj] for i, fj in lists], "meta": _meta_json(m, False, it) + _meta_json(container, True, it)}


def _meta_coq(meta):
    return F.lst([f"(({F.boolean(b)}, {F.z(f)}), {_mval_coq(v)})" for b, f, v in meta])


def _chart_coq(cj):
    lists = F.lst([f"({F.z(i)}, {FR.frame_coq(fj)})" for i, fj in cj["lists"]])
    return f"(mkChart {lists} {_meta_coq(cj['meta'])})"


def _default_strings(out_maps, it):
    """the numbers under which this case interns the string defaults the target list classes declare"""
    seen = {}
    for tm in out_maps:
        for l in tm.objs.values():
            for _, (_, dflt) in l._item_class()._props.items():
                if isinstance(dflt, str) and dflt not in seen:
                    seen[dflt] = it.get(dflt)
    return [[[ord(c) for c in s], i] for s, i in sorted(seen.items())]


def execute(case):
    import reamber.algorithms.convert as C
    from reamber.algorithms.convert.ConvertBase import ConvertBase
    it = FR.Interner()
    conv_name = case["conv"]
    merge = conv_name.endswith(".merge")
    conv = getattr(C, conv_name.split(".")[0])
    sg, tg = _split(conv_name.split(".")[0])
    maps = [M.build_map(s) for s in case["maps"]]
    maps = [_apply_history(m, case["hist"], case["hseed"] + i) for i, m in enumerate(maps)]
    container = None
    if sg in ("sm", "o2j"):
        container = M.build_mapset(sg, maps)
    for k, m in enumerate(maps):
        _set_meta(sg, container, m, case["meta"], k)
    src_before = [FR.frame_json(l.df, it) for m in maps for l in m.objs.values()]
    run_src = {"set_meta": _meta_json(container, True, it), "charts": [_chart_json(m, None, it) for m in maps]}
    src_meta = [_get_meta(sg, container, m, k, as_source=True) for k, m in enumerate(maps)]

    records = []
    orig = ConvertBase.__dict__["cast"]

    def wrapper(src, target, mapping):
        res = orig.__func__(src, target, mapping)
        records.append((src, target, dict(mapping), res))
        return res
    ConvertBase.cast = staticmethod(wrapper)
    try:
        arg = container if container is not None else maps[0]
        kwargs = {}
        if conv_name in ("O2JToBMS", "OsuToBMS", "QuaToBMS"):
            kwargs["move_right_by"] = case["shift"]
        if conv_name in ("BMSToQua", "OsuToQua", "OsuToSM", "SMToQua"):
            kwargs["raise_bad_mode"] = False
        try:
            res = conv.convert_merge(arg) if merge else conv.convert(arg, **kwargs)
        except (ValueError, KeyError, TypeError, AttributeError, IndexError) as e:
            return {"exc": type(e).__name__ + ": " + str(e)[:120], "hist": case["hist"]}
    finally:
        ConvertBase.cast = orig
    outs = _flatten(tg, res)
    src_after = [FR.frame_json(l.df, it) for m in maps for l in m.objs.values()]
    pairs, others, meta = [], [], []
    for k, (cont, tm) in enumerate(outs):
        sm_ = maps[k] if k < len(maps) else None
        for name, tl in tm.objs.items():
            props = tl._item_class()._props
            declared = FR.names_sorted(list(props.keys()))
            dj = {"declared": [FR.col_id(n) for n in declared], "defaults": [FR.cell_json(props[n][1], it) for n in declared]}
            tj = FR.frame_json(tl.df, it)
            if sm_ is not None and name in ("hits", "holds", "bpms", "svs") and name in sm_.objs:
                sl = sm_.objs[name]
                rec = [r for r in records if r[0] is sl and r[1] is type(tl)]
                mapping = None
                if rec:
                    mapping = []
                    for to_, from_ in rec[-1][2].items():
                        if isinstance(from_, str):
                            mapping.append([FR.col_id(to_), "col", FR.col_id(from_)])
                        else:
                            vals = list(from_.tolist()) if hasattr(from_, "tolist") else list(from_)
                            mapping.append([FR.col_id(to_), "vals", [FR.cell_json(v, it) for v in vals]])
                pairs.append({"name": name, "src": FR.frame_json(sl.df, it), "tgt": tj, "mapping": mapping, **dj})
            else:
                others.append({"name": name, "tgt": tj, "declared": dj["declared"]})
        if sm_ is not None:
            got = _get_meta(tg, cont, tm, k)
            want = src_meta[k]
            for j, field in enumerate(["title", "artist", "creator", "diff"]):
                if want[j] is None or got[j] is None:
                    continue
                if field == "diff":
                    ok = want[j] in got[j]
                    meta.append({"field": field, "want": want[j], "got": got[j], "w": it.get("diffok"), "g": it.get("diffok" if ok else "diffbad")})
                else:
                    meta.append({"field": field, "want": want[j], "got": got[j], "w": it.get(want[j]), "g": it.get(got[j])})
    import inspect
    rb = inspect.signature(conv.convert_merge if merge else conv.convert).parameters.get("raise_bad_mode")
    raise_flag = kwargs.get("raise_bad_mode", rb.default if rb is not None else False)
    run = {"conv": CV.conv_id(conv_name), "raise": bool(raise_flag),
           "strs": _default_strings([tm for _, tm in outs], it), "src": run_src,
           "impl": [_chart_json(tm, cont, it) for cont, tm in outs]}
    return {"pairs": pairs, "others": others, "meta": meta, "n_src": len(maps), "n_out": len(outs),
            "src_before": src_before, "src_after": src_after, "hist": case["hist"], "run": run}


# ------------------------------------------------------------------ Coq side
def _mapping_coq(mp):
    if mp is None:
        return "None"
    items = []
    for to_, kind, v in mp:
        if kind == "col":
            items.append(f"({F.z(to_)}, FromCol {F.z(v)})")
        else:
            items.append(f"({F.z(to_)}, FromVals {F.lst([FR.cell_coq(c) for c in v])})")
    return "(Some " + F.lst(items) + ")"


def emit(case, out):
    if "exc" in out:
        # a converter that raises on a valid source: no chart produced
        return "CConv 0 [] [] [(CStr 1%Z, CStr 2%Z)] 1%nat 0%nat [] [] None"
    pairs = F.lst([f"(mkPair {FR.frame_coq(p['src'])} {FR.frame_coq(p['tgt'])} {F.lst([F.z(c) for c in p['declared']])} "
                   f"{FR.row_coq(p['defaults'])} {_mapping_coq(p['mapping'])})" for p in out["pairs"]])
    others = F.lst([f"({FR.frame_coq(o['tgt'])}, {F.lst([F.z(c) for c in o['declared']])})" for o in out["others"]])
    meta = F.lst([f"(CStr {F.z(m['w'])}, CStr {F.z(m['g'])})" for m in out["meta"]])
    sb = F.lst([FR.frame_coq(f) for f in out["src_before"]])
    sa = F.lst([FR.frame_coq(f) for f in out["src_after"]])
    r = out["run"]
    strs = F.lst([f"({F.lst([F.z(c) for c in t])}, {F.z(i)})" for t, i in r["strs"]])
    args = f"(mkArgs {F.q(Fr(case['shift']))} {F.boolean(r['raise'])} {strs})"
    src = f"(mkSrcSet {_meta_coq(r['src']['set_meta'])} {F.lst([_chart_coq(c) for c in r['src']['charts']])})"
    run = f"(Some (mkConvRun {F.z(r['conv'])} {args} {src} {F.lst([_chart_coq(c) for c in r['impl']])}))"
    return (f"CConv {F.q(Fr(case['shift']))} {pairs} {others} {meta} {F.nat(out['n_src'])} {F.nat(out['n_out'])} "
            f"{sb} {sa} {run}")


def nontrivial(case, out):
    return any(len(l["rows"]) >= 2 for m in case["maps"] for l in m["lists"].values())


def bucket(case, out):
    noteless = all(not m["lists"][k]["rows"] for m in case["maps"] for k in ("hits", "holds"))
    return case["conv"] + "/" + "+".join(case["hist"] or ["fresh"]) + ("/noteless" if noteless else "") + ("/exc" if "exc" in out else "")


def classify(case, out, kind):
    return None


def describe(case, out):
    d = f"{case['conv']} hist={case['hist']} shift={case['shift']}"
    if "exc" in out:
        return d + " raised " + out["exc"]
    bad = [m for m in out["meta"] if m["w"] != m["g"]]
    return d + f" n_src={out['n_src']} n_out={out['n_out']} meta_mismatch={[(m['field'], m['want'], m['got']) for m in bad]}"


def shrink(case):
    if case["hist"]:
        for i in range(len(case["hist"])):
            c = dict(case)
            c["hist"] = case["hist"][:i] + case["hist"][i + 1:]
            yield c
    if len(case["maps"]) > 1:
        c = dict(case)
        c["maps"] = case["maps"][:1]
        yield c
