"""C03: StepMania writing.  The writer takes pandas float columns, so the exact-Fraction trick of C10 is not available:
inputs are floats lying on the snap grid up to binary64 rounding (the snapper's nearest-fraction decision is robust to
1e-12), the model runs on their exact rational values, and the written text is compared token-wise (every non-numeric
character exactly, numeric tokens by value)."""
import re
from fractions import Fraction as Fr

from .. import coqfmt as F
from . import smgen as G
from . import c02 as C02

ID = "C03"
RUNNER = "Corr.RunC03"
CASE_TYPE = "c03case"
RUNNER_TARGETS = ["Corr/RunC03.vo"]
PROOF_TARGETS = ["Props/C03.vo"]
PROPS_FILE = "Props/C03.v"
PROPS_MODULE = "Props.C03"
RULE = ("seeded generator of in-memory SMMapSets: 1..3 charts sharing one tempo list (1..4 changes, on measure lines or "
        "mid-measure on the snap grid, #OFFSET = first tempo point of either sign), every chart type with a declared key "
        "count, objects of every kind (hits holds rolls mines lifts fakes keysounds) on the snap grid with denominators "
        "1..96 incl. measures needing more than 384 rows, leading and inner empty measures, selectable both ways; "
        "histories: built from objects, SMMapSet.read of a generated text, OsuToSM / QuaToSM / BMSToSM / O2JToSM of small "
        "source maps built from objects, and SMMapSet.rate after any of these; over a third of the cases (every history, every chart "
        "type) reach the checked write() as a RE-USED object: the mapset is first built or obtained with other tempo values, offsets "
        "and note times, written once and/or asked for BpmList.to_timing_map(), and then given its final values through the in-place "
        "column setters (bpms.offset, bpms.bpm, every note list's offset, hold lengths, ms.offset: replacement, += shift, *= tempo "
        "factor) - the text is judged against the final in-memory state, of which the model is a function; a quarter of all cases call the file-level wrapper SMMapSet.write_file(path) and the "
        "bytes found on disk are judged instead of the string returned by write(); non-trivial = at least 3 objects or 2 tempo "
        "changes or 2 charts; distinct by hash of the case")
ASSUMPTIONS = [
    "binary64 rounding inside the writer (np.float64 divisions in Snap.from_offset, offset*0.001) is not modelled: inputs lie on the "
    "snap grid up to rounding so that the nearest-fraction decision is unaffected; numeric tokens are compared by value "
    "(relative 1e-9), all other characters exactly",
    "repr(float) is an oracle: a numeric token is accepted when it parses (decimal grammar) to the modelled value; "
    "round(float(beat), 6) (six decimals since /repo 6b5cf38, two before) is accepted when it is a six-decimal numeral within 0.0000005 of the modelled beat",
    "write->read->write idempotence and the read-back are checked on the implementation in Python (numeric tokens by value); "
    "the denotation of the written text is checked in Coq by the reference interpreter sm_denote",
    "the bound used off the exact regime is 1/96 beat at the local tempo plus 0.0000005 beat times the tempo difference at every "
    "tempo change (the writer prints tempo beats with six decimals); a hold/roll length may differ by the bound at its head plus the "
    "bound at its tail (each end is less than one row early at ITS OWN tempo: C03_sm_write_cap_bound)",
]
TRUSTED = ["harness/tables/sm.py (live SMConst / METRONOME / MAX_SNAP / MAX_KEYS / chart-type tables)"]
MANIFEST = dict(
    text="Machine-checked theorems (Coq 8.16.1) about an executable Gallina model of SMMapSet.write (beats through the C10 timing-map "
         "model, per-measure LCM with the 384 cap, num*den_max/den truncation, padding, header formatter): the capped LCM fold is the "
         "true LCM whenever it stays below the cap and then every object's row index is integral and denotes its beat; with the cap the "
         "row is less than one row (1/96 beat) early; a written measure holds each placed note's symbol in its (row, column) cell and '0' "
         "elsewhere when no two notes share a cell; padding rows are keys wide for every key count; #TAG:value items and #SELECTABLE are "
         "read back as written; the OLD header/padding behaviours are refuted by real witnesses. WHOLE FILE, proved for ALL mapsets of two decidable domains "
         "(Formats/SMWriteDom.v, stated through the timing SPEC functions beats_at/time_of, not the writer's output). c03_domb: tame "
         "text fields, #OFFSET = first tempo point, tempo rows = ms form of an on-grid metronome-4 script with distinct six-decimal beats (the writer prints round(beat, 6)), "
         "all charts literally the same rows, supported type, columns in range, holds > 0 and disjoint per column, every event time on the "
         "snap grid of the active tempo, no two events with equal column and beat, TRUE lcm of every measure <= 384. "
         "C03_sm_write_denotes: the writer succeeds and EVERY text that renders its tokens exactly is well-formed and its sm_denote has "
         "the mapset's header fields and, chart by chart in order, the chart's header and per kind a permutation of the chart's objects "
         "with equal columns, times and lengths (nothing invented, dropped or moved); C03_sm_write_spec: the same in the runner's oracle "
         "form write_spec 0 true. C03_sm_write_cap_bound (c03_cap_domb: only 'no two objects in one written cell', more than 384 rows "
         "allowed): same conclusion except that each object is read at the time of row floor(position*rows), whose beat wb satisfies "
         "wb <= beat < wb + 4/384. Non-vacuity examples for both domains with literal rendered texts. The runner evaluates the exact "
         "theorem's conclusion on the implementation's text for every generated case inside c03_domb. READ-BACK (C03 o C02), closed: "
         "C03_written_text_in_reader_domain - for every mapset in c03_domb whose tempo beats lie on the reader's 1/48 grid (readback_guard, "
         "decidable on the mapset) every exact rendering of the written tokens is in the reader's decidable domain c02_domb; hence "
         "C03_sm_write_read_back - SMMapSet.read of it returns the same charts (header fields, per kind the same objects as a permutation) and "
         "the same #OFFSET, no hypothesis on the text (C03_sm_write_read_back_partial, with the hypothesis and without the guard, kept for its "
         "importers). The guard is the reach of C02's theorem, not a loss: C03_read_back_guard_not_necessary (tempo change at beat 1/5, read "
         "back unchanged by model and /repo). Losses of the pair are text fields outside tame_str: C03_read_back_refuted_semicolon_title "
         "(title 'a;b' comes back 'a'; charts unchanged; replayed on /repo). The runner evaluates c02_domb on every text the implementation "
         "wrote for a mapset in c03_domb and readback_guard (outside the guard: reader dialect, header items, rows a multiple of 4). "
         "Not proved: positive rendering tolerance, tempo beats that are not "
         "six-decimal (bound evaluated per run), binary64 rounding.",
    note="Trusted: Coq kernel+VM, generator/serialiser, table translator, repr(float) as a value oracle; binary64 rounding measured not proved. "
         "Former findings sm-selectable-no (16f3fe3), sm-pad-width (d872b70), rate-offset-unscaled (0398fe5) are fixed; the old "
         "behaviours survive only as named OLD variants for the _refuted witnesses; the runner accepts the current behaviour only. "
         "Model follows /repo 6b5cf38 (#BPMS beats printed with six decimals: token TRnd2 = six-decimal numeral within half a millionth).",
    technique="Coq proof over executable model + vm_compute correspondence against the implementation + reference interpreter",
    design="4/C03")

DENS = [1, 1, 2, 2, 3, 4, 4, 6, 8, 12, 16, 24, 32, 48, 5, 7, 9, 64, 96, 10, 11, 20]
DIFFS = ["Beginner", "Easy", "Medium", "Hard", "Challenge", "Edit"]


def _tame(s):
    return s.replace(":", "").replace(";", "").strip()


def _tempo(rng, exact_fam=True):
    """[(beat, bpm)] first at beat 0."""
    n = rng.choice([1, 1, 2, 2, 3, 4])
    beats = [Fr(0)]
    on_lines = rng.random() < 0.65
    for _ in range(n - 1):
        if on_lines:
            step = Fr(rng.choice([4, 4, 8, 12]))
        else:
            d = rng.choice([1, 2, 4, 3, 8, 16, 6])
            step = Fr(rng.randint(1, 9 * d), d)
        beats.append(beats[-1] + step)
    out = []
    for b in beats:
        v = Fr(rng.choice(G.EXACT_BPMS)) if exact_fam else G.bpm_value(rng)
        out.append((b, v))
    return out


def _time(tempo, t0, beat):
    """exact ms of an absolute beat"""
    t = Fr(t0)
    for i, (b, v) in enumerate(tempo):
        nb = tempo[i + 1][0] if i + 1 < len(tempo) else None
        if nb is not None and beat >= nb:
            t += (nb - b) * Fr(60000) / v
        else:
            return t + (beat - b) * Fr(60000) / v
    return t


def _positions(rng, tempo, k, max_beat):
    """k absolute beats, each = a tempo change + j/d (d <= 96), i.e. on the snap grid relative to the active change."""
    out = []
    for _ in range(k):
        i = rng.randrange(len(tempo))
        b0 = tempo[i][0]
        hi = tempo[i + 1][0] if i + 1 < len(tempo) else max(b0 + 4, Fr(max_beat))
        span = hi - b0
        d = rng.choice(DENS)
        j = rng.randint(0, max(0, int(span * d) - 1))
        b = b0 + Fr(j, d)
        if b >= hi:
            b = b0
        out.append(b)
    return out


def _chart(rng, tempo, t0, ty, keys, heavy):
    max_beat = rng.choice([4, 8, 12, 20])
    start_gap = rng.choice([0, 0, 0, 4, 8]) if len(tempo) == 1 else 0
    n = rng.choice([0, 1, 3, 5, 8, 10])
    used = set()
    c = {k: [] for k in G.SIMPLE + G.HOLDS}
    pos = _positions(rng, tempo, n, max_beat)
    if heavy:     # one measure with denominators whose LCM exceeds 384 rows
        # relative to the LAST tempo change (the snap grid is relative to the active change, not to the measure line: with a
        # mid-measure last change, positions "measure line + j/d" would be off the grid and the case outside the domain)
        last = tempo[-1][0]
        base = last + 4 * rng.choice([0, 1])
        pos += [base + Fr(1, 5), base + Fr(2, 7), base + Fr(3, 32), base + 1 + Fr(1, 9)]
    # in a measure that needs more than 384 rows (also reachable by chance: denominators 7, 9, 11 in one measure), objects are
    # written in row floor(position * 384) of their measure (96 rows per beat): two objects of one column closer than a row would
    # share a written cell, which is outside the property's domain ("no two notes in one cell") - such candidates are skipped
    cells = set()

    def cell(col_, b_):
        return (col_, int(b_ * 96))

    for b in pos:
        b = b + start_gap
        col = rng.randrange(keys)
        kind = rng.choice(["hits", "hits", "hits", "holds", "holds", "rolls", "mines", "lifts", "fakes", "keysounds"])
        if cell(col, b) in cells:
            continue
        if kind in G.HOLDS:
            ln = Fr(rng.randint(1, 3 * 4), rng.choice([1, 2, 4, 3]))
            tail = b + ln
            # tail position must be on the grid relative to its own active change: re-anchor
            act = max(i for i, (tb, _) in enumerate(tempo) if tb <= tail)
            rel = tail - tempo[act][0]
            if rel.denominator > 96:
                tail = tempo[act][0] + Fr(int(rel * 4), 4)
            if tail <= b:
                continue
            # no overlap with anything already in this column
            if any(cc == col and not (e < b or s > tail) for (cc, s, e) in used):
                continue
            if cell(col, tail) in cells or cell(col, tail) == cell(col, b):
                continue
            used.add((col, b, tail))
            cells.update([cell(col, b), cell(col, tail)])
            c[kind].append([b, col, tail])
        else:
            if any(cc == col and s <= b <= e for (cc, s, e) in used):
                continue
            used.add((col, b, b))
            cells.add(cell(col, b))
            c[kind].append([b, col])
    if rng.random() < 0.8:
        # no empty measure before the last object: put a tap on the line of every measure that would be empty
        allb = [x[0] for k in G.SIMPLE + G.HOLDS for x in c[k]] + [x[2] for k in G.HOLDS for x in c[k]]
        if allb:
            have = {int(b // 4) for b in allb}
            for m in range(0, max(have)):
                if m not in have:
                    b = Fr(4 * m)
                    free = [col for col in range(keys) if not any(cc == col and s_ <= b <= e_ for (cc, s_, e_) in used)
                            and cell(col, b) not in cells]
                    if free and b >= tempo[0][0]:
                        col = rng.choice(free)
                        used.add((col, b, b))
                        cells.add(cell(col, b))
                        c["hits"].append([b, col])
    out = dict(chart_type=ty, description=_tame(G.word(rng)), difficulty=rng.choice(DIFFS), difficulty_val=rng.choice([1, 5, 12, 27]),
               groove_radar=[G.fj(rng.choice([0.0, 0.5, 0.125, 1.0, 0.733])) for _ in range(5)])
    for k in G.SIMPLE:
        out[k] = [[G.fj(float(_time(tempo, t0, b))), col] for b, col in c[k]]
    for k in G.HOLDS:
        rows = []
        for b, col, tail in c[k]:
            h, t = float(_time(tempo, t0, b)), float(_time(tempo, t0, tail))
            rows.append([G.fj(h), col, G.fj(t - h)])
        out[k] = rows
    return out


def _mapset(rng, types, conv=None):
    tempo = _tempo(rng, exact_fam=rng.random() < 0.8)
    if conv in ("osu", "bms", "o2j"):
        t0 = Fr(0)
    else:
        t0 = rng.choice([Fr(0), Fr(0), Fr(500), Fr(-250), Fr(rng.randint(-2000, 2000)), Fr(rng.randint(-4000, 4000), 8), Fr(41)])
    heavy = rng.random() < 0.08
    n_charts = 1 if conv else rng.choice([1, 1, 2, 2, 3])
    charts = []
    for _ in range(n_charts):
        ty, keys = rng.choice(types)
        charts.append(_chart(rng, tempo, t0, ty, keys, heavy))
    bpms = [[G.fj(float(_time(tempo, t0, b))), G.fj(float(v))] for b, v in tempo]
    if rng.random() < 0.15:
        rng.shuffle(bpms)
    s = {f: _tame(G.word(rng)) for f in G.TEXT_FIELDS}
    s.update(offset=G.fj(float(t0)), sample_start=G.fj(rng.choice([0.0, 68502.0, 12500.0])), sample_length=G.fj(rng.choice([10.0, 26000.0])),
             selectable=rng.random() < 0.88, bpms=bpms, maps=charts)
    return s


def generate(rng, tier):
    n = 200 if tier == "quick" else 5000
    types = G.supported_types()
    cases = []
    for i in range(n):
        r = rng.random()
        if r < 0.55:
            case = {"kind": "write", "via": "direct", "dom": True, "set": _mapset(rng, types)}
        elif r < 0.70:
            case = {"kind": "write", "via": "read", "dom": None,
                    "text": C02.gen_text(rng, types, exact_tempo=rng.random() < 0.8)}
        else:
            conv = rng.choice(["osu", "qua", "bms", "o2j"])
            s = _mapset(rng, types, conv)
            # converters carry hits and holds only; the chart type is derived from the highest column
            m = s["maps"][0]
            for k in ("rolls", "mines", "lifts", "fakes", "keysounds"):
                m[k] = []
            cols = [x[1] for x in m["hits"]] + [x[1] for x in m["holds"]]
            keys = dict(types)[m["chart_type"]]
            if keys - 1 not in cols:
                m["hits"].append([s["bpms"][0][0], keys - 1])
                m["hits"] = [h for j, h in enumerate(m["hits"]) if not any(h[0] == g[0] and h[1] == g[1] for g in m["hits"][:j])]
                m["holds"] = [h for h in m["holds"] if not (h[1] == keys - 1 and h[0] == s["bpms"][0][0])]
            case = {"kind": "write", "via": conv, "dom": None, "set": s}
        if rng.random() < 0.16:
            case["rate"] = G.fj(rng.choice([0.5, 2.0, 1.5, 0.75, 1.25, 1.1]))
            case["dom"] = None if case["dom"] is None else True
        if rng.random() < 0.36:
            # an earlier life of the object: it was written (and/or asked for its timing map) with OTHER tempo values, offsets
            # and note times, which were then replaced through the in-place column setters; the checked write() sees the
            # final state only, and so does the model
            pre = rng.choice(["write", "tm", "both", "write"])
            if case["via"] == "direct":
                case["hist"] = {"op": "decoy", "pre": pre, "d": rng.choice([100.0, -250.0, 37.5, 1000.0]),
                                "k": rng.choice([1.25, 0.5, 2.0, 1.0]), "dn": rng.choice([0.0, 100.0, -62.5])}
            elif rng.random() < 0.6:
                case["hist"] = {"op": "shift", "pre": pre, "d": rng.choice([100.0, -250.0, 37.5, 1000.0])}
            else:
                case["hist"] = {"op": "scale", "pre": pre, "k": rng.choice([2.0, 0.5])}
        if rng.random() < 0.25:
            case["file"] = True           # through the file-level wrapper SMMapSet.write_file(path)
        cases.append(case)
    return cases


# ------------------------------------------------------------------ implementation side
def _fl(p):
    return float(Fr(p[0], p[1]))


def _warm(ms, pre):
    """The earlier use of the object: one write() and/or a timing map per tempo list (whatever they return or raise)."""
    if pre in ("tm", "both"):
        for m in ms.maps:
            try:
                m.bpms.to_timing_map()
            except EXC:
                pass
    if pre in ("write", "both"):
        try:
            ms.write()
        except EXC:
            pass


def _set_col(lst, name, values):
    """In-place column assignment through the list's own setter (keeps the list and its frame)."""
    import numpy as np
    if len(lst):
        setattr(lst, name, np.asarray(values, dtype=float))


def _build(case):
    h = case.get("hist")
    if not h:
        return _build0(case, None)
    if h["op"] == "decoy":
        ms = _build0(case, h)        # built with the decoy values
        _warm(ms, h["pre"])
        s = case["set"]
        ms.offset = _fl(s["offset"])
        for m, c in zip(ms.maps, s["maps"]):
            _set_col(m.bpms, "offset", [_fl(o) for o, _ in s["bpms"]])
            _set_col(m.bpms, "bpm", [_fl(b) for _, b in s["bpms"]])
            for k in G.SIMPLE + G.HOLDS:
                _set_col(getattr(m, k), "offset", [_fl(x[0]) for x in c[k]])
        return ms
    ms = _build0(case, None)
    _warm(ms, h["pre"])
    t0 = float(ms.offset)
    for m in ms.maps:
        lists = [m.bpms] + [getattr(m, k) for k in G.SIMPLE + G.HOLDS]
        if h["op"] == "shift":
            for l in lists:
                if len(l):
                    l.offset += h["d"]
        else:                        # twice / half the tempo: every time moves towards / away from the first tempo point
            k = h["k"]
            if len(m.bpms):
                m.bpms.bpm *= k
            for l in lists:
                if len(l):
                    l.offset = t0 + (l.offset - t0) / k
            for l in (m.holds, m.rolls):
                if len(l):
                    l.length /= k
    if h["op"] == "shift":
        ms.offset = t0 + h["d"]
    return ms


def _build0(case, decoy):
    from reamber.sm.SMMapSet import SMMapSet
    via = case["via"]
    if via == "read":
        return SMMapSet.read(case["text"])
    s = case["set"]
    bp = [(_fl(o), _fl(b)) for o, b in s["bpms"]]
    dn = 0.0
    if decoy:
        bp = [(o + decoy["d"], b * decoy["k"]) for o, b in bp]
        dn = decoy["dn"]
    if via == "direct":
        from reamber.sm.SMMap import SMMap
        from reamber.sm.SMBpm import SMBpm
        from reamber.sm.lists.SMBpmList import SMBpmList
        from reamber.sm.lists.notes import (SMHitList, SMHoldList, SMMineList, SMLiftList, SMFakeList, SMKeySoundList,
                                            SMRollList)
        cls = dict(hits=SMHitList, mines=SMMineList, lifts=SMLiftList, fakes=SMFakeList, keysounds=SMKeySoundList,
                   holds=SMHoldList, rolls=SMRollList)
        ms = SMMapSet()
        for f in G.TEXT_FIELDS:
            setattr(ms, f, s[f])
        ms.offset, ms.sample_start, ms.sample_length = _fl(s["offset"]) + (decoy["d"] if decoy else 0.0), _fl(s["sample_start"]), _fl(s["sample_length"])
        ms.selectable = s["selectable"]
        maps = []
        for c in s["maps"]:
            m = SMMap()
            m.chart_type, m.description, m.difficulty, m.difficulty_val = c["chart_type"], c["description"], c["difficulty"], c["difficulty_val"]
            m.groove_radar = [_fl(x) for x in c["groove_radar"]]
            m.bpms = SMBpmList([SMBpm(offset=o, bpm=b) for o, b in bp])
            for k in G.SIMPLE:
                setattr(m, k, cls[k].from_dict([dict(offset=_fl(o) + dn, column=col) for o, col in c[k]]))
            for k in G.HOLDS:
                setattr(m, k, cls[k].from_dict([dict(offset=_fl(o) + dn, column=col, length=_fl(n)) for o, col, n in c[k]]))
            maps.append(m)
        ms.maps = maps
        return ms
    c = s["maps"][0]
    hits = [(_fl(o), col) for o, col in c["hits"]]
    holds = [(_fl(o), col, _fl(n)) for o, col, n in c["holds"]]
    if via == "osu":
        from reamber.osu import OsuMap, OsuHit, OsuHold, OsuBpm
        from reamber.osu.lists import OsuBpmList
        from reamber.osu.lists.notes import OsuHitList, OsuHoldList
        from reamber.algorithms.convert import OsuToSM
        o = OsuMap()
        o.hits = OsuHitList([OsuHit(offset=a, column=k) for a, k in hits])
        o.holds = OsuHoldList([OsuHold(offset=a, column=k, length=n) for a, k, n in holds])
        o.bpms = OsuBpmList([OsuBpm(offset=a, bpm=b) for a, b in bp])
        o.title, o.artist, o.creator = s["title"], s["artist"], s["credit"]
        o.preview_time = 1000
        return OsuToSM.convert(o)
    if via == "qua":
        from reamber.quaver import QuaMap, QuaHit, QuaHold, QuaBpm
        from reamber.quaver.lists import QuaBpmList
        from reamber.quaver.lists.notes import QuaHitList, QuaHoldList
        from reamber.algorithms.convert import QuaToSM
        q = QuaMap()
        q.hits = QuaHitList([QuaHit(offset=a, column=k, keysounds=[]) for a, k in hits])
        q.holds = QuaHoldList([QuaHold(offset=a, column=k, length=n, keysounds=[]) for a, k, n in holds])
        q.bpms = QuaBpmList([QuaBpm(offset=a, bpm=b) for a, b in bp])
        q.title, q.artist, q.creator = s["title"], s["artist"], s["credit"]
        return QuaToSM.convert(q)
    if via == "bms":
        from reamber.bms import BMSMap
        from reamber.bms.BMSHit import BMSHit
        from reamber.bms.BMSHold import BMSHold
        from reamber.bms.BMSBpm import BMSBpm
        from reamber.bms.lists import BMSBpmList
        from reamber.bms.lists.notes import BMSHitList, BMSHoldList
        from reamber.algorithms.convert import BMSToSM
        b = BMSMap()
        b.hits = BMSHitList([BMSHit(offset=a, column=k) for a, k in hits])
        b.holds = BMSHoldList([BMSHold(offset=a, column=k, length=n) for a, k, n in holds])
        b.bpms = BMSBpmList([BMSBpm(offset=a, bpm=x) for a, x in bp])
        enc = lambda t: "".join(ch for ch in t if ord(ch) < 128).encode("ascii")
        b.title, b.artist, b.version = enc(s["title"]), enc(s["artist"]), enc(s["credit"])
        return BMSToSM.convert(b)
    if via == "o2j":
        from reamber.o2jam import O2JMapSet, O2JMap
        from reamber.o2jam.O2JHit import O2JHit
        from reamber.o2jam.O2JHold import O2JHold
        from reamber.o2jam.O2JBpm import O2JBpm
        from reamber.o2jam.lists import O2JBpmList
        from reamber.o2jam.lists.notes import O2JHitList, O2JHoldList
        from reamber.algorithms.convert import O2JToSM
        o = O2JMap()
        o.hits = O2JHitList([O2JHit(offset=a, column=k) for a, k in hits])
        o.holds = O2JHoldList([O2JHold(offset=a, column=k, length=n) for a, k, n in holds])
        o.bpms = O2JBpmList([O2JBpm(offset=a, bpm=x) for a, x in bp])
        os_ = O2JMapSet()
        os_.maps = [o]
        os_.level = [7]
        os_.title, os_.artist, os_.creator = s["title"], s["artist"], s["credit"]
        return O2JToSM.convert(os_)[0]
    raise ValueError(via)


EXC = (IndexError, ValueError, TypeError, AttributeError, ZeroDivisionError, KeyError)


def execute(case):
    from reamber.sm.SMMapSet import SMMapSet
    ms = _build(case)
    pre = None
    if "rate" in case:
        pre = G.snap_set(ms)
        ms = ms.rate(_fl(case["rate"]))
    out = {"ms": G.snap_set(ms), "pre_rate": pre}
    if any(c["n_stops"] for c in out["ms"]["maps"]):
        raise ValueError("generated mapset has stops")
    try:
        if case.get("file"):
            import os, tempfile
            with tempfile.TemporaryDirectory() as d:
                path = os.path.join(d, "case.sm")
                ms.write_file(path)
                with open(path, "rb") as f:          # the bytes on disk, no newline translation on the way in
                    text = f.read().decode("utf8")
        else:
            text = ms.write()
    except EXC as e:
        out.update(v=None, exc=type(e).__name__ + ": " + str(e)[:120])
        return out
    out["v"] = text
    try:
        ms2 = SMMapSet.read(text)
        out["reread"] = G.snap_set(ms2)
        out["text2"] = ms2.write()
        out["reread2"] = G.snap_set(SMMapSet.read(out["text2"]))
    except EXC as e:
        out["reread_exc"] = type(e).__name__ + ": " + str(e)[:120]
    return out


# ------------------------------------------------------------------ Coq side
def emit(case, out):
    o = "None"
    if out.get("v") is not None:
        tbl, idx = G.coq_text(out["v"])
        o = f"(Some ({tbl}, {idx}))"
    dom = case.get("dom")
    return f"C03Write {F.boolean(bool(dom))} {F.boolean('rate' in case)} (1#1000000) {G.coq_set(out['ms'])} {o}"


# ------------------------------------------------------------------ Python-side oracle (idempotence, read-back)
_NUM = re.compile(r"(?<![A-Za-z_#])[-+]?(?:\d+\.?\d*|\.\d+)(?:[eE][-+]?\d+)?")


def _canon_bpms(t):
    """#BPMS is a set: order its pairs by beat before comparing texts."""
    m = re.search(r"#BPMS:([^;]*);", t)
    if not m:
        return t
    pairs = [p.strip() for p in m.group(1).split(",")]
    try:
        pairs.sort(key=lambda p: float(p.split("=")[0]))
    except ValueError:
        return t
    return t[:m.start(1)] + ",\n".join(pairs) + t[m.end(1):]


def _same_text(a, b):
    a, b = _canon_bpms(a), _canon_bpms(b)
    pa, pb = _NUM.split(a), _NUM.split(b)
    if pa != pb:
        return False
    na, nb = _NUM.findall(a), _NUM.findall(b)
    return len(na) == len(nb) and all(abs(float(x) - float(y)) <= 1e-9 * (1 + abs(float(y))) for x, y in zip(na, nb))


def _fr(p):
    return Fr(p[0], p[1])


def _on_lines(ms):
    if not ms["maps"]:
        return True
    b = sorted(([_fr(o), _fr(v)] for o, v, _ in ms["maps"][0]["bpms"]), key=lambda x: x[0])
    for (o0, v0), (o1, _) in zip(b, b[1:]):
        x = (o1 - o0) / (4 * Fr(60000) / v0)
        if abs(x - round(x)) > Fr(1, 10 ** 9):
            return False
    return True


def _objs(c):
    out = []
    for k in G.SIMPLE:
        out += [(k, col, float(_fr(o)), 0.0) for o, col in c[k]]
    for k in G.HOLDS:
        out += [(k, col, float(_fr(o)), float(_fr(n))) for o, col, n in c[k]]
    return sorted(out)


def _max_rows(text):
    best = 0
    for chart in text.split("#NOTES:")[1:]:
        data = chart.split(":")[-1].split(";")[0]
        for m in data.split(","):
            best = max(best, len([r for r in m.split("\n") if r.strip()]))
    return best


def _same_set(a, b):
    for f in G.TEXT_FIELDS:
        if a[f] != b[f]:
            return False
    if a["selectable"] != b["selectable"] or len(a["maps"]) != len(b["maps"]):
        return False
    for k in ("offset", "sample_start", "sample_length"):
        if abs(float(_fr(a[k])) - float(_fr(b[k]))) > 1e-6:
            return False
    for x, y in zip(a["maps"], b["maps"]):
        for k in ("chart_type", "description", "difficulty", "difficulty_val"):
            if x[k] != y[k]:
                return False
        ox, oy = _objs(x), _objs(y)
        if len(ox) != len(oy) or any(p[:2] != q[:2] or abs(p[2] - q[2]) > 1e-6 or abs(p[3] - q[3]) > 2e-6 for p, q in zip(ox, oy)):
            return False
        bx = sorted((float(_fr(o)), float(_fr(v))) for o, v, _ in x["bpms"])
        by = sorted((float(_fr(o)), float(_fr(v))) for o, v, _ in y["bpms"])
        if len(bx) != len(by) or any(abs(p[0] - q[0]) > 1e-6 or abs(p[1] - q[1]) > 1e-9 * (1 + abs(q[1])) for p, q in zip(bx, by)):
            return False
    return True


def py_oracle(case, out):
    """Only for cases the Coq side places in the domain (dom True); the Coq oracle decides the denotation, this one
    re-reads the written text with the implementation: header fields unchanged, same objects, and write(read(text)) = text."""
    if case.get("dom") is False or out.get("v") is None:
        return None
    if case.get("dom") is None and case["via"] == "read" and not _on_lines(out["ms"]):
        return None
    ms = out["ms"]
    if "reread" not in out:
        return False
    rr = out["reread"]
    for f in G.TEXT_FIELDS:
        if rr[f] != ms[f]:
            return False
    if rr["selectable"] != ms["selectable"] or len(rr["maps"]) != len(ms["maps"]):
        return False
    for k in ("offset", "sample_start", "sample_length"):
        if abs(float(_fr(rr[k])) - float(_fr(ms[k]))) > 1e-6:
            return False
    if _on_lines(ms) and "rate" not in case:
        # read-back: same objects (exact regime: within 1e-6 ms; with truncated rows within 1/96 beat — bounded loosely here,
        # the precise bound is checked in Coq)
        max_bl = max(60000 / float(_fr(v)) for _, v, _ in ms["maps"][0]["bpms"])
        for a, b in zip(ms["maps"], rr["maps"]):
            oa, ob = _objs(a), _objs(b)
            if len(oa) != len(ob):
                return False
            for x, y in zip(oa, ob):
                if x[:2] != y[:2] or abs(x[2] - y[2]) > max_bl / 96 + 1e-6 or abs(x[3] - y[3]) > 2 * max_bl / 96 + 1e-6:
                    return False
        # reading the written text back gives the same result again: read(write(read(text))) = read(text)
        if "reread2" not in out or not _same_set(rr, out["reread2"]):
            return False
        # and the text itself is reproduced unless a measure was cut down to the 384-row cap
        if "text2" in out and _max_rows(out["v"]) < 384 and not _same_text(out["v"], out["text2"]):
            return False
    return True


def _first_tempo(ms):
    return min(_fr(o) for o, _, _ in ms["maps"][0]["bpms"]) if ms["maps"] and ms["maps"][0]["bpms"] else None


def classify(case, out, kind):
    # the former findings sm-selectable-no (16f3fe3), sm-pad-width (d872b70), rate-offset-unscaled (0398fe5) are fixed:
    # nothing is treated as known any more
    return None


def _n_objs(ms):
    return sum(len(c[k]) for c in ms["maps"] for k in G.SIMPLE + G.HOLDS)


def nontrivial(case, out):
    ms = out.get("ms")
    if not ms or not ms["maps"]:
        return False
    return _n_objs(ms) >= 3 or len(ms["maps"][0]["bpms"]) >= 2 or len(ms["maps"]) >= 2


def bucket(case, out):
    ms = out.get("ms") or {"maps": []}
    k = f"via={case['via']}" + ("+rate" if "rate" in case else "") + ("+hist:" + case["hist"]["op"] if "hist" in case else "") + ("+file" if case.get("file") else "")
    k += f"/charts={len(ms['maps'])}"
    if ms["maps"]:
        k += f"/tempo={len(ms['maps'][0]['bpms'])}"
    if out.get("v") is None:
        k += "/exc"
    return k


def describe(case, out):
    ms = out.get("ms") or {"maps": []}
    return (f"write{'_file' if case.get('file') else ''} via={case['via']} hist={case.get('hist')} rate={case.get('rate')} charts={[c['chart_type'] for c in ms['maps']]} objects={_n_objs(ms) if ms['maps'] else 0} "
            f"selectable={ms.get('selectable')} -> {'exception ' + out.get('exc', '') if out.get('v') is None else str(len(out['v'])) + ' chars'}")


def shrink(case):
    """At most 16 candidates per round (each round costs one Coq evaluation of all candidates)."""
    import itertools
    return itertools.islice(_shrink_all(case), 16)


def _shrink_all(case):
    if case.get("file"):
        c = dict(case); del c["file"]; yield c
    if "hist" in case:
        c = dict(case); del c["hist"]; yield c
        if case["hist"]["pre"] != "tm":
            c = dict(case); c["hist"] = dict(case["hist"], pre="tm"); yield c
    if case["via"] == "read":
        lines = case["text"].split("\n")
        for i in range(len(lines)):
            c = dict(case)
            c["text"] = "\n".join(lines[:i] + lines[i + 1:])
            yield c
        return
    import copy
    s = case["set"]
    if "rate" in case:
        c = copy.deepcopy(case); del c["rate"]; yield c
    for ci in range(len(s["maps"])):
        if len(s["maps"]) > 1:
            c = copy.deepcopy(case); del c["set"]["maps"][ci]; yield c
        for k in G.SIMPLE + G.HOLDS:
            for j in range(len(s["maps"][ci][k])):
                c = copy.deepcopy(case); del c["set"]["maps"][ci][k][j]; yield c
    for j in range(1, len(s["bpms"])):
        c = copy.deepcopy(case); del c["set"]["bpms"][j]; yield c
