"""Common machinery of every check: table regeneration, Coq build, case shards evaluated by
vm_compute, verdict logic (VIOLATION / KNOWN-FINDING), evidence and replay files."""
from __future__ import annotations

import concurrent.futures as cf
import fcntl
import hashlib
import json
import os
import random
import re
import subprocess
import sys
import time
import traceback

VERIF = os.path.dirname(os.path.dirname(os.path.abspath(__file__)))
COQ = os.path.join(VERIF, "coq")
BUILD = os.path.join(VERIF, "build")
REPO = os.environ.get("VERIF_REPO", "/repo")
COQ_SRC = COQ
if os.path.realpath(REPO) != "/repo":
    # a tree other than /repo (a scratch worktree carrying a candidate change) is judged in its own copy of the Coq
    # sources and its own build directory: the regenerated tables of two trees never meet, whatever runs concurrently
    BUILD = os.path.join(VERIF, "build", "alt-" + hashlib.sha1(os.path.realpath(REPO).encode()).hexdigest()[:10])
    COQ = os.path.join(BUILD, "coq")
# replays of other-tree runs live with their build, so that they never overwrite a replay of /repo
REPLAYS = os.path.join(VERIF, "replays") if COQ == COQ_SRC else os.path.join(BUILD, "replays")
SHARD_BYTES = 140_000
NPROC = int(os.environ.get("VERIF_NPROC", min(16, os.cpu_count() or 4)))


def setup_paths():
    """Import reamber from the tree under test (VERIF_REPO, default /repo), whatever /venv points at."""
    if REPO not in sys.path[:1]:
        sys.path.insert(0, REPO)
    os.environ.setdefault("PYTHONHASHSEED", "0")
    import reamber  # noqa
    got = os.path.dirname(os.path.dirname(os.path.abspath(reamber.__file__)))
    if os.path.realpath(got) != os.path.realpath(REPO):
        raise RuntimeError(f"reamber imported from {got}, expected {REPO}")
    import logging
    logging.disable(logging.WARNING)
    import warnings
    warnings.filterwarnings("ignore")


class BuildLock:
    def __enter__(self):
        os.makedirs(BUILD, exist_ok=True)
        self.f = open(os.path.join(BUILD, ".lock"), "w")
        fcntl.flock(self.f, fcntl.LOCK_EX)
        return self

    def __exit__(self, *a):
        fcntl.flock(self.f, fcntl.LOCK_UN)
        self.f.close()


def sync_sources():
    """other-tree runs: refresh the private copy of the .v sources (mtimes kept, so make rebuilds only what changed)"""
    if COQ == COQ_SRC:
        return
    if not os.path.isdir(COQ):
        # first run for this tree: start from the main build's compiled files (copied under the main build lock), so
        # only what depends on a table that really differs is recompiled
        os.makedirs(BUILD, exist_ok=True)
        main_lock = os.path.join(VERIF, "build", ".lock")
        with open(main_lock, "w") as lf:
            fcntl.flock(lf, fcntl.LOCK_EX)
            subprocess.run(["cp", "-a", COQ_SRC, COQ], check=True)
    os.makedirs(COQ, exist_ok=True)
    subprocess.run(["rsync", "-a", "--exclude=Generated/Tables.v", "--include=*/", "--include=*.v", "--include=_CoqProject",
                    "--exclude=*", COQ_SRC + "/", COQ + "/"], check=True)


def regenerate_tables():
    sync_sources()
    from . import gen_tables
    os.makedirs(os.path.join(COQ, "Generated"), exist_ok=True)
    return gen_tables.write_if_changed(os.path.join(COQ, "Generated", "Tables.v"))


def coq_makefile():
    mk = os.path.join(COQ, "Makefile")
    vfiles = []
    for root, _, files in os.walk(COQ):
        for f in files:
            if f.endswith(".v"):
                vfiles.append(os.path.relpath(os.path.join(root, f), COQ))
    vfiles.sort()
    listing = open(os.path.join(COQ, "_CoqProject")).read() + "\n".join(vfiles) + "\n"
    lp = os.path.join(COQ, ".filelist")
    old = open(lp).read() if os.path.exists(lp) else None
    if old != listing or not os.path.exists(mk):
        with open(os.path.join(COQ, "_CoqProject.full"), "w") as f:
            f.write(listing)
        subprocess.run(["coq_makefile", "-f", "_CoqProject.full", "-o", "Makefile"], cwd=COQ, check=True,
                       stdout=subprocess.DEVNULL, stderr=subprocess.DEVNULL)
        with open(lp, "w") as f:
            f.write(listing)


def make(targets, timeout=1500):
    """Full .vo build of the given targets (no -vos).  Returns (ok, log)."""
    cmd = ["timeout", str(timeout), "make", "-j", os.environ.get("VERIF_MAKE_J", "8"), "-k"] + list(targets)
    p = subprocess.run(cmd, cwd=COQ, stdout=subprocess.PIPE, stderr=subprocess.STDOUT, text=True)
    return p.returncode == 0, p.stdout


def run_coqc(path, timeout=600):
    p = subprocess.run(["timeout", str(timeout), "coqc", "-Q", COQ, "RV", "-w", "-all", path],
                       stdout=subprocess.PIPE, stderr=subprocess.STDOUT, text=True,
                       preexec_fn=lambda: __import__("resource").setrlimit(
                           __import__("resource").RLIMIT_STACK,
                           (1 << 30, 1 << 30)))
    return p.returncode, p.stdout


_LIST_RE = re.compile(r"=\s*\(\s*\[([^\]]*)\]\s*,\s*\[([^\]]*)\]\s*,\s*\[([^\]]*)\]\s*\)", re.S)


def parse_failing(out: str):
    m = _LIST_RE.search(out)
    if not m:
        return None

    def nums(s):
        return [int(x) for x in re.findall(r"\d+", s)]
    return nums(m.group(1)), nums(m.group(2)), nums(m.group(3))


def shard_cases(terms, max_bytes=SHARD_BYTES):
    shards, cur, size = [], [], 0
    total = sum(len(t) for t in terms)
    if len(terms) >= 2 * NPROC:
        max_bytes = min(max_bytes, max(2000, total // NPROC + 1))
    for i, t in enumerate(terms):
        if cur and size + len(t) > max_bytes:
            shards.append(cur)
            cur, size = [], 0
        cur.append((i, t))
        size += len(t) + 2
    if cur:
        shards.append(cur)
    return shards


def eval_cases(prop_id, runner_module, case_type, terms, tag="cases", timeout=900):
    """Evaluate `failing` of the runner on the given Coq case terms. Returns dict with index sets
    (global indices) or raises RuntimeError when Coq could not evaluate a shard."""
    d = os.path.join(BUILD, prop_id)
    os.makedirs(d, exist_ok=True)
    for f in os.listdir(d):
        if f.startswith(tag + "_"):
            os.remove(os.path.join(d, f))
    shards = shard_cases(terms)
    paths = []
    for k, sh in enumerate(shards):
        name = f"{tag}_{k}"
        p = os.path.join(d, name + ".v")
        with open(p, "w") as f:
            f.write(f"From RV Require Import {runner_module}.\nFrom Coq Require Import ZArith QArith List.\n"
                    "Import ListNotations.\nOpen Scope Q_scope.\n")
            f.write(f"Definition cases : list {case_type} := [\n")
            f.write(";\n".join(t for _, t in sh))
            f.write("\n].\nDefinition res := Eval vm_compute in (failing cases).\n")
            f.write("Eval vm_compute in res.\n")
        paths.append((p, sh))
    corr, spec, wf = set(), set(), set()
    errors = []

    def work(item):
        p, sh = item
        rc, out = run_coqc(p, timeout)
        return item, rc, out
    with cf.ThreadPoolExecutor(NPROC) as ex:
        for (p, sh), rc, out in ex.map(work, paths):
            parsed = parse_failing(out) if rc == 0 else None
            if parsed is None:
                errors.append((p, rc, out[-2000:]))
                continue
            a, b, c = parsed
            base = [i for i, _ in sh]
            corr.update(base[j] for j in a)
            spec.update(base[j] for j in b)
            wf.update(base[j] for j in c)
    if errors:
        raise RuntimeError("coqc failed on shard(s): " + json.dumps(errors)[:4000])
    return {"corr": corr, "spec": spec, "wf": wf, "shards": len(shards)}


def theorems_in(vfile):
    txt = open(vfile).read()
    return re.findall(r"^\s*(?:Theorem|Lemma|Example)\s+([A-Za-z0-9_']+)", txt, re.M)


def print_assumptions(prop_id, module, names):
    d = os.path.join(BUILD, prop_id)
    os.makedirs(d, exist_ok=True)
    p = os.path.join(d, "assumptions.v")
    with open(p, "w") as f:
        f.write(f"From RV Require Import {module}.\n")
        for n in names:
            f.write(f'Print Assumptions {n}.\n')
    rc, out = run_coqc(p, 600)
    if rc != 0:
        return None, out
    blocks = [b.strip() for b in re.split(r"\n(?=Closed under|Axioms:)", out.strip()) if b.strip()]
    return blocks, out


def load_known_findings():
    """known_findings.json plus findings/<id>.json (committed; never written at run time)."""
    out = []
    p = os.path.join(VERIF, "known_findings.json")
    if os.path.exists(p):
        out.extend(json.load(open(p)))
    d = os.path.join(VERIF, "findings")
    if os.path.isdir(d):
        for f in sorted(os.listdir(d)):
            if f.endswith(".json"):
                out.extend(json.load(open(os.path.join(d, f))))
    return out


def case_hash(obj) -> str:
    return hashlib.sha1(json.dumps(obj, sort_keys=True, default=str).encode()).hexdigest()[:16]


def write_json(path, obj):
    os.makedirs(os.path.dirname(path), exist_ok=True)
    tmp = path + ".tmp"
    with open(tmp, "w") as f:
        json.dump(obj, f, indent=1, default=str)
    os.replace(tmp, path)


class Outcome:
    def __init__(self):
        self.violations = []       # (key, replay_path, suffix)
        self.known = []            # strings
        self.internal = []         # strings

    def exit_code(self):
        return 1 if (self.violations or self.internal) else 0
