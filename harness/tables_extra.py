"""Further regenerated tables (filled in as properties are added)."""


def generate():
    return []
