"""Snapper table and divisions (C10, used by C02-C05, C11)."""
from fractions import Fraction
from .. import coqfmt as F

TOPLEVEL = True


def snapper_table():
    from reamber.algorithms.timing.utils.Snapper import Snapper
    s = Snapper()
    rows = []
    for v, n, d in zip(s.val, s.num, s.den):
        n_i, d_i = int(n), int(d)
        if n_i != n or d_i != d or d_i <= 0:
            raise ValueError("snapper table entry is not integral")
        # the float value must be the correctly rounded quotient (it is what bisect looks at)
        if float(v) != n_i / d_i:
            raise ValueError("snapper val != num/den")
        rows.append(Fraction(n_i, d_i))
    return rows


def generate():
    from reamber.algorithms.timing.utils.conf import DEFAULT_DIVISIONS
    return [
        "Definition snapper_table : list Q := " + F.lst([F.q(x) for x in snapper_table()]) + ".",
        "Definition default_divisions : list Z := " + F.lst([F.z(x) for x in DEFAULT_DIVISIONS]) + ".",
    ]
