"""C14 translator: the bodies of the listed reamber operations -> small EFFECT PROGRAMS (Tables.effects).

Like harness/tables/convert.py this module translates SOURCE TEXT (Python `ast` of the tree under test,
`harness.framework.REPO`), not values.  For every operation C14 lists (TimedList / HoldList filters, sort, append,
move, copy, item access, offsets; Map / MapSet rate and deepcopy; the writers; full_ln, sv_normalize, scroll_speed,
dominant_bpm, hitsound_copy; Pattern.from_note_lists / group; ConvertBase.cast and every converter) and for every
reamber function these reach, the function body is walked and turned into a list of steps over numbered variables:

  EAlloc x             x is a new object (constructor, deepcopy, pandas / numpy call known to build a new object,
                       literal, immutable value)
  EAliasOf x y         x is the object y (x = y, parameter binding, `a or b`, `a if c else b`)
  ELoad x y            x is y or something y refers to (y.attr, y[i], a view such as .values / .to_numpy() / .loc[..],
                       an element met while iterating y)
  EReach x y           x is anything reachable from y at any depth (the target of a write "below" y: generated property
                       setters, __setitem__ of reamber classes, augmented assignment to an attribute)
  EHold x y            the object x keeps a reference to y (container element, stored attribute, constructor argument)
  EWrite x             the object x is changed in place (attribute / item assignment, augmented assignment,
                       inplace=True, list.append / extend / sort / ..., dict update / setitem, DataFrame setitem ...)
  ECallListed x ts     x = f(..) for every reamber function f the call may denote (resolved BY NAME over the whole
                       package: the receiver's class is not known); ts = [(f, [(parameter of f, argument)])]
  EReturn x            the function returns (or yields) x
  EUnknown "<text>"    ANY statement, expression or callee the translator cannot classify (fail closed: Coq's
                       effect_pureb is false for a program that contains one, and for every program that calls it)

Parameters (self included) are the ARGUMENTS: variables 0 .. nargs-1.  Coq (Store/Effects.v) inlines the callees,
runs a may-alias analysis over the flat program and decides effect_pureb / effect_ownedb; Props/C14.v re-checks
`forallb effect_pureb` / `forallb effect_ownedb` on the table generated from the tree that is there NOW.

TRUSTED: this translator and the callee tables below (BUILTIN_FUNCS, MODULE_FUNCS, METHODS, ...), which say
what builtin / pandas / numpy callees do.  They are printed into docs/C14.md by `python -m harness.tables.effects`.
The output text is deterministic (sorted names, ast.unparse)."""
import ast
import os
import sys

# ------------------------------------------------------------------------------------------------ trusted tables
# Global functions (called by bare name).  Category:
#   fresh   : returns a new object / immutable value sharing no mutable state with its arguments; modifies nothing
#   shallow : returns a new container that keeps references to (the elements of) its arguments; modifies nothing
#   view    : returns something that may share state with its arguments; modifies nothing
BUILTIN_FUNCS = {
    "fresh": ["len", "int", "float", "str", "bool", "bytes", "isinstance", "issubclass", "hasattr", "abs", "round",
              "repr", "id", "type", "range", "any", "all", "print", "ord", "chr", "hash", "callable",
              "deepcopy",                      # copy.deepcopy: see DEEPCOPY note (hooks __deepcopy__ are obligations)
              "encode", "decode", "unidecode", "base_repr", "bisect_left", "bisect_right", "lcm", "gcd", "floor", "ceil",
              "Fraction", "namedtuple", "TypeVar", "ValueError", "IndexError", "KeyError", "TypeError", "Exception",
              "AssertionError", "ZeroDivisionError", "NotImplementedError", "AttributeError", "RuntimeError"],
    "shallow": ["list", "dict", "tuple", "set", "frozenset", "sorted", "zip", "enumerate", "reversed", "filter", "map",
                "sum", "copy"],
    # the result may BE one of the arguments / one of their elements or attributes
    "view": ["iter", "next", "max", "min", "reduce", "super", "getattr", "vars"],
}
# Functions of imported modules, by the module's canonical name.
MODULE_FUNCS = {
    "fresh": ["pandas.isna", "pandas.notna", "pandas.to_numeric",
              "numpy.where", "numpy.zeros", "numpy.ones", "numpy.arange", "numpy.isnan", "numpy.diff", "numpy.sum",
              "numpy.floor", "numpy.ceil", "numpy.round", "numpy.abs", "numpy.argsort",
              "numpy.base_repr", "numpy.lcm", "numpy.lcm.reduce", "numpy.isclose", "numpy.max", "numpy.min",
              "numpy.cumsum", "numpy.all", "numpy.any", "numpy.indices",
              "numpy.triu_indices", "numpy.nan_to_num", "numpy.empty",
              "codecs.encode", "codecs.decode", "copy.deepcopy", "yaml.dump", "yaml.safe_dump",
              "logging.getLogger", "warnings.warn", "math.floor", "math.ceil", "math.isnan", "math.gcd", "math.lcm",
              "datetime.timedelta", "functools.reduce", "bisect.bisect_left", "bisect.bisect_right",
              "unidecode.unidecode", "fractions.Fraction", "collections.namedtuple"],
    # new frame / array / container; cells of object dtype (lists, strings) and elements are shared with the arguments
    "shallow": ["pandas.DataFrame", "pandas.Series", "pandas.DataFrame.from_dict", "pandas.DataFrame.from_records",
                "pandas.concat", "pandas.merge", "numpy.array", "numpy.concatenate", "numpy.stack", "numpy.vstack",
                "numpy.hstack", "numpy.append", "numpy.unique", "copy.copy", "itertools.chain", "itertools.groupby"],
    "view": ["numpy.asarray"],
}
# Logger-like globals: method calls on them have no effect on any argument.
INERT_GLOBAL_RECEIVERS = ["log", "logger", "warnings", "logging"]
# Methods, by name (the receiver's type is unknown).  A name that is ALSO defined in reamber gets both meanings.
#   fresh / shallow / view as above (w.r.t. receiver and arguments);
#   mutate  : changes the receiver object in place, which then keeps references to the arguments; returns a view
#   any method called with inplace=True changes its receiver in place, whatever its category.
METHODS = {
    "fresh": [  # pandas / numpy calls that build a new object holding its own data; str / bytes / number methods
        "sort_values", "sort_index", "reset_index", "drop", "drop_duplicates", "dropna", "fillna", "ffill", "bfill",
        "astype", "rename", "assign", "merge", "join", "sum", "diff", "shift",
        "clip", "set_axis", "set_index", "reindex", "describe", "to_records", "repeat",
        "min", "max", "mean", "idxmax", "idxmin", "count", "any", "all", "isna", "notna", "isin", "cumsum", "round",
        "abs", "nunique", "value_counts", "mask", "where",
        "split", "strip", "lstrip", "rstrip", "format", "encode", "decode", "zfill", "upper", "lower", "startswith",
        "endswith", "find", "replace", "index", "as_posix", "is_integer", "as_integer_ratio", "bit_length",
        "__repr__", "__str__", "debug", "info", "warning", "warn", "error", "dump", "nonzero", "argsort", "searchsorted"],
    "shallow": [  # new container / lazy iterator over the receiver's elements; tolist of an object column keeps the cells
        "tolist", "to_list", "to_dict", "items", "keys", "values", "iterrows", "itertuples", "__new__",
        "agg", "aggregate", "apply", "first", "last", "unique", "flatten"],
    "view": [    # may share memory / state with the receiver
        "to_numpy", "to_frame", "__getattribute__", "__getitem__", "__iter__", "view", "reshape", "ravel", "squeeze",
        "head", "tail", "take", "transpose", "groupby", "get", "item"],
    "mutate": [  # list / dict / set / DataFrame in-place methods
        "append", "extend", "insert", "pop", "remove", "clear", "sort", "reverse", "update", "setdefault", "add",
        "discard", "popitem", "__setitem__", "__setattr__", "__delitem__", "fill", "put", "itemset", "resize"],
}
# Binary operators whose result is always a new value that keeps no reference to its operands (numbers, arrays, frames;
# set difference of hashable - immutable - elements).  `+ * | & ^` may build lists / tuples / sets: the result holds the operands.
FRESH_BINOPS = (ast.Sub, ast.Div, ast.FloorDiv, ast.Mod, ast.Pow, ast.LShift, ast.RShift, ast.MatMult)
# Containers of immutable elements, by annotation of the attribute they are read from: a shallow copy of one is a full copy.
IMMUTABLE_ELEMENT_ANNOTATIONS = ["List[str]", "List[int]", "List[float]", "list[str]", "list[int]", "list[float]",
                                 "Tuple[str]", "List[bool]", "List[bytes]"]
# dtypes (first component of a `_props` declaration) whose cells are numbers / strings
NUMERIC_DTYPES = ["float", "int", "bool", "float64", "int64", "float32", "int32", "str"]
# `x.copy()`: a data copy for pandas / numpy receivers (the receiver expression is recognisably a frame / array, or
# deep=True is written), a SHALLOW copy (elements shared) otherwise.
# Attributes that are views of their owner (loads) are the default; these attribute names denote immutable values:
IMMUTABLE_ATTR_NAMES = ["__class__", "__name__", "__qualname__", "__module__", "columns", "index", "dtypes", "dtype",
                        "shape", "size", "ndim"]
# Annotated dataclass fields of reamber classes whose annotation is one of these are immutable values too
# (decided on the LIVE source: every declaration of that attribute name in the package must be immutable).
IMMUTABLE_ANNOTATIONS = ["str", "int", "float", "bool", "bytes", "None", "str or None", "float or None", "int or None",
                         "Optional[str]", "Optional[int]", "Optional[float]", "str | None", "int | None", "float | None",
                         "Fraction", "Fraction | float", "Fraction | float | None", "float | Fraction"]
# Attributes that hold a DataFrame / Series / ndarray (used only to read `.copy()` as a data copy and `x[...] = v`
# as a pandas item assignment rather than a call of a reamber __setitem__).
FRAME_ATTRS = ["df", "_df", "_stacked", "data"]
FRAME_RETURNING_METHODS = ["sort_values", "reset_index", "drop", "drop_duplicates", "dropna", "ffill", "bfill", "astype",
                           "rename", "assign", "merge", "agg", "last", "set_index", "to_frame", "copy", "diff",
                           "shift", "clip", "set_axis", "sum", "to_records", "to_numpy"]
FRAME_RETURNING_FUNCS = ["pandas.concat", "pandas.merge", "pandas.DataFrame", "pandas.Series", "pandas.DataFrame.from_dict",
                         "numpy.zeros", "numpy.ones", "numpy.array", "numpy.where", "numpy.arange"]
# COLUMN STORES THAT COPY.  `x.__setattr__(<column name>, <values>)` / `setattr(x, ..)` where x is a local variable whose
# every assignment is `<class>.empty(<n>)` - a new TimedList of defaults (TimedList.empty is the only `empty` method of
# the package; checked) - goes through the list_props setter `self.df[k] = val`: pandas copies a 1-D array assigned as a
# column, so x is changed but keeps no reference to the values.  (Object-dtype cells would still be shared; no converter
# casts such a column, and the shared-memory / list-cell identity probes of the harness re-observe every converter run.)
COLUMN_STORE_RECEIVER_FROM = "empty"
# Protocol hooks: defined in reamber, called implicitly by Python syntax (x[i], for .. in x, len(x), x == y, x.attr for a
# property, copy.deepcopy).  The syntax is translated generically (a load / a fresh value); EVERY such definition in the
# package is put in the table with its own obligation (pure; __deepcopy__ also owned).
HOOK_NAMES = ["__getitem__", "__iter__", "__len__", "__eq__", "__ne__", "__lt__", "__le__", "__gt__", "__ge__",
              "__repr__", "__str__", "__deepcopy__", "__contains__", "__hash__", "__bool__"]
# (x[k] = v and x.<generated property> = v are translated as: x and everything x reaches may change, x keeps v, v may
#  come to keep what x reaches - all a __setitem__ / setter can do to its receiver and value: no obligation on those)
# parameters that are not arguments of the operation (protocol scratch objects, the class itself)
NON_ARGUMENT_PARAMS = {"__deepcopy__": ["memo"]}
# source directories whose hooks / same-name methods can never be reached from the listed operations
EXCLUDED_DIRS = ["reamber/algorithms/playField", "reamber/algorithms/plot", "reamber/dummy"]

# ------------------------------------------------------------------------------------------------ listed operations
# (entry name as the harness calls it, qualified function, documented as a copy)
LISTED = [
    ("TimedList.after", "base/lists/TimedList.py:TimedList.after", False),
    ("TimedList.before", "base/lists/TimedList.py:TimedList.before", False),
    ("TimedList.between", "base/lists/TimedList.py:TimedList.between", False),
    ("TimedList.__getitem__", "base/lists/TimedList.py:TimedList.__getitem__", False),
    ("TimedList.__iter__", "base/lists/TimedList.py:TimedList.__iter__", False),
    ("TimedList.sorted", "base/lists/TimedList.py:TimedList.sorted", False),
    ("TimedList.append", "base/lists/TimedList.py:TimedList.append", False),
    ("TimedList.move_start_to", "base/lists/TimedList.py:TimedList.move_start_to", True),
    ("TimedList.move_end_to", "base/lists/TimedList.py:TimedList.move_end_to", True),
    ("TimedList.deepcopy", "base/lists/TimedList.py:TimedList.deepcopy", True),
    ("TimedList.__deepcopy__", "base/lists/TimedList.py:TimedList.__deepcopy__", True),
    ("TimedList.first_offset", "base/lists/TimedList.py:TimedList.first_offset", False),
    ("TimedList.last_offset", "base/lists/TimedList.py:TimedList.last_offset", False),
    ("TimedList.__len__", "base/lists/TimedList.py:TimedList.__len__", False),
    ("HoldList.after", "base/lists/notes/HoldList.py:HoldList.after", False),
    ("HoldList.before", "base/lists/notes/HoldList.py:HoldList.before", False),
    ("HoldList.between", "base/lists/notes/HoldList.py:HoldList.between", False),
    ("HoldList.last_offset", "base/lists/notes/HoldList.py:HoldList.last_offset", False),
    ("HitList.__getitem__", "base/lists/notes/HitList.py:HitList.__getitem__", False),
    ("Map.rate", "base/Map.py:Map.rate", True),
    ("Map.deepcopy", "base/Map.py:Map.deepcopy", True),
    ("Map.stack", "base/Map.py:Map.stack", False),
    ("OsuMap.rate", "osu/OsuMap.py:OsuMap.rate", True),
    ("MapSet.rate", "base/MapSet.py:MapSet.rate", True),
    ("MapSet.deepcopy", "base/MapSet.py:MapSet.deepcopy", True),
    ("SMMapSet.rate", "sm/SMMapSet.py:SMMapSet.rate", True),
    ("OsuMap.write", "osu/OsuMap.py:OsuMap.write", False),
    ("QuaMap.write", "quaver/QuaMap.py:QuaMap.write", False),
    ("BMSMap.write", "bms/BMSMap.py:BMSMap.write", False),
    ("SMMapSet.write", "sm/SMMapSet.py:SMMapSet.write", False),
    ("full_ln", "algorithms/generate/full_ln.py:full_ln", True),
    ("sv_normalize", "algorithms/generate/sv_normalize.py:sv_normalize", False),
    ("scroll_speed", "algorithms/analysis/scroll_speed.py:scroll_speed", False),
    ("dominant_bpm", "algorithms/utils/dominant_bpm.py:dominant_bpm", False),
    ("hitsound_copy", "algorithms/osu/hitsound_copy.py:hitsound_copy", True),
    ("Pattern.from_note_lists", "algorithms/pattern/Pattern.py:Pattern.from_note_lists", False),
    ("Pattern.group", "algorithms/pattern/Pattern.py:Pattern.group", False),
    ("ConvertBase.cast", "algorithms/convert/ConvertBase.py:ConvertBase.cast", True),
]
CONVERTERS = ["BMSToOsu", "BMSToQua", "BMSToSM", "O2JToBMS", "O2JToOsu", "O2JToQua", "O2JToSM", "OsuToBMS", "OsuToQua",
              "OsuToSM", "QuaToBMS", "QuaToOsu", "QuaToSM", "SMToBMS", "SMToOsu", "SMToQua"]
for _c in CONVERTERS:
    LISTED.append((f"{_c}.convert", f"algorithms/convert/{_c}.py:{_c}.convert", True))


# ------------------------------------------------------------------------------------------------ source index
def repo_root():
    from .. import framework as fw
    return fw.REPO


class Fn:
    def __init__(self, key, name, clschain, node, file, kind, index):
        self.key, self.name, self.clschain, self.node, self.file, self.kind = key, name, clschain, node, file, kind
        self.index = index
        a = node.args
        self.pos = [x.arg for x in a.posonlyargs + a.args]
        self.kwonly = [x.arg for x in a.kwonlyargs]
        self.vararg = a.vararg.arg if a.vararg else None
        self.kwarg = a.kwarg.arg if a.kwarg else None
        self.ndefaults = len(a.defaults)
        decs = [ast.unparse(d) for d in node.decorator_list]
        self.is_overload = any(d.endswith("overload") for d in decs)
        self.is_property = any(d == "property" for d in decs)
        self.setter_of = next((d[:-len(".setter")] for d in decs if d.endswith(".setter")), None)
        body = [s for s in node.body if not (isinstance(s, ast.Expr) and isinstance(s.value, ast.Constant))]
        self.is_stub = self.is_overload or (len(body) == 0) or all(isinstance(s, ast.Pass) for s in body)

    @property
    def cls(self):
        return self.clschain[-1] if self.clschain else None

    @property
    def short(self):
        return ".".join(self.clschain + (self.name,))

    def bound_params(self):
        """parameters after the implicit first one (self / cls)"""
        return self.pos[1:] if self.kind in ("method", "class") else self.pos


class Index:
    def __init__(self, root):
        self.root = root
        self.funcs = {}        # name -> [Fn]
        self.by_key = {}
        self.classes = {}      # name -> [(file, chain, node, bases)]
        self.imports = {}      # file -> {alias: dotted}
        self.generated_props = set()
        self.prop_cells = {}         # generated column property -> set of "immutable"/"mutable" (declared dtype / default)
        self.attr_annotations = {}   # attr -> set(annotation text)
        self.method_names = set()
        base = os.path.join(root, "reamber")
        for d, _, files in sorted(os.walk(base)):
            rel = os.path.relpath(d, root)
            if any(rel == e or rel.startswith(e + os.sep) for e in EXCLUDED_DIRS):
                continue
            for f in sorted(files):
                if f.endswith(".py"):
                    self._file(os.path.join(d, f))

    def _file(self, path):
        rel = os.path.relpath(path, os.path.join(self.root, "reamber"))
        with open(path, encoding="utf8") as fh:
            tree = ast.parse(fh.read())        # a file that does not parse stops the whole table (fail closed)
        imps = {}
        for n in ast.walk(tree):
            if isinstance(n, ast.Import):
                for a in n.names:
                    imps[a.asname or a.name.split(".")[0]] = a.name if a.asname else a.name.split(".")[0]
            elif isinstance(n, ast.ImportFrom) and n.module:
                for a in n.names:
                    imps[a.asname or a.name] = n.module + "." + a.name
        self.imports[rel] = imps

        def walk(node, chain):
            for ch in node.body:
                if isinstance(ch, ast.ClassDef):
                    bases = [ast.unparse(b).split("[")[0].split(".")[-1] for b in ch.bases]
                    self.classes.setdefault(ch.name, []).append((rel, chain + (ch.name,), ch, bases))
                    self._class_body(ch)
                    walk(ch, chain + (ch.name,))
                elif isinstance(ch, (ast.FunctionDef, ast.AsyncFunctionDef)):
                    decs = [ast.unparse(d) for d in ch.decorator_list]
                    if chain:
                        kind = "static" if "staticmethod" in decs else "class" if "classmethod" in decs else "method"
                    else:
                        kind = "func"
                    key = rel + ":" + ".".join(chain + (ch.name,))
                    fn = Fn(key, ch.name, chain, ch, rel, kind, self)
                    if key in self.by_key:     # overloads / redefinitions: keep every one, distinct keys
                        k = 2
                        while f"{key}#{k}" in self.by_key:
                            k += 1
                        fn.key = f"{key}#{k}"
                    self.by_key[fn.key] = fn
                    self.funcs.setdefault(ch.name, []).append(fn)
                    if chain:
                        self.method_names.add(ch.name)
        walk(tree, ())

    def _class_body(self, cnode):
        for s in cnode.body:
            if isinstance(s, ast.Assign) and len(s.targets) == 1 and isinstance(s.targets[0], ast.Name) \
                    and s.targets[0].id == "_props":
                self.generated_props |= set(self._props_keys(s.value, cnode.name))
                self._props_cells(s.value)
            if isinstance(s, ast.AnnAssign) and isinstance(s.target, ast.Name):
                self.attr_annotations.setdefault(s.target.id, set()).add(ast.unparse(s.annotation).strip("'\""))

    def _props_cells(self, v):
        """`_props = dict(column=["int", 0], keysounds=["object", []])`: are the cells of that column immutable values?
        numeric dtypes, or object dtype with a str / bytes default: yes; anything else: no"""
        pairs = []
        if isinstance(v, ast.Call) and isinstance(v.func, ast.Name) and v.func.id == "dict":
            pairs = [(k.arg, k.value) for k in v.keywords]
        elif isinstance(v, ast.Dict):
            pairs = [(k.value, val) for k, val in zip(v.keys, v.values) if isinstance(k, ast.Constant)]
        for name, val in pairs:
            kind = "mutable"
            if isinstance(val, (ast.List, ast.Tuple)) and len(val.elts) == 2 and isinstance(val.elts[0], ast.Constant):
                dt, default = val.elts[0].value, val.elts[1]
                if dt in NUMERIC_DTYPES:
                    kind = "immutable"
                elif dt == "object" and isinstance(default, ast.Constant) and isinstance(default.value, (str, bytes)):
                    kind = "immutable"
            elif not isinstance(val, (ast.List, ast.Tuple)):
                continue        # map_props: name -> list class (not a column)
            self.prop_cells.setdefault(name, set()).add(kind)

    def immutable_cells(self, attr):
        """x.<attr> is, for every class of the package declaring it, a column whose cells are immutable values"""
        kinds = self.prop_cells.get(attr)
        return bool(kinds) and kinds == {"immutable"}

    @staticmethod
    def _props_keys(v, cname):
        if isinstance(v, ast.Call) and isinstance(v.func, ast.Name) and v.func.id == "dict" and not v.args:
            return [k.arg for k in v.keywords]
        if isinstance(v, ast.Dict) and all(isinstance(k, ast.Constant) for k in v.keys):
            return [k.value for k in v.keys]
        if isinstance(v, (ast.List, ast.Tuple)) and all(isinstance(k, ast.Constant) for k in v.elts):
            return [k.value for k in v.elts]
        raise ValueError(f"_props of class {cname} is not a literal: {ast.unparse(v)[:80]}")

    # -- queries
    def immutable_attr(self, attr):
        if attr in IMMUTABLE_ATTR_NAMES:
            return True
        if attr in self.generated_props or attr in self.method_names:
            return False
        anns = self.attr_annotations.get(attr)
        return bool(anns) and all(a in IMMUTABLE_ANNOTATIONS for a in anns)

    def immutable_elements_attr(self, attr):
        anns = self.attr_annotations.get(attr)
        return bool(anns) and all(a in IMMUTABLE_ELEMENT_ANNOTATIONS for a in anns) \
            and attr not in self.generated_props and attr not in self.method_names

    def defs(self, name, methods_only=False, funcs_only=False):
        out = []
        for fn in self.funcs.get(name, []):
            if fn.is_stub or fn.setter_of:
                continue
            if methods_only and fn.kind == "func":
                continue
            if funcs_only and fn.kind != "func":
                continue
            out.append(fn)
        return out

    def setters(self, name):
        return [fn for fn in self.funcs.get(name, []) if fn.setter_of == name]

    def ancestors(self, cname, seen=None):
        seen = seen if seen is not None else set()
        for (_f, _c, _n, bases) in self.classes.get(cname, []):
            for b in bases:
                if b not in seen:
                    seen.add(b)
                    self.ancestors(b, seen)
        return seen

    def family(self, cname):
        """classes whose __init__ may run when an instance of `cname` OR OF A SUBCLASS is constructed"""
        out = set()
        for d in list(self.classes):
            anc = self.ancestors(d)
            if d == cname or cname in anc:
                out |= {d} | anc
        return out or {cname}

    def dataclass_fields(self, cname):
        """ordered [(field, annotation)] of a dataclass named `cname` whose construction runs the generated __init__
        (no hand-written __init__ in the class or its ancestors, one definition of the name); else None"""
        defs = self.classes.get(cname, [])
        if len(defs) != 1:
            return None
        order = []

        def collect(name, seen):
            ds = self.classes.get(name, [])
            if len(ds) != 1 or name in seen:
                return name in ("ABC", "object", "Generic") or name in seen
            seen.add(name)
            (_f, _c, node, bases) = ds[0]
            if not any(ast.unparse(d).split("(")[0].endswith("dataclass") for d in node.decorator_list):
                return False
            for b in bases:
                if not collect(b, seen):
                    return False
            for st in node.body:
                if isinstance(st, (ast.FunctionDef,)) and st.name == "__init__":
                    return False
                if isinstance(st, ast.AnnAssign) and isinstance(st.target, ast.Name):
                    ann = ast.unparse(st.annotation).strip("'\"")
                    if ann.startswith("ClassVar"):
                        continue
                    order[:] = [(k, a) for k, a in order if k != st.target.id] + [(st.target.id, ann)]
            return True
        return order if collect(cname, set()) and order else None

    def inits(self, cname=None, subclasses=False):
        """__init__ / __post_init__ a construction of class `cname` may run (None: of any class)"""
        out = []
        if cname is None:
            names = None
        elif subclasses:
            names = self.family(cname)
        else:
            names = {cname} | self.ancestors(cname)
        for nm in ("__init__", "__post_init__"):
            for fn in self.funcs.get(nm, []):
                if fn.is_stub:
                    continue
                if names is None or fn.cls in names:
                    out.append(fn)
        return out


# ------------------------------------------------------------------------------------------------ translation
A, L, H = "A", "L", "H"     # source kinds: alias / load / hold


def uniq(src):
    out = []
    for s in src:
        if s not in out:
            out.append(s)
    return out


def load_of(src):
    return uniq([(L, v) for _k, v in src])


def hold_of(src):
    return uniq([(H, v) for _k, v in src])


class Translator:
    """one function body -> steps over numbered variables"""

    def __init__(self, index, fn, want):
        self.ix, self.fn, self.want = index, fn, want          # want(fn) registers a callee, returns its key
        self.imports = index.imports[fn.file]
        self.steps = []
        self.nested = {}           # name -> (FunctionDef, variable holding what it returns)
        self.names = {}            # python name -> current variable
        self.nvars = 0
        node = fn.node
        nonarg = set(NON_ARGUMENT_PARAMS.get(fn.name, []))
        if fn.kind == "class":
            nonarg.add(fn.pos[0])
        nonarg |= self.scalar_params(node)
        params = fn.pos + fn.kwonly + ([fn.vararg] if fn.vararg else []) + ([fn.kwarg] if fn.kwarg else [])
        self.args = [p for p in params if p not in nonarg]
        self.param_var = {}
        for p in self.args + [p for p in params if p in nonarg]:
            self.param_var[p] = self.names[p] = self.new()
        self.nargs = len(self.args)
        self.ret = self.new()
        for p in params:
            if p in nonarg:
                self.emit("alloc", self.names[p])
        self.locals = self._local_names(node)
        self.loop_scoped = self._loop_scoped(node)
        self.active_loop_names = []
        self.lazy_captured = self._captured(node)
        self.assign_exprs = self._assignments(node)

    @staticmethod
    def scalar_params(fnode):
        """parameters that can only carry an immutable value: annotated with an immutable type, or not annotated and
        defaulted to a bool / number / string constant.  They are not arguments in the sense of C14 (nothing to change,
        nothing to share) and do not seed the analysis."""
        a = fnode.args
        out = set()
        pos = a.posonlyargs + a.args
        defaults = [None] * (len(pos) - len(a.defaults)) + list(a.defaults)
        for p, d in list(zip(pos, defaults)) + list(zip(a.kwonlyargs, a.kw_defaults)):
            ann = ast.unparse(p.annotation).strip("'\"") if p.annotation is not None else None
            if ann is not None:
                if ann in IMMUTABLE_ANNOTATIONS or ann in ("float or None", "None | int", "None | float", "bool | None"):
                    out.add(p.arg)
            elif d is not None and isinstance(d, ast.Constant) and isinstance(d.value, (bool, int, float, str, bytes)) \
                    and d.value is not None:
                out.add(p.arg)
        return out

    # ---- bookkeeping
    def new(self):
        self.nvars += 1
        return self.nvars - 1

    def emit(self, *step):
        self.steps.append(tuple(step))

    def unknown(self, node, why=""):
        txt = node if isinstance(node, str) else ast.unparse(node)
        self.emit("unknown", (why + ": " if why else "") + " ".join(txt.split())[:160])

    def var_of(self, name):
        if name not in self.names:
            self.names[name] = self.new()
        return self.names[name]

    def bind(self, x, src):
        """x receives a value with these sources"""
        if not src or any(k == H for k, _ in src):
            self.emit("alloc", x)
        for k, v in uniq(src):
            if v == x and k == A:
                continue
            self.emit({A: "alias", L: "load", H: "hold"}[k], x, v)

    def tmp(self, src):
        """a variable standing for a value with these sources (no new variable for a plain alias of one variable)"""
        src = uniq(src)
        if len(src) == 1 and src[0][0] == A:
            return src[0][1]
        t = self.new()
        self.bind(t, src)
        return t

    @staticmethod
    def _local_names(fnode):
        out = set()
        for n in ast.walk(fnode):
            if isinstance(n, ast.Name) and isinstance(n.ctx, (ast.Store, ast.Del)):
                out.add(n.id)
            elif isinstance(n, ast.ExceptHandler) and n.name:
                out.add(n.name)
            elif isinstance(n, (ast.Import, ast.ImportFrom)):
                pass
        return out

    @staticmethod
    def _loop_scoped(fnode):
        """names bound ONLY as targets of for statements and read only inside a for statement that binds them: each
        such for statement may use its own variable (the value never flows from one loop to the next)"""
        binders = {}     # name -> number of non-for bindings
        for_nodes = [n for n in ast.walk(fnode) if isinstance(n, ast.For)]
        for_bound = {}
        for f in for_nodes:
            for m in ast.walk(f.target):
                if isinstance(m, ast.Name):
                    for_bound.setdefault(m.id, []).append(f)
        ok = set(for_bound)
        covered = {}     # id(Name node) -> covered
        for nm, fs in for_bound.items():
            inside = set()
            for f in fs:
                for m in ast.walk(f):
                    if isinstance(m, ast.Name) and m.id == nm:
                        inside.add(id(m))
            for m in ast.walk(fnode):
                if isinstance(m, ast.Name) and m.id == nm and id(m) not in inside:
                    ok.discard(nm)
            # any other binding form of the name inside (augmented assignment, plain assignment) disables it
            for m in ast.walk(fnode):
                if isinstance(m, ast.Name) and m.id == nm and isinstance(m.ctx, ast.Store):
                    if not any(any(x is m for x in ast.walk(f.target)) for f in fs):
                        ok.discard(nm)
            for a in fnode.args.posonlyargs + fnode.args.args + fnode.args.kwonlyargs:
                if a.arg == nm:
                    ok.discard(nm)
        return ok

    @staticmethod
    def _captured(fnode):
        """names read inside lambdas / generator expressions / nested functions (evaluated later than written)"""
        out = set()
        for n in ast.walk(fnode):
            if isinstance(n, (ast.Lambda, ast.GeneratorExp)) or (isinstance(n, (ast.FunctionDef, ast.AsyncFunctionDef)) and n is not fnode):
                for m in ast.walk(n):
                    if isinstance(m, ast.Name):
                        out.add(m.id)
        return out

    @staticmethod
    def _assignments(fnode):
        """name -> list of value expressions assigned to it by plain `name = expr` (None for any other binding)"""
        out = Translator._assignments_in(fnode)
        for p in fnode.args.posonlyargs + fnode.args.args + fnode.args.kwonlyargs:
            out.setdefault(p.arg, []).append(None)
        return out

    @staticmethod
    def _assignments_in(fnode):
        out = {}
        for n in ast.walk(fnode):
            if isinstance(n, ast.Assign):
                for t in n.targets:
                    if isinstance(t, ast.Name):
                        out.setdefault(t.id, []).append(n.value)
                    else:
                        for m in ast.walk(t):
                            if isinstance(m, ast.Name) and isinstance(m.ctx, ast.Store):
                                out.setdefault(m.id, []).append(None)
            elif isinstance(n, ast.AnnAssign) and isinstance(n.target, ast.Name) and n.value is not None:
                out.setdefault(n.target.id, []).append(n.value)
            elif isinstance(n, (ast.For, ast.comprehension)):
                for m in ast.walk(n.target):
                    if isinstance(m, ast.Name):
                        out.setdefault(m.id, []).append(None)
            elif isinstance(n, ast.AugAssign) and isinstance(n.target, ast.Name):
                out.setdefault(n.target.id, []).append(n.value if isinstance(n.op, ast.Add) else None)
            elif isinstance(n, (ast.With,)):
                for it in n.items:
                    if it.optional_vars is not None:
                        for m in ast.walk(it.optional_vars):
                            if isinstance(m, ast.Name):
                                out.setdefault(m.id, []).append(None)
            elif isinstance(n, ast.NamedExpr):
                out.setdefault(n.target.id, []).append(None)
        return out

    # ---- light, purely syntactic type evidence (only used to pick between two sound-enough readings, see tables)
    def module_of(self, e):
        """dotted canonical name of an expression that denotes an imported module / module member, else None"""
        if isinstance(e, ast.Name) and e.id not in self.locals and e.id not in self.fn.pos:
            d = self.imports.get(e.id)
            if d is None or d.split(".")[0] == "reamber" or e.id in self.ix.classes:
                return None
            return d
        if isinstance(e, ast.Attribute):
            m = self.module_of(e.value)
            return m + "." + e.attr if m else None
        return None

    def evident_container(self, e, depth=0):
        """the expression evidently builds a builtin list / dict / set / tuple"""
        if isinstance(e, (ast.List, ast.Dict, ast.Set, ast.Tuple, ast.ListComp, ast.DictComp, ast.SetComp)):
            return True
        if isinstance(e, ast.BinOp) and isinstance(e.op, (ast.Mult, ast.Add)):
            return self.evident_container(e.left, depth) or self.evident_container(e.right, depth)
        if isinstance(e, ast.Call):
            f = e.func
            if isinstance(f, ast.Name) and f.id in ("list", "dict", "set", "tuple", "sorted") and f.id not in self.locals:
                return True
            if depth < 2 and isinstance(f, ast.Attribute) and f.attr not in sum(METHODS.values(), []):
                targets = self.ix.defs(f.attr, methods_only=True)
                if targets and all(self._returns_container(t, depth + 1) for t in targets):
                    return True
        if isinstance(e, ast.Name) and e.id in self.locals and e.id not in self.fn.pos and depth < 6:
            busy = self.__dict__.setdefault("_cont_busy", set())
            if e.id in busy:
                return True
            vals = self.assign_exprs.get(e.id, [None])
            busy.add(e.id)
            try:
                return bool(vals) and all(v is not None and self.evident_container(v, depth + 1) for v in vals)
            finally:
                busy.discard(e.id)
        return False

    def _returns_container(self, fn, depth):
        rets = [n for n in ast.walk(fn.node) if isinstance(n, ast.Return)]
        if not rets or any(r.value is None for r in rets):
            return False
        sub = Translator.__new__(Translator)
        sub.ix, sub.fn, sub.imports = self.ix, fn, self.ix.imports[fn.file]
        sub.locals = self._local_names(fn.node)
        sub.assign_exprs = self._assignments(fn.node)
        return all(sub.evident_container(r.value, depth) for r in rets)

    def evident_frame(self, e, depth=0):
        """the expression evidently denotes a pandas / numpy object"""
        if isinstance(e, ast.Attribute) and e.attr in FRAME_ATTRS:
            return True
        if isinstance(e, ast.Call):
            f = e.func
            m = self.module_of(f)
            if m in FRAME_RETURNING_FUNCS:
                return True
            if isinstance(f, ast.Attribute) and f.attr in FRAME_RETURNING_METHODS and self.evident_frame(f.value, depth):
                return True
        if isinstance(e, ast.Subscript):
            v = e.value
            if isinstance(v, ast.Attribute) and v.attr in ("loc", "iloc", "at", "iat"):
                v = v.value
            return self.evident_frame(v, depth)
        if isinstance(e, ast.Name) and e.id in self.locals and e.id not in self.fn.pos and depth < 6:
            # every assignment to the name builds a frame (a name defined from itself, df = df.drop(..), is assumed so
            # while its other assignments are checked)
            busy = self.__dict__.setdefault("_frame_busy", set())
            if e.id in busy:
                return True
            vals = self.assign_exprs.get(e.id, [None])
            busy.add(e.id)
            try:
                return bool(vals) and all(v is not None and self.evident_frame(v, depth + 1) for v in vals)
            finally:
                busy.discard(e.id)
        return False

    def elements_immutable(self, e, depth=0):
        """iterating / unpacking / indexing the value of e yields immutable values only: a column declared numeric (or
        object with a str default) by every item class (`_props`), an attribute annotated List[str].., arithmetic on
        such columns, their .tolist() / .to_numpy() / .astype(..), a property of the package that returns such a value"""
        if depth > 3:
            return False
        if isinstance(e, ast.Attribute):
            if self.ix.immutable_cells(e.attr) or self.ix.immutable_elements_attr(e.attr):
                return True
            getters = [fn for fn in self.ix.funcs.get(e.attr, []) if fn.is_property and not fn.is_stub]
            if getters and len(getters) == len([fn for fn in self.ix.funcs.get(e.attr, []) if not fn.setter_of and not fn.is_stub]):
                ok = True
                for fn in getters:
                    rets = [n for n in ast.walk(fn.node) if isinstance(n, ast.Return)]
                    ok = ok and bool(rets) and all(r.value is not None and self.elements_immutable(r.value, depth + 1) for r in rets)
                return ok
            return False
        if isinstance(e, ast.BinOp):
            l, r = self.elements_immutable(e.left, depth + 1), self.elements_immutable(e.right, depth + 1)
            scalar = lambda x: isinstance(x, ast.Constant) or isinstance(x, ast.Name)
            return (l and (r or scalar(e.right))) or (r and scalar(e.left))
        if isinstance(e, ast.Call) and isinstance(e.func, ast.Attribute) and e.func.attr in ("tolist", "to_numpy", "astype", "to_list") \
                and not e.args:
            return self.elements_immutable(e.func.value, depth + 1)
        return False

    def ev_elements(self, e):
        """sources of the ELEMENTS of e"""
        src = self.ev(e)
        if self.elements_immutable(e):
            return []
        return load_of(src)

    # ---- expressions -> sources
    def ev(self, e):
        m = getattr(self, "e_" + type(e).__name__, None)
        if m is None:
            self.unknown(e, "expression " + type(e).__name__)
            return []
        return m(e)

    def e_Constant(self, e):
        return []

    def e_JoinedStr(self, e):
        for v in e.values:
            if isinstance(v, ast.FormattedValue):
                self.ev(v.value)
                if v.format_spec is not None:
                    self.ev(v.format_spec)
        return []

    def e_Name(self, e):
        if e.id in self.names or e.id in self.locals:
            return [(A, self.var_of(e.id))]
        return []                   # module-level name / builtin: shares nothing with any argument

    def e_Attribute(self, e):
        if self.module_of(e) is not None:
            return []
        src = self.ev(e.value)
        if self.ix.immutable_attr(e.attr):
            return []
        return load_of(src)

    def e_Subscript(self, e):
        src = self.ev(e.value)
        self.ev(e.slice)
        return load_of(src)

    def e_Slice(self, e):
        for p in (e.lower, e.upper, e.step):
            if p is not None:
                self.ev(p)
        return []

    def e_Starred(self, e):
        return self.ev_elements(e.value)

    def e_BinOp(self, e):
        src = self.ev(e.left) + self.ev(e.right)
        if isinstance(e.op, FRESH_BINOPS):
            return []        # arithmetic: a new number / array / frame (trusted: see FRESH_BINOPS)
        return hold_of(src)  # + * | & ^ : may be list / tuple / set building, the result keeps the operands' elements

    def e_UnaryOp(self, e):
        self.ev(e.operand)
        return []

    def e_BoolOp(self, e):
        out = []
        for v in e.values:
            out += self.ev(v)
        return uniq(out)

    def e_Compare(self, e):
        self.ev(e.left)
        for c in e.comparators:
            self.ev(c)
        return []

    def e_IfExp(self, e):
        self.ev(e.test)
        return uniq(self.ev(e.body) + self.ev(e.orelse))

    def e_NamedExpr(self, e):
        src = self.ev(e.value)
        self.bind(self.var_of(e.target.id), src)
        return src

    def _elts(self, elts):
        out = []
        for x in elts:
            out += self.ev(x)
        return hold_of(out)

    def e_List(self, e):
        return self._elts(e.elts)

    e_Tuple = e_List
    e_Set = e_List

    def e_Dict(self, e):
        out = []
        for k, v in zip(e.keys, e.values):
            if k is not None:
                self.ev(k)                  # DICT KEYS are hashable: taken as immutable values (trusted)
                out += self.ev(v)
            else:
                out += load_of(self.ev(v))
        return hold_of(out)

    def _scoped(self, names):
        """fresh variables for names whose scope is the construct being translated; -> what to restore"""
        saved = {nm: self.names.get(nm) for nm in names}
        for nm in names:
            self.names[nm] = self.new()
        return saved

    def _restore(self, saved):
        for nm, v in saved.items():
            if v is None:
                self.names.pop(nm, None)
            else:
                self.names[nm] = v

    def _comp(self, gens, elts):
        bound = [m.id for g in gens for m in ast.walk(g.target) if isinstance(m, ast.Name)]
        saved = self._scoped(bound)
        try:
            return self._comp_body(gens, elts)
        finally:
            self._restore(saved)

    def iter_target(self, target, it):
        """for <target> in <it>: elements are loads of the iterable; the first component of `.items()` pairs (a dict
        key) and of `enumerate(..)` pairs (a counter) is an immutable value"""
        if isinstance(it, ast.Call) and isinstance(it.func, ast.Name) and it.func.id == "zip" and "zip" not in self.locals \
                and not it.keywords and isinstance(target, (ast.Tuple, ast.List)) and len(target.elts) == len(it.args) \
                and not any(isinstance(x, ast.Starred) for x in list(target.elts) + list(it.args)):
            for tg, a in zip(target.elts, it.args):          # for a, b in zip(A, B): a from A, b from B
                self.assign_target(tg, self.ev_elements(a), weak=True)
            return
        src = self.ev_elements(it)
        first_immutable = isinstance(it, ast.Call) and (
            (isinstance(it.func, ast.Attribute) and it.func.attr == "items" and not it.args) or
            (isinstance(it.func, ast.Name) and it.func.id == "enumerate" and "enumerate" not in self.locals))
        if first_immutable and isinstance(target, (ast.Tuple, ast.List)) and len(target.elts) == 2 \
                and not any(isinstance(x, ast.Starred) for x in target.elts):
            self.assign_target(target.elts[0], [], weak=True)
            if isinstance(it.func, ast.Name) and it.args and self.elements_immutable(it.args[0]):
                src = []
            self.assign_target(target.elts[1], src, weak=True)
        else:
            self.assign_target(target, src, weak=True)

    def _comp_body(self, gens, elts):
        for g in gens:
            if g.is_async:
                self.unknown(g.iter, "async comprehension")
            self.iter_target(g.target, g.iter)
            for c in g.ifs:
                self.ev(c)
        out = []
        for x in elts:
            out += self.ev(x)
        return hold_of(out)

    def e_ListComp(self, e):
        return self._comp(e.generators, [e.elt])

    e_SetComp = e_ListComp
    e_GeneratorExp = e_ListComp

    def e_DictComp(self, e):
        bound = [m.id for g in e.generators for m in ast.walk(g.target) if isinstance(m, ast.Name)]
        saved = self._scoped(bound)
        try:
            self._comp_body(e.generators, [])
            self.ev(e.key)                  # keys: immutable (see e_Dict)
            return hold_of(self.ev(e.value))
        finally:
            self._restore(saved)

    def e_Yield(self, e):
        if e.value is not None:
            self.bind(self.ret, self.ev(e.value))
        return []

    def e_YieldFrom(self, e):
        self.bind(self.ret, load_of(self.ev(e.value)))
        return []

    def e_Lambda(self, e):
        self.unknown(e, "lambda outside a call")
        return []

    # ---- calls
    def _args(self, call, extra_receiver=None):
        """evaluate the arguments; lambdas last: their parameters may receive anything reachable from the other
        arguments and the receiver.  -> (positional sources, keyword sources {name: src}, star sources)"""
        pos, kw, star, lambdas = [], {}, [], []
        for a in call.args:
            if isinstance(a, ast.Lambda) or (isinstance(a, ast.Name) and a.id in self.nested):
                pos.append(None)
                lambdas.append((len(pos) - 1, None, a))
            elif isinstance(a, ast.Starred):
                star += load_of(self.ev(a.value))
            else:
                self._no_function_value(a)
                pos.append(self.ev(a))
        for k in call.keywords:
            if isinstance(k.value, ast.Lambda):
                lambdas.append((None, k.arg, k.value))
            elif k.arg is None:
                star += load_of(self.ev(k.value))
            else:
                self._no_function_value(k.value)
                kw[k.arg] = self.ev(k.value)
        if lambdas:
            feed = list(extra_receiver or []) + star
            for p in pos:
                feed += p or []
            for v in kw.values():
                feed += v
            for (pi, kname, lam) in lambdas:
                if isinstance(lam, ast.Name):      # a nested function passed as a callback
                    fnode, rv = self.nested[lam.id]
                    for p in fnode.args.posonlyargs + fnode.args.args + fnode.args.kwonlyargs:
                        self.bind(self.var_of(p.arg), load_of(feed))
                    res = [(A, rv)]
                    if pi is not None:
                        pos[pi] = res
                    else:
                        kw[kname] = res
                    continue
                la = lam.args
                lps = [p.arg for p in la.posonlyargs + la.args + la.kwonlyargs + ([la.vararg] if la.vararg else []) + ([la.kwarg] if la.kwarg else [])]
                saved = self._scoped(lps)
                for p in lps:
                    self.bind(self.var_of(p), load_of(feed))
                res = self.ev(lam.body)
                self._restore(saved)
                if pi is not None:
                    pos[pi] = res
                else:
                    kw[kname] = res
        return pos, kw, star

    def _no_function_value(self, a):
        """a reamber function / bound method handed over as a VALUE would be called by the callee: not followed"""
        if isinstance(a, ast.Name) and a.id not in self.locals and a.id not in self.names and self.ix.defs(a.id, funcs_only=True):
            self.unknown(a, "reamber function passed as a value")
        if isinstance(a, ast.Attribute) and a.attr in self.ix.method_names and a.attr not in self.ix.generated_props \
                and not any(fn.is_property for fn in self.ix.funcs.get(a.attr, [])) and a.attr not in self.ix.attr_annotations:
            self.unknown(a, "reamber method passed as a value")

    @staticmethod
    def _all(pos, kw, star):
        out = list(star)
        for p in pos:
            out += p
        for v in kw.values():
            out += v
        return uniq(out)

    def _bindings(self, fn, recv_src, pos, kw, star, dynamic_self=False):
        """[(callee parameter name, sources)] or None when the call cannot be a call of fn"""
        params = list(fn.pos)
        binds = []
        if fn.kind in ("method", "class") and not dynamic_self:
            if not params:
                return None
            first = params.pop(0)
            if fn.kind == "method":
                binds.append((first, recv_src))
        elif fn.kind in ("method", "class") and dynamic_self:
            first = params.pop(0)
            binds.append((first, recv_src))
        if len(pos) > len(params) and not fn.vararg:
            return None
        for i, s in enumerate(pos):
            if i < len(params):
                binds.append((params[i], s))
            else:
                binds.append((fn.vararg, hold_of(s)))
        given = set(params[:len(pos)])
        for k, s in kw.items():
            if k in given:
                return None
            if k in params or k in fn.kwonly:
                binds.append((k, s))
                given.add(k)
            elif fn.kwarg:
                binds.append((fn.kwarg, hold_of(s)))
            else:
                return None
        if star:
            for p in params + fn.kwonly + [x for x in (fn.vararg, fn.kwarg) if x]:
                if p not in given:
                    binds.append((p, load_of(star)))
        else:
            required = params[:len(params) - fn.ndefaults] if fn.ndefaults else params
            if any(p not in given for p in required):
                return None
        return binds

    def call_targets(self, x, targets):
        """emit one ECallListed; targets = [(Fn, binds)]"""
        ts = []
        for fn, binds in targets:
            key = self.want(fn)
            ts.append((key, [(p, self.tmp(s)) for p, s in binds if s]))
        if ts:
            self.emit("call", x, ts)

    def construct(self, call, cname, recv_src=None, subclasses=False):
        """Cls(args): a new object that keeps references to its arguments; every __init__ / __post_init__ the class
        may run is called on it (cname None: the class is computed - every __init__ of the package that fits)"""
        pos, kw, star = self._args(call, recv_src)
        x = self.new()
        self.emit("alloc", x)
        fields = self.ix.dataclass_fields(cname) if (cname and not subclasses and not star) else None
        if fields is not None and len(pos) <= len(fields) and all(k in dict(fields) for k in kw):
            # generated __init__ of a dataclass: a field annotated with an immutable type receives a value, not a reference
            held = []
            for (fname, ann), src in list(zip(fields, pos)) + [((k, dict(fields)[k]), v) for k, v in kw.items()]:
                if ann not in IMMUTABLE_ANNOTATIONS:
                    held += src
        else:
            held = self._all(pos, kw, star)
        for k, v in hold_of(held):
            self.emit("hold", x, v)
        targets = []
        for fn in self.ix.inits(cname, subclasses):
            b = self._bindings(fn, [(A, x)], pos, kw, star) if fn.name == "__init__" else [(fn.pos[0], [(A, x)])]
            if b is not None:
                targets.append((fn, b))
        r = self.new()
        self.call_targets(r, targets)
        return [(A, x)]

    def e_Call(self, e):
        f = e.func
        text = ast.unparse(e)
        # --- super(...).meth(...)
        if isinstance(f, ast.Attribute) and isinstance(f.value, ast.Call) and isinstance(f.value.func, ast.Name) \
                and f.value.func.id == "super":
            sup = f.value
            if len(sup.args) == 2:
                cname = ast.unparse(sup.args[0])
                recv = self.ev(sup.args[1])
            elif not sup.args and self.fn.cls:
                cname, recv = self.fn.cls, [(A, self.var_of(self.fn.pos[0]))]
            else:
                self.unknown(e, "super")
                return []
            anc = self.ix.ancestors(cname)
            cands = [fn for fn in self.ix.defs(f.attr, methods_only=True) if fn.cls in anc]
            return self._call_defs(e, cands, recv, [], require=True)
        # --- module function  pd.concat(...), np.where(...), codecs.encode(...)
        m = self.module_of(f)
        if m is not None:
            return self._module_call(e, m)
        if isinstance(f, ast.Name):
            return self._name_call(e, f.id)
        if isinstance(f, ast.Attribute):
            return self._method_call(e, f)
        # --- computed callee: (expr)(args)  e.g. self._item_class()(**d), type(x)(..)
        self.ev(f)
        return self.construct(e, None)

    def _module_call(self, e, m):
        pos, kw, star = self._args(e)
        allsrc = self._all(pos, kw, star)
        tail = m.split(".")[-1]
        if m.startswith("reamber."):
            # `from reamber.x import name` : a reamber function or class
            return self._name_call(e, tail, pre=(pos, kw, star))
        for cat in ("fresh", "shallow", "view"):
            if m in MODULE_FUNCS[cat]:
                return {"fresh": [], "shallow": hold_of(load_of(allsrc)) + hold_of(allsrc), "view": load_of(allsrc)}[cat]
        if m.split(".")[0] in ("typing",):
            return []
        self.unknown(e, "callee " + m)
        return []

    def _name_call(self, e, name, pre=None):
        if self.fn.kind == "class" and name == self.fn.pos[0]:
            return self.construct(e, self.fn.cls, subclasses=True)          # cls(..): the class or any subclass
        if name in self.nested:
            return self._nested_call(e, name)
        if name in self.names or name in self.locals:
            # a local variable is called: a class held in a variable (SvList = m.svs.__class__) constructs
            vals = self.assign_exprs.get(name, [None])
            if all(v is not None and ast.unparse(v).endswith(".__class__") or
                   (isinstance(v, ast.Call) and isinstance(v.func, ast.Name) and v.func.id == "type") for v in vals):
                return self.construct(e, None)
            self.unknown(e, "call of local variable " + name)
            return []
        if name == "cls" or name in self.ix.classes:
            pass
        dotted = self.imports.get(name)
        if dotted and not dotted.startswith("reamber") and name not in self.ix.classes and not self.ix.defs(name, funcs_only=True):
            canon = {"pd": "pandas", "np": "numpy"}.get(dotted.split(".")[0], dotted.split(".")[0]) + "." + ".".join(dotted.split(".")[1:])
            canon = canon.rstrip(".")
            if any(canon in MODULE_FUNCS[c] for c in MODULE_FUNCS):
                return self._module_call(e, canon)
        if name in self.ix.classes:
            return self.construct(e, name)
        funcs = self.ix.defs(name, funcs_only=True)
        if funcs:
            return self._call_defs(e, funcs, None, [], require=True)
        pos, kw, star = pre if pre is not None else self._args(e)
        allsrc = self._all(pos, kw, star)
        if name in BUILTIN_FUNCS["fresh"]:
            return []
        if name in BUILTIN_FUNCS["view"]:
            if name in ("min", "max", "next") and e.args and not any(isinstance(a, ast.Starred) for a in e.args) \
                    and all(self.elements_immutable(a) for a in e.args) \
                    and all(k.arg == "default" and isinstance(k.value, ast.Constant) for k in e.keywords):
                return []        # an element of a container whose elements are immutable values (see elements_immutable)
            return uniq(load_of(allsrc) + allsrc)
        if name in BUILTIN_FUNCS["shallow"]:
            if name in ("list", "tuple", "set", "frozenset", "sorted") and len(e.args) == 1 and not e.keywords \
                    and isinstance(e.args[0], ast.Attribute) and self.ix.immutable_elements_attr(e.args[0].attr):
                return []        # a new container of immutable elements
            return hold_of(load_of(allsrc)) + hold_of(allsrc)
        self.unknown(e, "callee " + name)
        return []

    def _call_defs(self, e, cands, recv_src, extra, require=False, args=None):
        """call of reamber definitions `cands` (all that fit); -> result sources, or None when none fits"""
        pos, kw, star = args if args is not None else self._args(e, recv_src)
        targets = []
        for fn in cands:
            b = self._bindings(fn, recv_src or [], pos, kw, star)
            if b is not None:
                targets.append((fn, b))
        if not targets:
            if require:
                self.unknown(e, "no definition fits the call")
            return None if not require else []
        x = self.new()
        self.call_targets(x, targets)
        return [(A, x)]

    def _method_call(self, e, f):
        meth = f.attr
        recv_e = f.value
        text = " ".join(ast.unparse(e).split())
        if meth == "__class__":                       # x.__class__(..): constructs an object of x's class
            if isinstance(recv_e, ast.Name) and self.fn.kind == "method" and recv_e.id == self.fn.pos[0] and self.fn.cls:
                return self.construct(e, self.fn.cls, self.ev(recv_e), subclasses=True)
            return self.construct(e, None, self.ev(recv_e))
        # receiver that is an inert global (logger)
        if isinstance(recv_e, ast.Name) and recv_e.id in INERT_GLOBAL_RECEIVERS and recv_e.id not in self.locals:
            self._args(e)
            return []
        # Class.method(...) on a reamber class named statically, or nested class construction  x.Stacker(...)
        if meth in self.ix.classes and not self.ix.defs(meth, methods_only=True):
            recv = self.ev(recv_e)
            return self.construct(e, meth, recv)
        recv = self.ev(recv_e)
        static_cls = isinstance(recv_e, ast.Name) and recv_e.id not in self.locals and recv_e.id not in self.names
        pos, kw, star = self._args(e, recv)
        allsrc = self._all(pos, kw, star)
        inplace = any(k.arg == "inplace" and not (isinstance(k.value, ast.Constant) and k.value.value is False)
                      for k in e.keywords)
        out = []
        known = False
        container = self.evident_container(recv_e)
        frame = self.evident_frame(recv_e)
        # 1. reamber definitions of that name (protocol hooks called explicitly are read like the syntax they
        #    implement: x.__getitem__(i) is x[i], x.__setitem__(k, v) is x[k] = v; each hook has its own obligation)
        if not (container or frame) and meth not in HOOK_NAMES:
            cands = self.ix.defs(meth, methods_only=True)
            if static_cls:
                anc = {recv_e.id} | self.ix.ancestors(recv_e.id)
                narrowed = [fn for fn in cands if fn.cls in anc]
                cands = narrowed or cands
                cands_b = []
                for fn in cands:
                    b = self._bindings(fn, recv, pos, kw, star) if fn.kind != "method" else \
                        self._bindings(fn, recv, pos, kw, star, dynamic_self=False) if not static_cls else None
                    if fn.kind == "method" and static_cls:
                        # Class.method(obj, ...) : the first positional argument is self
                        b = self._bindings(fn, pos[0] if pos else [], pos[1:], kw, star) if pos else None
                    if b is not None:
                        cands_b.append((fn, b))
            else:
                cands_b = []
                for fn in cands:
                    b = self._bindings(fn, recv, pos, kw, star)
                    if b is not None:
                        cands_b.append((fn, b))
            if cands_b:
                known = True
                x = self.new()
                self.call_targets(x, cands_b)
                out.append((A, x))
        # 2. builtin / pandas / numpy meaning of that name
        if meth == "copy":
            known = True
            deep = any(k.arg == "deep" and isinstance(k.value, ast.Constant) and k.value.value is True for k in e.keywords)
            if not (frame or deep):
                out += hold_of(load_of(recv))
        elif meth in METHODS["fresh"]:
            known = True
        elif meth in METHODS["shallow"]:
            known = True
            out += hold_of(load_of(recv + allsrc)) + hold_of(allsrc)
        elif meth in METHODS["view"]:
            known = True
            out += load_of(recv + allsrc)
        elif meth in METHODS["mutate"]:
            known = True
            column_copy = meth == "__setattr__" and self._from_empty(recv_e)
            t = self.tmp(recv)
            self.emit("write", t)
            deep = meth in ("__setitem__", "__setattr__", "__delitem__", "__delattr__") and not (container or frame)
            if deep:
                # may run a reamber __setitem__ / a generated property setter: a write below the object
                d = self.new()
                self.emit("reach", d, t)
                self.emit("write", d)
                if not column_copy:
                    for k, v in hold_of(allsrc):
                        self.emit("hold", d, v)
                        self.emit("hold", v, d)
            if not column_copy:
                for k, v in hold_of(allsrc):
                    self.emit("hold", t, v)
            out += load_of(recv)
        if inplace:
            t = self.tmp(recv)
            self.emit("write", t)
        if not known:
            self.unknown(e, "method ." + meth)
        return uniq(out)

    def _from_empty(self, e):
        """e is a local variable whose every assignment is `<something>.empty(..)`, and `empty` is, in the whole
        package, only the TimedList classmethod (see COLUMN_STORE_RECEIVER_FROM)"""
        if not (isinstance(e, ast.Name) and e.id in self.locals and e.id not in self.fn.pos):
            return False
        vals = self.assign_exprs.get(e.id, [None])
        defs = self.ix.defs(COLUMN_STORE_RECEIVER_FROM, methods_only=True)
        if not defs or any(not (fn.kind == "class" and fn.cls == "TimedList") for fn in defs):
            return False
        return bool(vals) and all(
            v is not None and isinstance(v, ast.Call) and isinstance(v.func, ast.Attribute)
            and v.func.attr == COLUMN_STORE_RECEIVER_FROM for v in vals)

    # ---- assignment targets
    def assign_target(self, t, src, weak=True, aug=False):
        if isinstance(t, ast.Name):
            x = self.var_of(t.id)
            if not weak and t.id not in self.lazy_captured:
                x = self.new()
                self.names[t.id] = x
            self.bind(x, src)
        elif isinstance(t, (ast.Tuple, ast.List)):
            for el in t.elts:
                self.assign_target(el.value if isinstance(el, ast.Starred) else el, load_of(src), weak=True)
        elif isinstance(t, ast.Starred):
            self.assign_target(t.value, load_of(src), weak=True)
        elif isinstance(t, ast.Attribute):
            self.store_attr(t, src, aug)
        elif isinstance(t, ast.Subscript):
            self.store_item(t, src, aug)
        else:
            self.unknown(t, "assignment target")

    def store_attr(self, t, src, aug):
        base = self.ev(t.value)
        if not base:
            self.unknown(t, "write to a module-level object")
            return
        b = self.tmp(base)
        attr = t.attr
        setters = self.ix.setters(attr)
        generated = attr in self.ix.generated_props
        v = self.tmp(src) if src else None
        self.emit("write", b)
        if v is not None:
            self.emit("hold", b, v)
        if self.evident_frame(t.value):
            return      # frame.col = v / frame.col op= v : pandas sets a column of that frame, nothing below it
        if aug and not generated and not setters and self.ix.immutable_attr(attr):
            return      # x.field op= v on a field annotated as an immutable value: the attribute is re-bound, nothing changes in place
        if generated or aug:
            # a generated property setter writes below the object (self.df[k] = v, self.objs[k].df = v.df,
            # stacker[k] = v -> _update()); an augmented assignment may also change the old value in place
            d = self.new()
            self.emit("reach", d, b)
            self.emit("write", d)
            if v is not None:
                self.emit("hold", d, v)
        # (stack_props: the setter is self[k] = val -> a reamber __setitem__: covered by the write below the object;
        #  every __setitem__ of the package is a hook with the obligation that it changes nothing but its receiver)
        if setters:
            ts = []
            for fn in setters:
                binds = [(fn.pos[0], [(A, b)])]
                if len(fn.pos) > 1 and v is not None:
                    binds.append((fn.pos[1], [(A, v)]))
                ts.append((fn, binds))
            self.call_targets(self.new(), ts)

    def _setitem_hooks(self, b, v):
        ts = []
        for fn in self.ix.defs("__setitem__", methods_only=True):
            binds = [(fn.pos[0], [(A, b)])]
            if len(fn.pos) > 2 and v is not None:
                binds.append((fn.pos[2], [(A, v)]))
            ts.append((fn, binds))
        if ts:
            self.call_targets(self.new(), ts)

    def store_item(self, t, src, aug):
        recv_e = t.value
        # df.loc[...] = v / df.iloc[...] = v / df.at[...] = v : a write to df
        if isinstance(recv_e, ast.Attribute) and recv_e.attr in ("loc", "iloc", "at", "iat"):
            recv_e = recv_e.value
        base = self.ev(recv_e)
        self.ev(t.slice)
        if not base:
            self.unknown(t, "write to a module-level object")
            return
        b = self.tmp(base)
        v = self.tmp(src) if src else None
        self.emit("write", b)
        if v is not None:
            self.emit("hold", b, v)
        if aug:
            d = self.new()
            self.emit("load", d, b)      # x[k] op= v may change the old element in place
            self.emit("write", d)
        if not (self.evident_container(recv_e) or self.evident_frame(recv_e)):
            # may be a reamber __setitem__: everything the receiver reaches may change and be linked with the value
            d = self.new()
            self.emit("reach", d, b)
            self.emit("write", d)
            if v is not None:
                self.emit("hold", d, v)
                self.emit("hold", v, d)

    # ---- statements
    def block(self, stmts, top=False):
        for i, s in enumerate(stmts):
            if top and isinstance(s, (ast.Assign, ast.AnnAssign)):
                # type evidence for a name re-bound at the top level: only the assignments of this segment count
                tg = s.targets if isinstance(s, ast.Assign) else [s.target]
                for t in tg:
                    if isinstance(t, ast.Name) and t.id not in self.lazy_captured:
                        j = i + 1
                        while j < len(stmts) and not (isinstance(stmts[j], ast.Assign) and any(
                                isinstance(x, ast.Name) and x.id == t.id for x in stmts[j].targets)):
                            j += 1
                        seg = ast.Module(body=list(stmts[i:j]), type_ignores=[])
                        self.assign_exprs[t.id] = self._assignments_in(seg).get(t.id, [None])
            m = getattr(self, "s_" + type(s).__name__, None)
            if m is None:
                self.unknown(s, "statement " + type(s).__name__)
            else:
                m(s, top)

    def s_Expr(self, s, top):
        if isinstance(s.value, ast.Constant):
            return
        self.ev(s.value)

    def s_Pass(self, s, top):
        pass

    s_Break = s_Continue = s_Pass

    def s_Import(self, s, top):
        for a in s.names:
            self.imports[a.asname or a.name.split(".")[0]] = a.name if a.asname else a.name.split(".")[0]

    def s_ImportFrom(self, s, top):
        for a in s.names:
            self.imports[a.asname or a.name] = (s.module or "") + "." + a.name

    def s_FunctionDef(self, s, top):
        """a nested function: translated in place like a named lambda (its parameters are bound where it is called or
        handed over as a callback); decorators, defaults with effects, nonlocal writes are not supported"""
        if s.decorator_list or s.args.vararg or s.args.kwarg or any(isinstance(n, (ast.Nonlocal, ast.Global, ast.Yield, ast.YieldFrom))
                                                                    for n in ast.walk(s)):
            self.unknown(s, "nested function")
            return
        rv = self.new()
        self.nested[s.name] = (s, rv)
        saved_ret = self.ret
        self.ret = rv
        self.block(s.body)
        self.ret = saved_ret

    def _nested_call(self, e, name):
        fnode, rv = self.nested[name]
        pos, kw, star = self._args(e)
        params = [p.arg for p in fnode.args.posonlyargs + fnode.args.args]
        for i, src in enumerate(pos):
            if i < len(params):
                self.bind(self.var_of(params[i]), src)
            else:
                self.unknown(e, "too many arguments for nested function")
        for k, src in kw.items():
            self.bind(self.var_of(k), src)
        for p in params:
            if star:
                self.bind(self.var_of(p), load_of(star))
        return [(A, rv)]

    def s_Assign(self, s, top):
        src = self.ev(s.value)
        for t in s.targets:
            self.assign_target(t, src, weak=not (top and isinstance(t, ast.Name)))

    def s_AnnAssign(self, s, top):
        if s.value is None:
            return
        src = self.ev(s.value)
        self.assign_target(s.target, src, weak=not (top and isinstance(s.target, ast.Name)))

    def s_AugAssign(self, s, top):
        src = self.ev(s.value)
        t = s.target
        if isinstance(t, ast.Name):
            x = self.var_of(t.id)
            self.emit("write", x)               # lists / arrays are changed in place by op=
            for k, v in hold_of(src):
                self.emit("hold", x, v)
        elif isinstance(t, ast.Attribute):
            old = load_of(self.ev(t.value))
            self.store_attr(t, hold_of(old + src), aug=True)
        elif isinstance(t, ast.Subscript):
            old = load_of(self.ev(t.value))
            self.store_item(t, hold_of(old + src), aug=True)
        else:
            self.unknown(s, "augmented assignment target")

    def s_Return(self, s, top):
        if s.value is not None:
            self.bind(self.ret, self.ev(s.value))

    def s_If(self, s, top):
        self.ev(s.test)
        self.block(s.body)
        self.block(s.orelse)

    def s_While(self, s, top):
        self.ev(s.test)
        self.block(s.body)
        self.block(s.orelse)

    def s_For(self, s, top):
        for nm in [m.id for m in ast.walk(s.target) if isinstance(m, ast.Name)]:
            if nm in self.loop_scoped and nm not in self.active_loop_names:
                self.names[nm] = self.new()          # this loop's own variable (see _loop_scoped)
        mine = [m.id for m in ast.walk(s.target) if isinstance(m, ast.Name) and m.id not in self.active_loop_names]
        self.active_loop_names += mine
        self.iter_target(s.target, s.iter)
        self.block(s.body)
        self.block(s.orelse)
        for nm in mine:
            self.active_loop_names.remove(nm)

    def _old_For(self, s, top):
        self.assign_target(s.target, load_of(self.ev(s.iter)), weak=True)
        self.block(s.body)
        self.block(s.orelse)

    def s_With(self, s, top):
        for it in s.items:
            src = self.ev(it.context_expr)
            if it.optional_vars is not None:
                self.assign_target(it.optional_vars, src, weak=True)
        self.block(s.body)

    def s_Try(self, s, top):
        self.block(s.body)
        for h in s.handlers:
            if h.type is not None:
                self.ev(h.type)
            if h.name:
                self.bind(self.var_of(h.name), [])
            self.block(h.body)
        self.block(s.orelse)
        self.block(s.finalbody)

    def s_Raise(self, s, top):
        if s.exc is not None:
            self.ev(s.exc)
        if s.cause is not None:
            self.ev(s.cause)

    def s_Assert(self, s, top):
        self.ev(s.test)
        if s.msg is not None:
            self.ev(s.msg)

    def s_Delete(self, s, top):
        for t in s.targets:
            if isinstance(t, (ast.Subscript, ast.Attribute)):
                base = self.ev(t.value)
                if base:
                    b = self.tmp(base)
                    self.emit("write", b)
                    d = self.new()
                    self.emit("reach", d, b)
                    self.emit("write", d)
                else:
                    self.unknown(s, "del on a module-level object")
            elif not isinstance(t, ast.Name):
                self.unknown(s, "del")

    def run(self):
        self.block(self.fn.node.body, top=True)
        return self


# ------------------------------------------------------------------------------------------------ whole table
def build(root=None):
    """-> (ordered list of entries, index).  entry: dict(name, key, listed, copy, hook, nargs, ret, nvars, steps)"""
    ix = Index(root or repo_root())
    order, done = [], {}

    def want(fn):
        if fn.key not in done:
            done[fn.key] = None
            order.append(fn.key)
        return fn.key

    entries = {}
    listed_names = {}
    for name, key, is_copy in LISTED:
        full = key
        fn = ix.by_key.get(full)
        # overload stubs share the key: take the definition with a body
        if fn is None or fn.is_stub:
            alts = [f for k, f in ix.by_key.items() if (k == full or k.startswith(full + "#")) and not f.is_stub]
            fn = alts[0] if alts else None
        if fn is None:
            raise ValueError(f"listed operation {name} not found at {key}")
        listed_names[fn.key] = (name, is_copy)
        want(fn)
    # a listed METHOD stands for every definition of that method in the class family (overrides in the games'
    # subclasses are what a call on a chart / list of that game runs): same obligations
    for name, key, is_copy in list(LISTED):
        fn0 = next(f for k, f in ix.by_key.items() if (k == key or k.startswith(key + "#")) and not f.is_stub)
        if fn0.cls is None:
            continue
        fam = ix.family(fn0.cls)
        for fn in ix.defs(fn0.name, methods_only=True):
            if fn.cls in fam and fn.key not in listed_names and len(fn.clschain) == 1:
                listed_names[fn.key] = (fn.short, is_copy)
                want(fn)
    hooks = set()
    for hn in HOOK_NAMES:
        for fn in ix.defs(hn, methods_only=True):
            hooks.add(fn.key)
            want(fn)
    for fns in list(ix.funcs.values()):
        for fn in fns:
            if fn.is_property and not fn.is_stub and fn.clschain and not fn.file.startswith("base/Property.py"):
                hooks.add(fn.key)
                want(fn)
    i = 0
    while i < len(order):
        key = order[i]
        i += 1
        fn = ix.by_key[key]
        tr = Translator(ix, fn, want).run()
        name, is_copy = listed_names.get(key, (None, False))
        entries[key] = dict(name=name or fn.short, key=key, lineno=fn.node.lineno, listed=key in listed_names, copy=is_copy, hook=key in hooks,
                            nargs=tr.nargs, ret=tr.ret, nvars=tr.nvars, steps=tr.steps, params=dict(tr.param_var))
    return [entries[k] for k in order], ix


def coq_string(s):
    s = " ".join(str(s).split())
    s = "".join(c if 32 <= ord(c) < 127 else "?" for c in s)[:200]
    return '"' + s.replace('"', '""') + '"%string'


def n(v):
    return f"{int(v)}%N"


TYPES = """(* syntax of what the translator (harness/tables/effects.py) emits for a function body - fixed text *)
Inductive estep :=
| EAlloc (x : N)                 (* x is a new object / immutable value *)
| EAliasOf (x y : N)             (* x is the object y *)
| ELoad (x y : N)                (* x is y or something y refers to: attribute, element, view *)
| EReach (x y : N)               (* x is anything reachable from y, at any depth (target of a write "below" y) *)
| EHold (x y : N)                (* the object x keeps a reference to y *)
| EWrite (x : N)                 (* the object x is changed in place *)
| ECallListed (x : N) (targets : list (N * list (N * N)))   (* x := f(..), every f the name may denote: (index, [(param, arg)]) *)
| EReturn (x : N)                (* the function returns / yields x *)
| EUnknown (txt : string).       (* NOT classified: the program is neither pure nor owned *)
Record efun := mkFun {
  ef_name : string; ef_listed : bool; ef_copy : bool; ef_hook : bool;
  ef_nargs : N;                  (* the arguments are the variables 0 .. nargs-1 (self first) *)
  ef_ret : N; ef_nvars : N; ef_body : list estep }."""


def step_text(st, pos_of, entry_of):
    k = st[0]
    if k == "alloc":
        return f"EAlloc {n(st[1])}"
    if k == "alias":
        return f"EAliasOf {n(st[1])} {n(st[2])}"
    if k == "load":
        return f"ELoad {n(st[1])} {n(st[2])}"
    if k == "hold":
        return f"EHold {n(st[1])} {n(st[2])}"
    if k == "reach":
        return f"EReach {n(st[1])} {n(st[2])}"
    if k == "write":
        return f"EWrite {n(st[1])}"
    if k == "unknown":
        return f"EUnknown {coq_string(st[1])}"
    if k == "call":
        ts = []
        for key, binds in st[2]:
            callee = entry_of[key]
            bs = "; ".join(f"({n(callee['params'][p])}, {n(a)})" for p, a in binds)
            ts.append(f"({n(pos_of[key])}, [{bs}])")
        return f"ECallListed {n(st[1])} [{'; '.join(ts)}]"
    raise ValueError(st)


def generate():
    entries, _ix = build()
    pos_of = {e["key"]: i for i, e in enumerate(entries)}
    entry_of = {e["key"]: e for e in entries}
    lines = TYPES.split("\n")
    defs = []
    for i, e in enumerate(entries):
        body = []
        for st in e["steps"]:
            if st[0] == "alias" and st[1] == e["ret"]:
                body.append(f"EReturn {n(st[2])}")
            elif st[1] == e["ret"] and st[0] in ("load", "hold", "alloc"):
                # a returned expression that is not a plain variable: through a temporary
                body.append(step_text(st, pos_of, entry_of))
            else:
                body.append(step_text(st, pos_of, entry_of))
        b = lambda v: "true" if v else "false"
        lines.append(f"(* {i}: {e['key']} *)")
        lines.append(f"Definition f{i} : efun := mkFun {coq_string(e['name'])} {b(e['listed'])} {b(e['copy'])} {b(e['hook'])} "
                     f"{n(e['nargs'])} {n(e['ret'])} {n(e['nvars'])} [{'; '.join(body)}].")
        defs.append(f"f{i}")
    lines.append(f"Definition c14_effects : list efun := [{'; '.join(defs)}].")
    lines.append("Definition c14_op_index : list (string * N) := ["
                 + "; ".join(f"({coq_string(e['name'])}, {n(i)})" for i, e in enumerate(entries) if e["listed"]) + "].")
    return lines


_FUNC_INDEX = None


def function_index(func):
    """index in c14_effects of the LISTED program translated from the source of this (live) function object; KeyError when
    the function has no listed program (used by harness/props/c14.py to name what a call ran: Python's own dispatch
    picks the definition, the table is looked up by file and qualified name)"""
    global _FUNC_INDEX
    if _FUNC_INDEX is None:
        entries, _ = build()
        _FUNC_INDEX = {}
        for i, e in enumerate(entries):
            if e["listed"]:
                _FUNC_INDEX.setdefault(e["key"].split("#")[0], i)
    func = getattr(func, "__func__", func)
    func = getattr(func, "fget", func) or func
    code = func.__code__
    rel = os.path.relpath(os.path.realpath(code.co_filename), os.path.join(os.path.realpath(repo_root()), "reamber"))
    return _FUNC_INDEX[rel + ":" + func.__qualname__]


def tables_markdown():
    out = []

    def tab(title, d):
        out.append(f"**{title}**")
        for k in d:
            out.append(f"- {k}: " + ", ".join(f"`{x}`" for x in d[k]))
        out.append("")
    tab("global functions (BUILTIN_FUNCS)", BUILTIN_FUNCS)
    tab("module functions (MODULE_FUNCS)", MODULE_FUNCS)
    tab("methods by name (METHODS)", METHODS)
    out.append("**immutable attribute names**: " + ", ".join(f"`{x}`" for x in IMMUTABLE_ATTR_NAMES)
               + "; dataclass fields annotated " + ", ".join(f"`{x}`" for x in IMMUTABLE_ANNOTATIONS))
    out.append("**frame attributes**: " + ", ".join(f"`{x}`" for x in FRAME_ATTRS))
    out.append("**hooks**: " + ", ".join(f"`{x}`" for x in HOOK_NAMES))
    out.append("**column stores that copy**: `x.__setattr__(column, values)` where every assignment of the local `x` is "
               f"`<class>.{COLUMN_STORE_RECEIVER_FROM}(n)` (a new TimedList): x is changed, keeps no reference to the values")
    return "\n".join(out)



# ------------------------------------------------------------------------------------------------ diagnostics
# NOT part of the check and NOT trusted: a Python mirror of Store/EffectsInline.v (`inline`) and Store/Effects.v (the
# iteration), with provenance, to see WHY the analysis calls an operation impure / not owned:
#     python -m harness.tables.effects --explain <operation name> [<repo root>]
DEPTH = 12
ARG = "ARG"

def flatten(ents, ent):
    bykey = {e["key"]: e for e in ents}
    flat, names = [], {}
    counter = [ent["nvars"]]
    def vname(e, v):
        inv = {vv: k for k, vv in e["params"].items()}
        return inv.get(v, "ret" if v == e["ret"] else f"v{v}")
    def inl(fuel, e, base, chain, stack):
        if fuel == 0:
            flat.append(("unknown", None, None, chain + ("DEPTH",))); return
        for v in range(e["nvars"]):
            names[base + v] = "/".join(chain) + ":" + vname(e, v)
        for st in e["steps"]:
            k = st[0]
            if k in ("alloc", "write"):
                flat.append((k, base + st[1], None, chain))
            elif k in ("alias", "load", "hold", "reach"):
                flat.append((k, base + st[1], base + st[2], chain))
            elif k == "unknown":
                flat.append(("unknown", None, None, chain + (st[1],)))
            elif k == "call":
                for key, binds in st[2]:
                    g = bykey[key]
                    act = dict(stack).get(key)
                    if act is not None:
                        for p, a in binds:
                            flat.append(("alias", act + g["params"][p], base + a, chain + ("rec-bind " + g["name"],)))
                        flat.append(("alias", base + st[1], act + g["ret"], chain + ("rec-ret " + g["name"],)))
                    else:
                        b = counter[0]; counter[0] += g["nvars"]
                        for p, a in binds:
                            flat.append(("alias", b + g["params"][p], base + a, chain + ("bind " + g["name"],)))
                        inl(fuel - 1, g, b, chain + (g["name"],), stack + [(key, b)])
                        flat.append(("alias", base + st[1], b + g["ret"], chain + ("ret " + g["name"],)))
    inl(DEPTH, ent, 0, (ent["name"],), [(ent["key"], 0)])
    return flat, names

def solve(flat, nargs):
    pts, heap, why = {}, {}, {}
    def P(x): return pts.setdefault(x, set())
    def Hh(o): return {ARG} if o == ARG else heap.setdefault(o, set())
    def reach(s):
        out = set(s)
        for o in s: out |= Hh(o)
        return out
    for i in range(nargs):
        P(i).add(ARG); why[("p", i, ARG)] = None
    changed = True
    rounds = 0
    while changed:
        changed = False; rounds += 1
        for idx, (k, x, y, ch) in enumerate(flat):
            if k == "alloc":
                if ("s", x) not in P(x): P(x).add(("s", x)); changed = True
            elif k == "alias":
                for o in list(P(y)):
                    if o not in P(x): P(x).add(o); why[("p", x, o)] = (("p", y, o), idx); changed = True
            elif k == "load":
                for o in list(P(y)):
                    if o not in P(x): P(x).add(o); why[("p", x, o)] = (("p", y, o), idx); changed = True
                    for o2 in list(Hh(o)):
                        if o2 not in P(x): P(x).add(o2); why[("p", x, o2)] = (("h", o, o2) if o != ARG else ("p", y, o), idx); changed = True
            elif k == "reach":
                for o in list(P(y)):
                    if o not in P(x): P(x).add(o); why[("p", x, o)] = (("p", y, o), idx); changed = True
                for o in list(P(x)):
                    for o2 in list(Hh(o)):
                        if o2 not in P(x): P(x).add(o2); why[("p", x, o2)] = (("h", o, o2) if o != ARG else ("p", x, o), idx); changed = True
            elif k == "hold":
                for o in list(P(x)):
                    if o == ARG: continue
                    for o1 in list(P(y)):
                        if o1 not in Hh(o): Hh(o).add(o1); why[("h", o, o1)] = (("p", y, o1), idx); changed = True
    return pts, heap, why, rounds

def run(root, opname, show=3):
    ents, ix = build(root)
    ent = next(e for e in ents if e["name"] == opname and (e["listed"] or e["hook"]))
    flat, names = flatten(ents, ent)
    RD = -1
    names[RD] = "everything-reachable-from-result"
    flat.append(("reach", RD, ent["ret"], ("result",)))
    pts, heap, why, rounds = solve(flat, ent["nargs"])
    def nm(v): return names.get(v, v)
    def fact(f):
        if f[0] == "p": return f"{nm(f[1])} may be {f[2] if f[2]==ARG else 'site@'+str(nm(f[2][1]))}"
        return f"site@{nm(f[1][1])} refers to {f[2] if f[2]==ARG else 'site@'+str(nm(f[2][1]))}"
    def explain(f, limit=40):
        n = 0
        while f is not None and n < limit:
            w = why.get(f)
            if w is None:
                print("        ", fact(f), "  (argument)"); break
            src, idx = w
            st = flat[idx] if idx >= 0 else ("closure", None, None, ())
            print("        ", fact(f), f"   <- {st[0]} in {'/'.join(st[3][-2:])}")
            f = src; n += 1
    print(f"== {opname}: {len(flat)} flat steps, nargs={ent['nargs']}, rounds={rounds}, max pts={max(map(len, pts.values()))}, max heap={max([len(h) for h in heap.values()] or [0])}")
    bad = 0
    for (k, x, y, ch) in flat:
        if k == "unknown":
            print("  UNKNOWN", ch); bad += 1
        if k == "write" and ARG in pts.get(x, ()):
            bad += 1
            if bad <= show:
                print("  WRITE to", nm(x), "in", "/".join(ch))
                explain(("p", x, ARG))
    print("  flagged writes/unknowns:", bad)
    r = ent["ret"]
    if ARG in pts.get(RD, ()):
        print("  RESULT reaches argument state"); explain(("p", RD, ARG))


if __name__ == "__main__":
    if len(sys.argv) > 1 and sys.argv[1] == "--tables":
        print(tables_markdown())
    elif len(sys.argv) > 2 and sys.argv[1] == "--explain":
        run(sys.argv[3] if len(sys.argv) > 3 else repo_root(), sys.argv[2], 5)
    else:
        ents, _ = build(sys.argv[1] if len(sys.argv) > 1 else None)
        for i, e in enumerate(ents):
            unk = [s for s in e["steps"] if s[0] == "unknown"]
            print(i, e["key"], "listed" if e["listed"] else "hook" if e["hook"] else "", len(e["steps"]), "steps", len(unk), "unknown")
            for u in unk:
                print("      ?", u[1])
