"""C08 translator: the convert() bodies of reamber/algorithms/convert/*.py -> Coq descriptions (Tables.convert).

Unlike the other table modules this one translates SOURCE TEXT (Python `ast` of the files of the tree under test,
`harness.framework.REPO`), not values: for every classmethod of every converter class it emits a `conv_desc` saying
source / target game, the loop shape (one chart, one output per chart of a mapset, all charts merged into one mapset),
every `cls.cast(<src>.<list>, <Class>, dict(..))` call with the LIVE declared fields / defaults of <Class>, every
metadata assignment as an expression tree, the column-shift statement and the raise_bad_mode guard.

Fail closed: a statement (or parameter, or class / module level construct) that is not recognised exactly is emitted
as `SUnknown "<source text>"`; Coq's `conv_okb` is then false for that converter and the obligation
`C08_all_shipped_converters_ok` breaks.  An unrecognised metadata EXPRESSION becomes `EOpaque "<text>"` (allowed only
for fields the property does not speak about).  The output text is deterministic (sorted names, ast.unparse)."""
import ast
import dataclasses
import importlib
import os
import sys

from .. import coqfmt as F
from .. import frames as FR

GAMES = {"osu": 1, "quaver": 2, "bms": 3, "o2jam": 4, "sm": 5}
LIST_IDS = {"hits": 1, "holds": 2, "bpms": 3, "svs": 4}
FIELD_IDS = {"title": 1, "artist": 2, "creator": 3, "version": 4, "difficulty_name": 5, "description": 6,
             "difficulty": 7, "difficulty_val": 8, "credit": 9, "level": 10}
SKIP = {"__init__.py", "ConvertBase.py"}


def _hash_id(name):
    import zlib
    return 1000 + zlib.crc32(str(name).encode())


def list_id(name):
    return LIST_IDS[name] if name in LIST_IDS else _hash_id(name)


def field_id(name):
    return FIELD_IDS[name] if name in FIELD_IDS else _hash_id(name)


def coq_string(s):
    s = " ".join(str(s).split())
    s = "".join(c if 32 <= ord(c) < 127 else "?" for c in s)[:240]
    return '"' + s.replace('"', '""') + '"%string'


def text(s):
    return F.lst([F.z(ord(c)) for c in s])


def rcell(v):
    """a declared default -> Coq `rcell` (fail closed on anything else)"""
    if isinstance(v, bool):
        return f"RBool {F.boolean(v)}"
    if isinstance(v, int):
        return f"RNum {F.q(v)}"
    if isinstance(v, float):
        if v != v:
            return "RNaN"
        return f"RNum {F.q(v)}"
    if isinstance(v, str):
        return f"RStr {text(v)}"
    if isinstance(v, list) and not v:
        return "RList0"
    if v is None:
        return "RNone"
    raise ValueError(f"untranslatable declared default {v!r}")


def convert_dir():
    from .. import framework as fw
    return os.path.join(fw.REPO, "reamber", "algorithms", "convert")


def module_names():
    d = convert_dir()
    return sorted(f[:-3] for f in os.listdir(d) if f.endswith(".py") and f not in SKIP)


# ------------------------------------------------------------------ live class information
def game_of(cls):
    parts = cls.__module__.split(".")
    if len(parts) >= 2 and parts[0] == "reamber" and parts[1] in GAMES:
        return GAMES[parts[1]]
    return 0


def is_mapset(cls):
    from reamber.base.MapSet import MapSet
    return isinstance(cls, type) and issubclass(cls, MapSet)


def is_map(cls):
    from reamber.base.Map import Map
    return isinstance(cls, type) and issubclass(cls, Map)


def is_timed_list(cls):
    from reamber.base.lists.TimedList import TimedList
    return isinstance(cls, type) and issubclass(cls, TimedList)


def declared(list_cls):
    """(sorted column ids, defaults in that order, names in that order) of a list class, from its item class"""
    props = list_cls._item_class()._props
    names = FR.names_sorted(list(props.keys()))
    ids = [FR.col_id(n) for n in names]
    if len(set(ids)) != len(ids):
        raise ValueError("column id collision in " + list_cls.__name__)
    return ids, [rcell(props[n][1]) for n in names], names


def lists_of(map_cls):
    """[(list name, list class)] of a chart class, sorted by list id"""
    objs = map_cls().objs
    out = sorted(((n, type(l)) for n, l in objs.items()), key=lambda p: list_id(p[0]))
    ids = [list_id(n) for n, _ in out]
    if len(set(ids)) != len(ids):
        raise ValueError("list id collision in " + map_cls.__name__)
    return out


def fields_of(cls):
    names = sorted((f.name for f in dataclasses.fields(cls) if f.name not in ("objs", "maps")), key=field_id)
    ids = [field_id(n) for n in names]
    if len(set(ids)) != len(ids):
        raise ValueError("field id collision in " + cls.__name__)
    return names


def chart_class_of_set(set_cls):
    """the chart class a mapset class holds: the class of what the default-constructed set would hold is not
    observable, so it is read from the generic base (MapSet[..., XMap]) and from the `maps` annotation"""
    import typing
    for b in getattr(set_cls, "__orig_bases__", ()):
        for a in typing.get_args(b):
            if is_map(a):
                return a
    hints = typing.get_type_hints(set_cls)
    for a in typing.get_args(hints.get("maps", None)):
        if is_map(a):
            return a
    raise ValueError("cannot determine the chart class of " + set_cls.__name__)


# ------------------------------------------------------------------ the translation of one function
class Ctx:
    def __init__(self, glob, fn):
        self.glob = glob            # module globals (live objects)
        self.fn = fn
        self.src = None             # name of the source parameter
        self.src_cls = None
        self.src_is_set = False
        self.chart_var = None       # name bound to the source chart (the parameter itself, or the loop variable)
        self.chart_cls = None
        self.shift_param = None
        self.raise_param = None
        self.tmap = None            # (var, class) target chart
        self.tset = None            # (var, class) target mapset
        self.out = None             # var holding the list of outputs
        self.tmap_in_loop = self.tset_in_loop = False
        self.wrapped = self.appended_map = self.appended_out = None
        self.returned = None
        self.unknown = []           # structural complaints -> SUnknown
        self.locals = {}            # local variable -> (mexpr text or None when opaque, bound inside the loop?)
        self.assigned = set()       # (on_set, attribute) of the target assigned so far


def resolve(ctx, node):
    """a Name / dotted Attribute -> live object of the converter module, or None"""
    if isinstance(node, ast.Name):
        return ctx.glob.get(node.id)
    if isinstance(node, ast.Attribute):
        base = resolve(ctx, node.value)
        return getattr(base, node.attr, None) if base is not None else None
    return None


def is_name(node, name):
    return isinstance(node, ast.Name) and name is not None and node.id == name



# ------------------------------------------------------------------ key-count functions as tables
LOOKUPS = {}          # Coq identifier -> (kind, rows, default) of every table function met (emitted once, sorted)


def _tv(v):
    if v is None:
        return "TVNone"
    if isinstance(v, bool):
        raise ValueError("bool in a lookup table")
    if isinstance(v, int):
        return f"TVInt {F.z(v)}"
    if isinstance(v, str):
        return f"TVText {text(v)}"
    raise ValueError(f"untranslatable table value {v!r}")


def lookup_table(fn):
    """A live function whose SOURCE is exactly `if x == K1: return V1 elif x == K2: return V2 ... else: return D`
    (keys all int or all str, values int / str / None) -> (Coq identifier, kind); anything else -> None.
    The table is read off the function's own AST, constants resolved in the function's globals."""
    import inspect
    import textwrap
    try:
        fn = inspect.unwrap(fn)
        src = textwrap.dedent(inspect.getsource(fn))
        tree = ast.parse(src)
    except (OSError, TypeError, SyntaxError):
        return None
    if len(tree.body) != 1 or not isinstance(tree.body[0], ast.FunctionDef):
        return None
    fd = tree.body[0]
    a = fd.args
    if a.vararg or a.kwarg or a.kwonlyargs or a.posonlyargs or a.defaults or len(a.args) != 1:
        return None
    if not all(is_name(d, "staticmethod") for d in fd.decorator_list):
        return None
    param = a.args[0].arg
    body = [st for st in fd.body if not (isinstance(st, ast.Expr) and isinstance(st.value, ast.Constant)
                                         and isinstance(st.value.value, str))]
    if len(body) != 1 or not isinstance(body[0], ast.If):
        return None
    glob = dict(fn.__globals__)

    def const(node):
        if isinstance(node, ast.Constant):
            return True, node.value
        if isinstance(node, ast.UnaryOp) and isinstance(node.op, ast.USub) and isinstance(node.operand, ast.Constant) \
                and isinstance(node.operand.value, int) and not isinstance(node.operand.value, bool):
            return True, -node.operand.value
        if isinstance(node, ast.Attribute) and isinstance(node.value, ast.Name) and node.value.id != param \
                and isinstance(glob.get(node.value.id), type):
            cls = glob[node.value.id]
            if node.attr in vars(cls):
                return True, vars(cls)[node.attr]
        return False, None

    rows = []
    node = body[0]
    while True:
        t = node.test
        if not (isinstance(t, ast.Compare) and is_name(t.left, param) and len(t.ops) == 1 and isinstance(t.ops[0], ast.Eq)):
            return None
        ok, key = const(t.comparators[0])
        if not ok or len(node.body) != 1 or not isinstance(node.body[0], ast.Return) or node.body[0].value is None:
            return None
        ok2, val = const(node.body[0].value)
        if not ok2:
            return None
        rows.append((key, val))
        if len(node.orelse) == 1 and isinstance(node.orelse[0], ast.If):
            node = node.orelse[0]
            continue
        if len(node.orelse) == 1 and isinstance(node.orelse[0], ast.Return) and node.orelse[0].value is not None:
            ok3, dflt = const(node.orelse[0].value)
            if not ok3:
                return None
            break
        if not node.orelse:
            dflt = None                 # falls off the end of the function
            break
        return None
    keys = [k for k, _ in rows]
    if all(isinstance(k, int) and not isinstance(k, bool) for k in keys):
        kind = "int"
    elif all(isinstance(k, str) for k in keys):
        kind = "text"
    else:
        return None
    try:
        rows_txt = [((F.z(k) if kind == "int" else text(k)), _tv(v)) for k, v in rows]
        dflt_txt = _tv(dflt)
    except ValueError:
        return None
    ident = "tb_" + "".join(c if c.isalnum() else "_" for c in fn.__qualname__)
    entry = (kind, rows_txt, dflt_txt)
    if ident in LOOKUPS and LOOKUPS[ident] != entry:
        raise RuntimeError("two different lookup functions named " + ident)
    LOOKUPS[ident] = entry
    return ident, kind


def literal(v):
    """a live constant -> literal mexpr text, or None"""
    if isinstance(v, bool):
        return None
    if isinstance(v, int):
        return f"EInt {F.z(v)}"
    if isinstance(v, float) and v == v and abs(v) != float("inf"):
        return f"EFloat {F.q(v)}"
    if isinstance(v, str):
        return f"EText {text(v)}"
    return None


def tr_expr(ctx, e, in_loop):
    """metadata expression -> Coq mexpr text, or None when not recognised"""
    chart_ok = (not ctx.src_is_set) or in_loop
    bound = {ctx.src, ctx.chart_var, ctx.shift_param, ctx.raise_param, ctx.out, "cls"} | set(ctx.locals)
    bound |= {v[0] for v in (ctx.tmap, ctx.tset) if v is not None}
    # a local variable bound earlier by `name = <expr>`: its expression
    if isinstance(e, ast.Name):
        if e.id in ctx.locals:
            txt, loc_in_loop = ctx.locals[e.id]
            return txt if (txt is not None and (in_loop or not loc_in_loop)) else None
        return None
    if isinstance(e, ast.Attribute) and isinstance(e.value, ast.Name):
        if chart_ok and e.value.id == ctx.chart_var:
            if ctx.chart_cls is not None and e.attr in ctx.chart_cls().objs:
                return None                      # a list object is not a metadata value
            return f"EAttr false {F.z(field_id(e.attr))}"
        if ctx.src_is_set and e.value.id == ctx.src:
            return f"EAttr true {F.z(field_id(e.attr))}"
        # an attribute of the target that no earlier statement assigned: its class default
        for on_set, tv in ((False, ctx.tmap), (True, ctx.tset)):
            if tv is not None and e.value.id == tv[0] and (on_set, e.attr) not in ctx.assigned \
                    and e.attr in fields_of(tv[1]):
                lit = literal(getattr(tv[1](), e.attr))
                return None if lit is None else f"EDefault {F.boolean(on_set)} {F.z(field_id(e.attr))} ({lit})"
        # a constant of a class of the converter module (SMMapChartTypes.KB7_SINGLE, QuaMapMode.KEYS_7)
        if e.value.id not in bound and isinstance(ctx.glob.get(e.value.id), type) and e.attr in vars(ctx.glob[e.value.id]):
            return literal(vars(ctx.glob[e.value.id])[e.attr])
        return None
    # x == x for a local x: the test "x is not NaN"
    if isinstance(e, ast.Compare) and len(e.ops) == 1 and isinstance(e.ops[0], ast.Eq) and isinstance(e.left, ast.Name) \
            and isinstance(e.comparators[0], ast.Name) and e.left.id == e.comparators[0].id and e.left.id in ctx.locals:
        a = tr_expr(ctx, e.left, in_loop)
        return None if a is None else f"ENotNaN ({a})"
    # <chart>.stack().<column>.max() + k : the highest value of a column over all lists of the source chart
    if isinstance(e, ast.BinOp) and isinstance(e.op, ast.Add) and isinstance(e.right, ast.Constant) \
            and isinstance(e.right.value, int) and not isinstance(e.right.value, bool):
        m = e.left
        if (isinstance(m, ast.Call) and not m.args and not m.keywords and isinstance(m.func, ast.Attribute) and m.func.attr == "max"
                and isinstance(m.func.value, ast.Attribute)
                and isinstance(m.func.value.value, ast.Call) and not m.func.value.value.args and not m.func.value.value.keywords
                and isinstance(m.func.value.value.func, ast.Attribute) and m.func.value.value.func.attr == "stack"
                and chart_ok and is_name(m.func.value.value.func.value, ctx.chart_var) and ctx.chart_cls is not None):
            from reamber.base.Map import Map
            col = m.func.value.attr
            if ctx.chart_cls.stack is Map.stack and any(col in declared(lc)[2] for _, lc in lists_of(ctx.chart_cls)):
                return f"EStackMaxPlus {F.z(FR.col_id(col))} {F.z(e.right.value)}"
        return None
    # a or b
    if isinstance(e, ast.BoolOp) and isinstance(e.op, ast.Or) and len(e.values) == 2:
        a, b = tr_expr(ctx, e.values[0], in_loop), tr_expr(ctx, e.values[1], in_loop)
        return None if a is None or b is None else f"EOr ({a}) ({b})"
    # a if c else b
    if isinstance(e, ast.IfExp):
        c, a, b = (tr_expr(ctx, n, in_loop) for n in (e.test, e.body, e.orelse))
        return None if None in (c, a, b) else f"EIf ({c}) ({a}) ({b})"
    # len(<chart>.<list>)   /   <chart>.<list>.first_offset()
    def chart_list(n):
        if (chart_ok and isinstance(n, ast.Attribute) and is_name(n.value, ctx.chart_var) and ctx.chart_cls is not None
                and n.attr in ctx.chart_cls().objs):
            return n.attr
        return None
    if isinstance(e, ast.Call) and not e.keywords and len(e.args) == 1 and is_name(e.func, "len") \
            and ctx.glob.get("len", len) is len and chart_list(e.args[0]) is not None:
        return f"ELen {F.z(list_id(chart_list(e.args[0])))}"
    if isinstance(e, ast.Call) and not e.keywords and not e.args and isinstance(e.func, ast.Attribute) \
            and e.func.attr == "first_offset" and chart_list(e.func.value) is not None:
        from reamber.base.lists.TimedList import TimedList
        lcls = type(ctx.chart_cls().objs[chart_list(e.func.value)])
        if lcls.first_offset is TimedList.first_offset:
            return f"EFirstOffset {F.z(list_id(chart_list(e.func.value)))}"
        return None
    # Class.table_function(e): a function that is a finite table with a default (read off its own source)
    if isinstance(e, ast.Call) and not e.keywords and len(e.args) == 1 and isinstance(e.func, ast.Attribute) \
            and isinstance(e.func.value, ast.Name) and e.func.value.id not in bound \
            and isinstance(ctx.glob.get(e.func.value.id), type):
        fn = getattr(ctx.glob[e.func.value.id], e.func.attr, None)
        tb = lookup_table(fn) if callable(fn) else None
        if tb is not None:
            a = tr_expr(ctx, e.args[0], in_loop)
            if a is None:
                return None
            return f"{'ELookupInt' if tb[1] == 'int' else 'ELookupText'} (fst {tb[0]}) (snd {tb[0]}) ({a})"
        return None
    if isinstance(e, ast.Constant):
        if isinstance(e.value, bool):
            return None
        if isinstance(e.value, int):
            return f"EInt {F.z(e.value)}"
        if isinstance(e.value, float) and e.value == e.value and abs(e.value) != float("inf"):
            return f"EFloat {F.q(e.value)}"
        if isinstance(e.value, str):
            return f"EText {text(e.value)}"
        return None
    if isinstance(e, ast.Call) and not e.keywords and len(e.args) == 1 and isinstance(e.func, ast.Name):
        if e.func.id == "list" and ctx.glob.get("list", list) is list:
            a = tr_expr(ctx, e.args[0], in_loop)
            return None if a is None else f"EListCopy ({a})"
        if e.func.id == "int" and ctx.glob.get("int", int) is int:
            a = tr_expr(ctx, e.args[0], in_loop)
            return None if a is None else f"EToInt ({a})"
        if e.func.id == "unidecode":
            import unidecode as U
            inner = e.args[0]
            if (ctx.glob.get("unidecode") is U.unidecode and isinstance(inner, ast.Call) and not inner.keywords
                    and isinstance(inner.func, ast.Attribute) and inner.func.attr == "decode" and len(inner.args) == 1
                    and isinstance(inner.args[0], ast.Constant) and inner.args[0].value in ("sjis", "shift_jis")):
                a = tr_expr(ctx, inner.func.value, in_loop)
                return None if a is None else f"EDecodeSjis ({a})"
        return None
    if isinstance(e, ast.Call) and isinstance(e.func, ast.Attribute):
        import codecs
        if (resolve(ctx, e.func) is codecs.encode and len(e.args) == 1 and len(e.keywords) == 1
                and e.keywords[0].arg == "encoding" and isinstance(e.keywords[0].value, ast.Constant)
                and e.keywords[0].value.value in ("sjis", "shift_jis")):
            a = tr_expr(ctx, e.args[0], in_loop)
            return None if a is None else f"EEncodeSjis ({a})"
        if (ctx.src_is_set and in_loop and is_name(e.func.value, ctx.src) and e.func.attr == "level_name"
                and not e.keywords and len(e.args) == 1 and is_name(e.args[0], ctx.chart_var)
                and hasattr(ctx.src_cls, "level_name")):
            return "ELevelName"
        return None
    if isinstance(e, ast.JoinedStr):
        parts = []
        for v in e.values:
            if isinstance(v, ast.Constant) and isinstance(v.value, str):
                parts.append(f"EText {text(v.value)}")
            elif isinstance(v, ast.FormattedValue) and v.conversion == -1 and v.format_spec is None:
                a = tr_expr(ctx, v.value, in_loop)
                if a is None:
                    return None
                parts.append(f"EStr ({a})")
            else:
                return None
        if not parts:
            return "EText []"
        out = parts[-1]
        for p in reversed(parts[:-1]):
            out = f"ECat ({p}) ({out})"
        return out
    return None


def tr_cast(ctx, tgt_list, call, in_loop):
    """`<tmap>.<tgt_list> = cls.cast(<chart>.<src_list>, <Class>, dict(k="v", ..))` -> SCast text or None"""
    if not (isinstance(call, ast.Call) and isinstance(call.func, ast.Attribute) and is_name(call.func.value, "cls")
            and call.func.attr == "cast" and len(call.args) == 3 and not call.keywords):
        return None
    a0, a1, a2 = call.args
    chart_ok = (not ctx.src_is_set) or in_loop
    if not (chart_ok and isinstance(a0, ast.Attribute) and is_name(a0.value, ctx.chart_var)):
        return None
    cls = resolve(ctx, a1)
    if not is_timed_list(cls):
        return None
    if isinstance(a2, ast.Call) and is_name(a2.func, "dict") and not a2.args and ctx.glob.get("dict", dict) is dict:
        items = [(k.arg, k.value) for k in a2.keywords]
    elif isinstance(a2, ast.Dict):
        items = []
        for k, v in zip(a2.keys, a2.values):
            if not (isinstance(k, ast.Constant) and isinstance(k.value, str)):
                return None
            items.append((k.value, v))
    else:
        return None
    if any(k is None for k, _ in items):
        return None
    ids, dfl, _ = declared(cls)
    mapping = []
    for k, v in items:
        if isinstance(v, ast.Constant) and isinstance(v.value, str):
            mapping.append(f"({F.z(FR.col_id(k))}, FromColumn {F.z(FR.col_id(v.value))})")
        else:
            mapping.append(f"({F.z(FR.col_id(k))}, FromComputed {coq_string(ast.unparse(v))})")
    return (f"SCast {F.z(list_id(tgt_list))} {F.z(list_id(a0.attr))} {F.lst([F.z(i) for i in ids])} "
            f"{F.lst(dfl)} {F.lst(mapping)}")


def tr_stmt(ctx, s, in_loop):
    """one statement -> list of Coq step texts ([] for a recognised structural statement)"""
    unk = [f"SUnknown {coq_string(ast.unparse(s))}"]
    # docstring
    if isinstance(s, ast.Expr) and isinstance(s.value, ast.Constant) and isinstance(s.value.value, str):
        return []
    # outs: List[X] = []   /   outs = []
    if ((isinstance(s, ast.AnnAssign) and s.simple and isinstance(s.target, ast.Name) and s.value is not None)
            or (isinstance(s, ast.Assign) and len(s.targets) == 1 and isinstance(s.targets[0], ast.Name))):
        var = s.target.id if isinstance(s, ast.AnnAssign) else s.targets[0].id
        val = s.value
        if var in (ctx.src, ctx.chart_var, ctx.shift_param, ctx.raise_param, "cls"):
            return unk
        if isinstance(val, ast.List) and not val.elts:
            if ctx.out is None and not in_loop and ctx.src_is_set:
                ctx.out = var
                return []
            return unk
        if isinstance(val, ast.Call) and not val.args and not val.keywords:
            cls = resolve(ctx, val.func)
            if is_mapset(cls) and ctx.tset is None:
                ctx.tset, ctx.tset_in_loop = (var, cls), in_loop
                return []
            if is_map(cls) and ctx.tmap is None:
                ctx.tmap, ctx.tmap_in_loop = (var, cls), in_loop
                return []
        # name = <expr>: a local variable, bound once, used (inlined) by later metadata expressions
        taken = {v[0] for v in (ctx.tmap, ctx.tset) if v is not None} | {ctx.out} | set(ctx.locals) | set(ctx.glob)
        if isinstance(s, ast.Assign) and var not in taken and not hasattr(__import__('builtins'), var):
            e = tr_expr(ctx, val, in_loop)
            ctx.locals[var] = (e, in_loop)
            shown = e if e is not None else f"EOpaque {coq_string(ast.unparse(val))}"
            return [f"SLocal {coq_string(var)} ({shown})"]
        return unk
    # <tgt>.<attr> = ...
    if isinstance(s, ast.Assign) and len(s.targets) == 1 and isinstance(s.targets[0], ast.Attribute) \
            and isinstance(s.targets[0].value, ast.Name):
        var, attr = s.targets[0].value.id, s.targets[0].attr
        on_map = ctx.tmap is not None and var == ctx.tmap[0]
        on_set = ctx.tset is not None and var == ctx.tset[0]
        if not (on_map or on_set):
            return unk
        if on_set and attr == "maps":
            # sms.maps = [sm]
            v = s.value
            if (isinstance(v, ast.List) and len(v.elts) == 1 and ctx.tmap is not None and is_name(v.elts[0], ctx.tmap[0])
                    and ctx.wrapped is None and ctx.appended_map is None and ctx.tset_in_loop == ctx.tmap_in_loop):
                ctx.wrapped = in_loop
                return []
            return unk
        if on_map and attr in ctx.tmap[1]().objs:
            c = tr_cast(ctx, attr, s.value, in_loop)
            return [c] if c is not None else unk
        e = tr_expr(ctx, s.value, in_loop)
        if e is None:
            e = f"EOpaque {coq_string(ast.unparse(s.value))}"
        ctx.assigned.add((on_set, attr))
        return [f"SMeta {F.boolean(on_set)} {F.z(field_id(attr))} ({e})"]
    # <tmap>.stack().column += <shift parameter>
    if isinstance(s, ast.AugAssign) and isinstance(s.op, ast.Add):
        t = s.target
        if (isinstance(t, ast.Attribute) and t.attr == "column" and isinstance(t.value, ast.Call) and not t.value.args
                and not t.value.keywords and isinstance(t.value.func, ast.Attribute) and t.value.func.attr == "stack"
                and ctx.tmap is not None and is_name(t.value.func.value, ctx.tmap[0])
                and is_name(s.value, ctx.shift_param)):
            return ["SShift"]
        return unk
    # x.append(y)
    if isinstance(s, ast.Expr) and isinstance(s.value, ast.Call) and isinstance(s.value.func, ast.Attribute) \
            and s.value.func.attr == "append" and len(s.value.args) == 1 and not s.value.keywords:
        recv, arg = s.value.func.value, s.value.args[0]
        if is_name(recv, ctx.out) and in_loop and ctx.appended_out is None:
            want = ctx.tset if ctx.tset is not None and ctx.tset_in_loop else ctx.tmap
            if want is not None and is_name(arg, want[0]):
                ctx.appended_out = want[0]
                return []
            return unk
        if (isinstance(recv, ast.Attribute) and recv.attr == "maps" and ctx.tset is not None and is_name(recv.value, ctx.tset[0])
                and in_loop and not ctx.tset_in_loop and ctx.tmap is not None and ctx.tmap_in_loop
                and is_name(arg, ctx.tmap[0]) and ctx.appended_map is None and ctx.wrapped is None):
            ctx.appended_map = True
            return []
        return unk
    # if <cond>: <tgt>.<attr> = <expr>   (no else; the attribute not assigned before, its class default a literal):
    # the same as  <tgt>.<attr> = <expr> if <cond> else <class default>
    if isinstance(s, ast.If) and not s.orelse and len(s.body) == 1 and isinstance(s.body[0], ast.Assign) \
            and len(s.body[0].targets) == 1 and isinstance(s.body[0].targets[0], ast.Attribute) \
            and isinstance(s.body[0].targets[0].value, ast.Name):
        tgt = s.body[0].targets[0]
        var, attr = tgt.value.id, tgt.attr
        on_map = ctx.tmap is not None and var == ctx.tmap[0]
        on_set = ctx.tset is not None and var == ctx.tset[0]
        if not (on_map or on_set) or (on_set and attr == "maps") or (on_map and attr in ctx.tmap[1]().objs):
            return unk
        c = tr_expr(ctx, s.test, in_loop)
        dflt = tr_expr(ctx, tgt, in_loop)          # EDefault ..: only when not assigned before and a literal default
        if c is None or dflt is None or not dflt.startswith("EDefault "):
            return unk
        e = tr_expr(ctx, s.body[0].value, in_loop)
        if e is None:
            e = f"EOpaque {coq_string(ast.unparse(s.body[0].value))}"
            return unk                              # an opaque value under a condition is not modelled
        ctx.assigned.add((on_set, attr))
        return [f"SMeta {F.boolean(on_set)} {F.z(field_id(attr))} (EIf ({c}) ({e}) ({dflt}))"]
    # if raise_bad_mode and not <tgt>.<field>: raise ValueError(...)
    if isinstance(s, ast.If) and not s.orelse and len(s.body) == 1 and isinstance(s.body[0], ast.Raise):
        t = s.test
        if (isinstance(t, ast.BoolOp) and isinstance(t.op, ast.And) and len(t.values) == 2
                and is_name(t.values[0], ctx.raise_param) and isinstance(t.values[1], ast.UnaryOp)
                and isinstance(t.values[1].op, ast.Not) and isinstance(t.values[1].operand, ast.Attribute)
                and isinstance(t.values[1].operand.value, ast.Name)):
            var, attr = t.values[1].operand.value.id, t.values[1].operand.attr
            on_map = ctx.tmap is not None and var == ctx.tmap[0]
            on_set = ctx.tset is not None and var == ctx.tset[0]
            if on_map or on_set:
                return [f"SGuardMode {F.boolean(on_set)} {F.z(field_id(attr))}"]
        return unk
    # return x
    if isinstance(s, ast.Return) and s.value is not None and isinstance(s.value, ast.Name) and not in_loop \
            and ctx.returned is None:
        ctx.returned = s.value.id
        return []
    return unk


def translate_function(glob, class_name, fn, extra_unknown):
    ctx = Ctx(glob, fn)
    pre, body, post = list(extra_unknown), [], []
    # ---- signature
    a = fn.args
    params = list(a.args)
    is_cm = any(is_name(d, "classmethod") for d in fn.decorator_list) and len(fn.decorator_list) == 1
    if not is_cm or a.vararg or a.kwarg or a.kwonlyargs or a.posonlyargs or len(params) < 2 or params[0].arg != "cls":
        pre.append(f"SUnknown {coq_string('signature: ' + ast.unparse(a))}")
    if len(params) >= 2:
        ctx.src = params[1].arg
        ctx.src_cls = resolve(ctx, params[1].annotation) if params[1].annotation is not None else None
    for p in params[2:]:
        if p.arg == "move_right_by" and ctx.shift_param is None:
            ctx.shift_param = p.arg
        elif p.arg == "raise_bad_mode" and ctx.raise_param is None:
            ctx.raise_param = p.arg
        else:
            pre.append(f"SUnknown {coq_string('parameter: ' + p.arg)}")
    if is_mapset(ctx.src_cls):
        ctx.src_is_set = True
        ctx.chart_cls = chart_class_of_set(ctx.src_cls)
    elif is_map(ctx.src_cls):
        ctx.chart_var, ctx.chart_cls = ctx.src, ctx.src_cls
    else:
        pre.append(f"SUnknown {coq_string('source parameter is not annotated with a chart / mapset class')}")
    # ---- body
    seen_loop = False
    for s in fn.body:
        if (isinstance(s, ast.For) and ctx.src_is_set and not seen_loop and not s.orelse and isinstance(s.target, ast.Name)
                and is_name(s.iter, ctx.src) and s.target.id not in (ctx.src, "cls", ctx.shift_param, ctx.raise_param)):
            seen_loop = True
            ctx.chart_var = s.target.id
            for t in s.body:
                body.extend(tr_stmt(ctx, t, True))
            continue
        if ctx.returned is not None:
            post.append(f"SUnknown {coq_string('after return: ' + ast.unparse(s))}")
            continue
        steps = tr_stmt(ctx, s, False)
        if ctx.src_is_set:
            (post if seen_loop else pre).extend(steps)
        else:
            body.extend(steps)
    # ---- shape
    shape, in_set = "ShOne", ctx.tset is not None
    problems = []
    if ctx.tmap is None:
        problems.append("no target chart is constructed")
    if not ctx.src_is_set:
        if ctx.tset is not None:
            if ctx.wrapped is not False:
                problems.append("the target chart is not put into the target mapset")
            if ctx.returned != ctx.tset[0]:
                problems.append("the target mapset is not what is returned")
        elif ctx.tmap is not None and ctx.returned != ctx.tmap[0]:
            problems.append("the target chart is not what is returned")
    else:
        if not seen_loop:
            problems.append("no loop over the source mapset")
        if ctx.tmap is not None and not ctx.tmap_in_loop:
            problems.append("the target chart is constructed outside the loop")
        if ctx.tset is not None and not ctx.tset_in_loop:
            shape = "ShMerge"
            if not ctx.appended_map:
                problems.append("the target chart is not appended to the shared mapset")
            if ctx.returned != ctx.tset[0]:
                problems.append("the shared mapset is not what is returned")
            if ctx.out is not None:
                problems.append("an output list next to a shared mapset")
        else:
            shape = "ShEach"
            if ctx.tset is not None and ctx.wrapped is not True:
                problems.append("the target chart is not put into its mapset")
            if ctx.out is None or ctx.appended_out is None:
                problems.append("the per-chart result is not appended to the output list")
            if ctx.out is None or ctx.returned != ctx.out:
                problems.append("the output list is not what is returned")
    # the last statement of the function is the return, the last of the loop the append
    if not (fn.body and isinstance(fn.body[-1], ast.Return)):
        problems.append("the function does not end with its return")
    if ctx.src_is_set and seen_loop:
        loop = [s for s in fn.body if isinstance(s, ast.For)][0]
        last = loop.body[-1] if loop.body else None
        if not (isinstance(last, ast.Expr) and isinstance(last.value, ast.Call) and isinstance(last.value.func, ast.Attribute)
                and last.value.func.attr == "append"):
            problems.append("the loop does not end with the append of its result")
    pre.extend(f"SUnknown {coq_string('structure: ' + p)}" for p in problems)

    tgt_cls = ctx.tmap[1] if ctx.tmap is not None else None
    tset_cls = ctx.tset[1] if ctx.tset is not None else None

    def lists_txt(cls, with_defaults):
        if cls is None:
            return "[]"
        rows = []
        for n, lc in lists_of(cls):
            ids, dfl, _ = declared(lc)
            if with_defaults:
                rows.append(f"({F.z(list_id(n))}, ({F.lst([F.z(i) for i in ids])}, {F.lst(dfl)}))")
            else:
                rows.append(f"({F.z(list_id(n))}, {F.lst([F.z(i) for i in ids])})")
        return F.lst(rows)

    def fields_txt(cls):
        return "[]" if cls is None else F.lst([F.z(field_id(n)) for n in fields_of(cls)])

    name = class_name if fn.name == "convert" else class_name + "." + fn.name.replace("convert_", "")
    info = {
        "name": name, "class": class_name, "method": fn.name,
        "src_game": game_of(ctx.chart_cls) if ctx.chart_cls is not None else 0,
        "tgt_game": game_of(tgt_cls) if tgt_cls is not None else 0,
        "shape": shape, "tgt_in_set": in_set, "shift_arg": ctx.shift_param is not None,
        "raise_arg": ctx.raise_param is not None, "src_is_set": ctx.src_is_set,
        "names": set(),
    }
    for cls in (ctx.chart_cls, ctx.src_cls if ctx.src_is_set else None, tgt_cls, tset_cls):
        if cls is not None:
            info["names"].update(("field", n) for n in fields_of(cls))
    for cls in (ctx.chart_cls, tgt_cls):
        if cls is not None:
            for n, lc in lists_of(cls):
                info["names"].add(("list", n))
                info["names"].update(("col", c) for c in declared(lc)[2])
    ident = "conv_" + name.replace(".", "_")
    lines = [
        f"Definition {ident} : conv_desc := mkConv {coq_string(name)} {F.z(info['src_game'])} {F.z(info['tgt_game'])} "
        f"{shape} {F.boolean(in_set)} {F.boolean(info['shift_arg'])} {F.boolean(info['raise_arg'])}",
        f"  {lists_txt(ctx.chart_cls, False)}",
        f"  {lists_txt(tgt_cls, True)}",
        f"  {fields_txt(ctx.chart_cls)} {fields_txt(ctx.src_cls if ctx.src_is_set else None)} {fields_txt(tgt_cls)} {fields_txt(tset_cls)}",
        "  " + F.lst(pre),
        "  " + F.lst(body),
        "  " + F.lst(post) + ".",
    ]
    info["ident"] = ident
    info["lines"] = lines
    return info


def translate_module(modname):
    mod = importlib.import_module("reamber.algorithms.convert." + modname)
    mod = sys.modules["reamber.algorithms.convert." + modname]
    path = os.path.join(convert_dir(), modname + ".py")
    if os.path.realpath(mod.__file__) != os.path.realpath(path):
        raise RuntimeError(f"{modname} imported from {mod.__file__}, expected {path}")
    tree = ast.parse(open(path).read())
    glob = vars(mod)
    from reamber.algorithms.convert.ConvertBase import ConvertBase
    out = []
    module_unknown = []
    classes = []
    for s in tree.body:
        if isinstance(s, (ast.Import, ast.ImportFrom)):
            continue
        if isinstance(s, ast.Expr) and isinstance(s.value, ast.Constant) and isinstance(s.value.value, str):
            continue
        if isinstance(s, ast.ClassDef) and not s.decorator_list and not s.keywords and len(s.bases) == 1 \
                and glob.get(getattr(s.bases[0], "id", None)) is ConvertBase:
            classes.append(s)
            continue
        module_unknown.append(f"SUnknown {coq_string('module level: ' + ast.unparse(s))}")
    for c in classes:
        class_unknown = list(module_unknown)
        fns = []
        for s in c.body:
            if isinstance(s, ast.Expr) and isinstance(s.value, ast.Constant) and isinstance(s.value.value, str):
                continue
            if isinstance(s, ast.FunctionDef):
                fns.append(s)
                continue
            class_unknown.append(f"SUnknown {coq_string('class level: ' + ast.unparse(s))}")
        for fn in fns:
            out.append(translate_function(glob, c.name, fn, class_unknown))
    if not out and module_unknown:
        raise RuntimeError(f"{modname}: no converter class recognised")
    return out


_CACHE = {}


def describe_all():
    """all descriptions of the tree under test, sorted by name (cached per process)"""
    key = convert_dir()
    if key not in _CACHE:
        infos = []
        for m in module_names():
            infos.extend(translate_module(m))
        infos.sort(key=lambda i: i["name"])
        names = [i["name"] for i in infos]
        if len(set(names)) != len(names):
            raise RuntimeError("duplicate converter name")
        _CACHE[key] = infos
    return _CACHE[key]


def conv_id(name):
    """the number under which Tables.convert.converters lists the converter `name` (0 = not present)"""
    names = [i["name"] for i in describe_all()]
    return names.index(name) + 1 if name in names else 0


TYPES = """(* syntax of what the translator (harness/tables/convert.py) recognised in a convert() body - fixed text *)
Inductive rcell := RNum (q : Q) | RBool (b : bool) | RStr (t : list Z) | RList0 | RNaN | RNone.
Inductive tv := TVText (t : list Z) | TVInt (z : Z) | TVNone.        (* a value of a table function *)
Inductive mexpr :=
| EAttr (of_set : bool) (f : Z)      (* <source chart>.<f>, or <source mapset>.<f> when of_set *)
| EInt (z : Z) | EFloat (q : Q) | EText (t : list Z)   (* literals *)
| EListCopy (e : mexpr)              (* list(e) *)
| EToInt (e : mexpr)                 (* int(e) *)
| EDecodeSjis (e : mexpr)            (* unidecode(e.decode("sjis")) *)
| EEncodeSjis (e : mexpr)            (* codecs.encode(e, encoding="shift_jis") *)
| EStr (e : mexpr)                   (* {e} inside an f-string *)
| ECat (a b : mexpr)                 (* adjacent parts of an f-string *)
| ELevelName                         (* <source mapset>.level_name(<source chart>) *)
| ELookupInt (tb : list (Z * tv)) (dflt : tv) (e : mexpr)        (* a function `if x == k: return v ... else: return dflt` *)
| ELookupText (tb : list (list Z * tv)) (dflt : tv) (e : mexpr)  (* the same with string keys *)
| EOr (a b : mexpr)                  (* a or b *)
| EIf (c a b : mexpr)                (* a if c else b *)
| ELen (l : Z)                       (* len(<source chart>.<l>) *)
| EFirstOffset (l : Z)               (* <source chart>.<l>.first_offset() *)
| EDefault (on_set : bool) (f : Z) (v : mexpr)   (* <target>.<f> read before any assignment: its class default v *)
| EStackMaxPlus (col : Z) (k : Z)    (* <source chart>.stack().<col>.max() + k  (NaN when no list has a value) *)
| ENotNaN (e : mexpr)                (* x == x *)
| EOpaque (txt : string).            (* anything else: the value is not modelled *)
Inductive msource := FromColumn (c : Z) | FromComputed (txt : string).
Inductive step :=
| SCast (tgt src : Z) (declared : list Z) (defaults : list rcell) (mapping : list (Z * msource))
| SMeta (on_set : bool) (f : Z) (e : mexpr)          (* <target chart | target mapset>.<f> = e *)
| SShift                                             (* <target chart>.stack().column += <shift argument> *)
| SGuardMode (on_set : bool) (f : Z)                 (* if raise_bad_mode and not <target>.<f>: raise ValueError *)
| SLocal (name : string) (e : mexpr)                 (* name = e; later uses of the name carry e *)
| SUnknown (txt : string).                           (* NOT recognised: fails conv_okb *)
Inductive shape := ShOne | ShEach | ShMerge.
Record conv_desc := mkConv {
  cd_name : string; cd_src_game : Z; cd_tgt_game : Z;        (* games: 1 osu 2 quaver 3 bms 4 o2jam 5 sm *)
  cd_shape : shape; cd_tgt_in_set : bool; cd_shift_arg : bool; cd_raise_arg : bool;
  cd_src_lists : list (Z * list Z);                          (* source chart class: list -> declared columns *)
  cd_tgt_lists : list (Z * (list Z * list rcell));           (* target chart class: list -> declared columns, defaults *)
  cd_src_map_fields : list Z; cd_src_set_fields : list Z; cd_tgt_map_fields : list Z; cd_tgt_set_fields : list Z;
  cd_pre : list step; cd_body : list step; cd_post : list step }."""


def generate():
    infos = describe_all()
    lines = TYPES.split("\n")
    names = set()
    for i in infos:
        names |= i["names"]
    for kind, table, fn in (("field", "field_names", field_id), ("list", "list_names", list_id), ("col", "column_names", FR.col_id)):
        rows = sorted((fn(n), n) for k, n in names if k == kind)
        lines.append(f"Definition {table} : list (Z * string) := " + F.lst([f"({F.z(a)}, {coq_string(b)})" for a, b in rows]) + ".")
    for ident in sorted(LOOKUPS):
        kind, rows, dflt = LOOKUPS[ident]
        ty = "Z" if kind == "int" else "list Z"
        lines.append(f"Definition {ident} : list ({ty} * tv) * tv := ("
                     + F.lst([f"({k}, {v})" for k, v in rows]) + f", {dflt}).")
    for i in infos:
        lines.extend(i["lines"])
    lines.append("Definition converters : list (Z * conv_desc) := "
                 + F.lst([f"({F.z(k + 1)}, {i['ident']})" for k, i in enumerate(infos)]) + ".")
    return lines
