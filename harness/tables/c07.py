"""OJN format facts taken from the live reamber classes (C07): header layout of O2JMapSetMeta
(struct format letter, total byte size, element count per field), channel numbers, note-kind bytes."""
from .. import coqfmt as F


def generate():
    from reamber.o2jam.O2JMapSetMeta import O2JMapSetMeta as M
    from reamber.o2jam.O2JEventPackage import O2JNoteChannel as C, O2JConst as K
    fmts, sizes, counts = list(M.BYTE_FORMATS), list(M.BYTE_SIZES), list(M.BYTE_COUNT)
    rows = []
    # zip() semantics of read_meta: the shortest list decides
    for f, s, c in zip(fmts, sizes, counts):
        if not (isinstance(f, str) and len(f) == 1):
            raise ValueError("format is not a single struct letter")
        if not (type(s) is int and type(c) is int):
            raise ValueError("size/count not int")
        rows.append(f"({F.z(ord(f))}, {F.z(s)}, {F.z(c)})")
    cr = C.COL_RANGE
    if not (isinstance(cr, range) and cr.step == 1):
        raise ValueError("COL_RANGE is not a unit-step range")
    ar = C.AUTOPLAY_RANGE
    if not (isinstance(ar, range) and ar.step == 1):
        raise ValueError("AUTOPLAY_RANGE is not a unit-step range")

    def one(b):
        if not (isinstance(b, bytes) and len(b) == 1):
            raise ValueError("note kind constant is not a single byte")
        return F.z(b[0])
    cols = [C.COL_1, C.COL_2, C.COL_3, C.COL_4, C.COL_5, C.COL_6, C.COL_7]
    return [
        "(* (ord(struct letter), total bytes, element count) in header order *)",
        "Definition layout : list (Z * Z * Z) := " + F.lst(rows) + ".",
        f"Definition ch_measure_fraction : Z := {F.z(C.MEASURE_FRACTION)}.",
        f"Definition ch_bpm_change : Z := {F.z(C.BPM_CHANGE)}.",
        f"Definition col_range_start : Z := {F.z(cr.start)}.",
        f"Definition col_range_stop : Z := {F.z(cr.stop)}.",
        f"Definition autoplay_range_start : Z := {F.z(ar.start)}.",
        f"Definition autoplay_range_stop : Z := {F.z(ar.stop)}.",
        "Definition col_channels : list Z := " + F.lst([F.z(c) for c in cols]) + ".",
        f"Definition kind_hit : Z := {one(K.HIT_BYTES)}.",
        f"Definition kind_hold_head : Z := {one(K.HOLD_HEAD_BYTES)}.",
        f"Definition kind_hold_tail : Z := {one(K.HOLD_TAIL_BYTES)}.",
    ]
