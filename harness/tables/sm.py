"""StepMania constants from the live classes (C02/C03): SMConst note symbols, METRONOME / MAX_SNAP / MAX_KEYS,
SMMapChartTypes.get_keys over all declared chart types, get_type over keys 0..20, str.isspace code points."""
import sys
from .. import coqfmt as F


def _cp(s):
    if not isinstance(s, str) or len(s) != 1:
        raise ValueError(f"note symbol {s!r} is not a single character")
    return F.z(ord(s))


def _txt(s):
    if not isinstance(s, str):
        raise ValueError(f"{s!r} is not a string")
    return F.lst([F.z(ord(c)) for c in s])


def chart_types():
    from reamber.sm.SMMapMeta import SMMapChartTypes
    out = []
    for name, val in vars(SMMapChartTypes).items():
        if name.isupper() and isinstance(val, str):
            out.append(val)
    return out


def generate():
    from reamber.sm.SMConst import SMConst
    from reamber.sm.SMMapMeta import SMMapChartTypes
    import importlib
    M = importlib.import_module("reamber.sm.SMMap")
    M = sys.modules["reamber.sm.SMMap"]
    lines = []
    for coq, attr in [("hit_string", "HIT_STRING"), ("hold_string_head", "HOLD_STRING_HEAD"),
                      ("hold_string_tail", "HOLD_STRING_TAIL"), ("roll_string_head", "ROLL_STRING_HEAD"),
                      ("roll_string_tail", "ROLL_STRING_TAIL"), ("mine_string", "MINE_STRING"),
                      ("lift_string", "LIFT_STRING"), ("fake_string", "FAKE_STRING"),
                      ("keysound_string", "KEYSOUND_STRING")]:
        lines.append(f"Definition {coq} : Z := {_cp(getattr(SMConst, attr))}.")
    for coq, attr in [("metronome", "METRONOME"), ("max_snap", "MAX_SNAP"), ("max_keys", "MAX_KEYS")]:
        val = getattr(M, attr)
        if not isinstance(val, int) or isinstance(val, bool):
            raise ValueError(f"{attr} is not an int")
        lines.append(f"Definition {coq} : Z := {F.z(val)}.")
    rows = []
    for ty in chart_types():
        k = SMMapChartTypes.get_keys(ty)
        if k is not None and (not isinstance(k, int) or isinstance(k, bool)):
            raise ValueError("get_keys returned a non-int")
        rows.append(f"({_txt(ty)}, {F.opt(k, F.z)})")
    lines.append("Definition chart_keys : list (list Z * option Z) := " + F.lst(rows) + ".")
    rows = []
    for k in range(0, 21):
        t = SMMapChartTypes.get_type(k)
        rows.append(f"({F.z(k)}, {_txt(t if t is not None else '')})")
    lines.append("Definition type_of_keys : list (Z * list Z) := " + F.lst(rows) + ".")
    ws = [c for c in range(sys.maxunicode + 1) if chr(c).isspace()]
    lines.append("Definition py_whitespace : list Z := " + F.lst([F.z(c) for c in ws]) + ".")
    return lines
