"""C06 live tables: the metadata keys written by QuaMapMeta._write_meta (key ids, declared types, default attribute
values) and the default columns of the four empty Quaver lists.  Extracted from the live classes on every run."""
import dataclasses
import typing

from .. import coqfmt as F

# interned names shared by the model (coq/Formats/Qua.v), the tables and the case serialiser
NAME_IDS = {
    "StartTime": 1, "Lane": 2, "EndTime": 3, "KeySounds": 4, "Bpm": 5, "Multiplier": 6,
    "offset": 11, "column": 12, "length": 13, "keysounds": 14, "bpm": 15, "multiplier": 16, "metronome": 17, "index": 18,
    "HitObjects": 21, "TimingPoints": 22, "SliderVelocities": 23,
}
META_KEYS = ["AudioFile", "SongPreviewTime", "BackgroundFile", "BannerFile", "Genre", "BPMDoesNotAffectScrollVelocity",
             "InitialScrollVelocity", "HasScratchKey", "MapId", "MapSetId", "Mode", "Title", "Artist", "Source", "Tags",
             "Creator", "DifficultyName", "Description", "EditorLayers", "CustomAudioSamples", "SoundEffects"]
for _i, _k in enumerate(META_KEYS):
    NAME_IDS[_k] = 101 + _i

TYPE_CODES = {str: 0, int: 1, float: 2, bool: 3, typing.List[str]: 4}


def meta_layout():
    """[(yaml key, attribute name, type code)] in the order _write_meta emits them, found by writing sentinels."""
    from reamber.quaver.QuaMapMeta import QuaMapMeta
    fields = dataclasses.fields(QuaMapMeta)
    m = QuaMapMeta()
    sent = {}
    for i, f in enumerate(fields):
        if f.type == typing.List[str]:
            v = [f"@{i}@"]
        else:
            v = f"@{i}@"
        setattr(m, f.name, v)
        sent[f"@{i}@"] = f
    out = []
    for key, val in m._write_meta().items():
        tok = val[0] if isinstance(val, list) else val
        f = sent[tok]          # KeyError = a written key that is not an attribute: fail closed
        code = TYPE_CODES[f.type]
        if isinstance(val, str) and f.type == typing.List[str]:
            code = 0           # a list attribute written as one string (Tags)
        out.append((key, f.name, code))
    return out


def enc_default(v):
    if isinstance(v, bool):
        return f"(3%Z, {F.z(int(v))}, [])"
    if isinstance(v, int):
        return f"(1%Z, {F.z(v)}, [])"
    if isinstance(v, float):
        n, d = v.as_integer_ratio()
        return f"(2%Z, {F.z(n)}, [{F.z(d)}])"
    if isinstance(v, str):
        return f"(0%Z, 0%Z, {F.lst([F.z(ord(c)) for c in v])})"
    if isinstance(v, list) and not v:
        return "(4%Z, 0%Z, [])"
    if v is None:
        return "(5%Z, 0%Z, [])"
    raise ValueError(f"untranslatable default {v!r}")


def empty_cols(cls):
    cols = list(cls([]).df.columns)
    return F.lst([F.z(NAME_IDS[c]) for c in cols])


def generate():
    from reamber.quaver.QuaMap import QuaMap
    from reamber.quaver.lists.QuaBpmList import QuaBpmList
    from reamber.quaver.lists.QuaSvList import QuaSvList
    from reamber.quaver.lists.notes.QuaHitList import QuaHitList
    from reamber.quaver.lists.notes.QuaHoldList import QuaHoldList
    lay = meta_layout()
    fresh = QuaMap()
    return [
        "Definition meta_table : list (Z * Z) := " + F.lst([f"({F.z(NAME_IDS[k])}, {F.z(c)})" for k, _, c in lay]) + ".",
        "Definition meta_defaults : list (Z * (Z * Z * list Z)) := "
        + F.lst([f"({F.z(NAME_IDS[k])}, {enc_default(getattr(fresh, a))})" for k, a, _ in lay]) + ".",
        "Definition hit_cols : list Z := " + empty_cols(QuaHitList) + ".",
        "Definition hold_cols : list Z := " + empty_cols(QuaHoldList) + ".",
        "Definition bpm_cols : list Z := " + empty_cols(QuaBpmList) + ".",
        "Definition sv_cols : list Z := " + empty_cols(QuaSvList) + ".",
    ]
