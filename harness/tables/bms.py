"""The five BMSChannel layouts (C04/C05), from the live module.  A layout is a list of (channel id as code
points, value): value >= 0 is the column, -1 = TIME_SIG, -2 = BPM_CHANGE, -3 = EXBPM_CHANGE (dict order kept).
Fail-closed on anything else."""
from .. import coqfmt as F

HEADER_CODES = {"TIME_SIG": -1, "BPM_CHANGE": -2, "EXBPM_CHANGE": -3}
LAYOUTS = ["BMS", "BME", "PMS", "PMS_BME", "PMS_5B"]


def layout_rows(cfg):
    rows = []
    for k, v in cfg.items():
        if not isinstance(k, (bytes, bytearray)):
            raise ValueError(f"channel key {k!r} is not bytes")
        if isinstance(v, bool):
            raise ValueError("bool value in layout")
        if isinstance(v, str):
            if v not in HEADER_CODES:
                raise ValueError(f"unknown header channel name {v!r}")
            val = HEADER_CODES[v]
        elif isinstance(v, int):
            if v < 0:
                raise ValueError("negative column")
            val = v
        else:
            raise ValueError(f"layout value {v!r} not int/str")
        rows.append((list(k), val))
    return rows


def live_layouts():
    from reamber.bms.BMSChannel import BMSChannel
    return {n: layout_rows(getattr(BMSChannel, n)) for n in LAYOUTS}


def coq_layout(rows):
    return F.lst(["(" + F.lst([F.z(c) for c in k]) + ", " + F.z(v) + ")" for k, v in rows])


def generate():
    import importlib
    import sys
    importlib.import_module("reamber.bms.BMSMap")
    mod = sys.modules["reamber.bms.BMSMap"]          # the module (reamber.bms re-exports the class under the same name)
    out = []
    ls = live_layouts()
    for n in LAYOUTS:
        out.append(f"Definition layout_{n} : list (list Z * Z) := {coq_layout(ls[n])}.")
    out.append("Definition layouts : list (list (list Z * Z)) := " + F.lst([f"layout_{n}" for n in LAYOUTS]) + ".")
    out.append(f"Definition max_keys : Z := {F.z(int(mod.MAX_KEYS))}.")
    out.append(f"Definition default_metronome : Z := {F.z(int(mod.DEFAULT_METRONOME))}.")
    return out
