"""C01 tables, re-extracted from the live interpreter / live reamber modules on every run:
the exhaustive x -> column and column -> x maps of OsuNoteMeta for
keys 1..18, Python's whitespace set (str.strip / int() / float()), OsuSampleSet names."""
from fractions import Fraction
from .. import coqfmt as F

X_LO, X_HI = -8, 520          # x range swept exhaustively for every key count


def generate():
    from reamber.osu.OsuNoteMeta import OsuNoteMeta
    from reamber.osu.OsuSampleSet import OsuSampleSet
    import sys
    xcol = []
    for k in range(1, 19):
        row = []
        for x in range(X_LO, X_HI):
            c = OsuNoteMeta.x_axis_to_column(x, k)
            if int(c) != c:
                raise ValueError("non-integral column")
            row.append(int(c))
        xcol.append(row)
    colx = []
    for k in range(1, 19):
        row = []
        for c in range(k):
            x = OsuNoteMeta.column_to_x_axis(c, k)
            if int(x) != x:
                raise ValueError("non-integral x")
            row.append(int(x))
        colx.append(row)
    spaces = [c for c in range(sys.maxunicode + 1) if chr(c).isspace()]
    for c in spaces:      # strip() and isspace() must agree (they do in CPython; fail closed otherwise)
        if (chr(c) + "a" + chr(c)).strip() != "a":
            raise ValueError("strip/isspace disagree")
    names = [OsuSampleSet.to_string(i) for i in range(4)]
    for i, n in enumerate(names):
        if OsuSampleSet.from_string(n) != i:
            raise ValueError("sample set names not invertible")
    zl = lambda l: "[" + ";".join(str(int(v)) for v in l) + "]%Z"
    return [
        f"Definition x_lo : Z := ({X_LO})%Z.",
        f"Definition x_hi : Z := {X_HI}%Z.",
        "Definition xcol : list (list Z) := [" + ";\n".join(zl(r) for r in xcol) + "].",
        "Definition colx : list (list Z) := [" + "; ".join(zl(r) for r in colx) + "].",
        "Definition py_space : list Z := " + zl(spaces) + ".",
        "Definition sampleset_names : list (list Z) := [" + "; ".join(zl([ord(ch) for ch in n]) for n in names) + "].",
        f"Definition sampleset_invalid : Z := ({int(OsuSampleSet.from_string('nonsense'))})%Z.",
    ]
