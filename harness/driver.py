"""Generic check driver: ties a property module (harness/props/cXX.py) to the Coq development."""
from __future__ import annotations

import importlib
import json
import os
import random
import sys
import time
import traceback

from . import framework as fw


def _load_corpus(pid):
    d = os.path.join(fw.VERIF, "corpus", pid)
    out = []
    if os.path.isdir(d):
        for f in sorted(os.listdir(d)):
            if f.endswith(".json"):
                try:
                    out.append(json.load(open(os.path.join(d, f))))
                except Exception:
                    pass
    return out


def _execute_all(mod, cases):
    outs = []
    for c in cases:
        try:
            outs.append(mod.execute(c))
        except Exception as e:  # harness-level failure (not an implementation exception the property maps)
            outs.append({"harness_error": f"{type(e).__name__}: {e}", "tb": traceback.format_exc()[-1500:]})
    return outs


def _evaluate(mod, cases, outs, tag):
    """Evaluate all cases in Coq.  A case may expand to several Coq terms (emit_all: one per transition of
    a history); a case fails a criterion when any of its terms does; res["sub"][kind][case] = first failing term."""
    terms, idx = [], []
    for i, (c, o) in enumerate(zip(cases, outs)):
        if "harness_error" in o:
            continue
        if hasattr(mod, "emit_all"):
            for j, t in enumerate(mod.emit_all(c, o)):
                terms.append(t)
                idx.append((i, j))
        else:
            terms.append(mod.emit(c, o))
            idx.append((i, 0))
    res = None
    for attempt in range(4):
        try:
            res = fw.eval_cases(mod.ID, mod.RUNNER, mod.CASE_TYPE, terms, tag=tag)
            break
        except RuntimeError as e:
            if attempt == 3 or ("inconsistent assumptions" not in str(e) and "Compiled library" not in str(e)):
                raise
            # another check rebuilt Generated/Tables.vo in between: rebuild this runner and evaluate again
            with fw.BuildLock():
                fw.regenerate_tables()
                fw.make(mod.RUNNER_TARGETS)
    back = {"sub": {}}
    for k in ("corr", "spec", "wf"):
        back[k] = set()
        back["sub"][k] = {}
        for j in sorted(res[k]):
            ci, sj = idx[j]
            back[k].add(ci)
            back["sub"][k].setdefault(ci, []).append(sj)
    back["shards"] = res["shards"]
    back["terms"] = len(terms)
    return back


def _classify(mod, c, o, kind, res=None, i=None):
    if not hasattr(mod, "classify"):
        return None
    if hasattr(mod, "emit_all"):
        subs = None
        if res is not None and i is not None:
            subs = res.get("sub", {}).get(kind, {}).get(i)
        if not subs:
            return mod.classify(c, o, kind, None)
        keys = [mod.classify(c, o, kind, sj) for sj in subs]
        if any(k is None for k in keys):
            return None          # at least one failing transition is not a listed finding
        return keys[0]
    return mod.classify(c, o, kind)


def _size(case):
    return len(json.dumps(case, default=str))


def _shrink(mod, case, kind, budget_rounds=10, known_keys=()):
    """Greedy batch shrinking: keep a candidate that still fails the same way (and is not a listed finding:
    shrinking must not slide from a new violation into a known one)."""
    if not hasattr(mod, "shrink"):
        return case
    cur = case
    for _ in range(budget_rounds):
        cands = list(mod.shrink(cur))[:60]
        if not cands:
            break
        outs = _execute_all(mod, cands)
        try:
            res = _evaluate(mod, cands, outs, tag="shrink")
        except Exception:
            break
        bad = sorted(res[kind] - res["wf"], key=lambda i: _size(cands[i]))
        bad = [i for i in bad if _classify(mod, cands[i], outs[i], kind, res, i) not in known_keys]
        if not bad:
            break
        cur = cands[bad[0]]
    return cur


def run(pid: str, tier: str, seed: int, replay: str | None = None) -> int:
    """one run of one property's check; two runs of the same property (same tree class) never overlap: they share
    build/<pid>/ (case shards, assumptions.v)"""
    import fcntl
    os.makedirs(os.path.join(fw.BUILD, pid), exist_ok=True)
    with open(os.path.join(fw.BUILD, pid, ".runlock"), "w") as lf:
        fcntl.flock(lf, fcntl.LOCK_EX)
        return _run(pid, tier, seed, replay)


def _run(pid: str, tier: str, seed: int, replay: str | None = None) -> int:
    t0 = time.time()
    fw.setup_paths()
    mod = importlib.import_module(f"harness.props.{pid.lower()}")
    known = [k for k in fw.load_known_findings() if k.get("property") == pid and k.get("status") == "known"]
    known_keys = {k["key"]: k for k in known}
    outc = fw.Outcome()
    notes = []

    # ---- 1. regenerate tables from the live tree, rebuild runner and proofs ----
    with fw.BuildLock():
        changed = fw.regenerate_tables()
        fw.coq_makefile()
        ok_run, log_run = fw.make(mod.RUNNER_TARGETS)
        ok_prf, log_prf = fw.make(mod.PROOF_TARGETS)
    props_v = os.path.join(fw.COQ, mod.PROPS_FILE)
    thms = [t for t in fw.theorems_in(props_v)]
    obligations = len(thms)
    discharged = obligations if ok_prf else 0
    assumptions_txt = []
    if ok_prf:
        blocks, raw = fw.print_assumptions(pid, mod.PROPS_MODULE, [t for t in thms])
        if blocks is None:
            ok_prf = False
            log_prf += "\nPrint Assumptions failed:\n" + raw[-1500:]
            discharged = 0
        else:
            assumptions_txt = [f"{t}: {b}" for t, b in zip(thms, blocks)]
    broken_obligation = None
    if not ok_prf:
        import re
        m = re.search(r'File "\./([^"]+)", line (\d+)', log_prf)
        broken_obligation = {"file": m.group(1) if m else "?", "line": int(m.group(2)) if m else 0,
                             "log_tail": log_prf[-1500:]}

    # ---- 2. cases: corpus first, then generated (or the single replay case) ----
    if replay:
        rp = json.load(open(replay))
        cases = [rp["case"]] if "case" in rp and rp["case"] is not None else []
    else:
        rng = random.Random(seed * 1000003 + 17)
        cases = _load_corpus(pid) + list(mod.generate(rng, tier))
    outs = _execute_all(mod, cases)
    herr = [i for i, o in enumerate(outs) if "harness_error" in o]
    for i in herr[:3]:
        outc.internal.append(f"harness error on case {i}: {outs[i]['harness_error']}")

    res = {"corr": set(), "spec": set(), "wf": set(), "shards": 0, "sub": {}, "terms": 0}
    if ok_run and cases:
        try:
            res = _evaluate(mod, cases, outs, tag="cases")
        except Exception as e:
            ok_run = False
            log_run += f"\n{e}"
    if not ok_run:
        broken_obligation = broken_obligation or {"file": "Corr runner / Generated/Tables.v",
                                                  "line": 0, "log_tail": log_run[-1500:]}

    # python-side oracle (independent re-check on the implementation, used in the search phase too)
    py_fail = set()
    if hasattr(mod, "py_oracle"):
        for i, (c, o) in enumerate(zip(cases, outs)):
            if "harness_error" in o:
                continue
            try:
                if mod.py_oracle(c, o) is False:
                    py_fail.add(i)
            except Exception:
                pass

    spec_fail = (res["spec"] | py_fail)
    corr_fail = res["corr"] - spec_fail
    if os.environ.get("VERIF_DEBUG"):
        for kind_ in ("corr", "spec"):
            for i in sorted(res[kind_])[:int(os.environ.get("VERIF_DEBUG"))]:
                print(f"DEBUG {kind_} case {i} subs={res.get('sub', {}).get(kind_, {}).get(i)}: "
                      f"{mod.describe(cases[i], outs[i]) if hasattr(mod, 'describe') else ''}")
                if os.environ.get("VERIF_DEBUG_VERBOSE"):
                    print("   ", json.dumps(cases[i], default=str)[:1500])
                    print("   ", json.dumps(outs[i], default=str)[:2500])
                # dump the failing Coq terms for interactive inspection
                try:
                    ts = mod.emit_all(cases[i], outs[i]) if hasattr(mod, "emit_all") else [mod.emit(cases[i], outs[i])]
                    subs = res.get("sub", {}).get(kind_, {}).get(i) or [0]
                    dp = os.path.join(fw.BUILD, pid, f"debug_{kind_}_{i}.v")
                    with open(dp, "w") as f:
                        f.write(f"From RV Require Import {mod.RUNNER}.\nFrom Coq Require Import ZArith QArith List.\n"
                                "Import ListNotations.\nOpen Scope Q_scope.\n")
                        for sj in subs[:3]:
                            f.write(f"Definition c{sj} : {mod.CASE_TYPE} := {ts[sj]}.\nEval vm_compute in (check c{sj}).\n")
                    print("    coq terms dumped to", dp)
                except Exception as e:
                    print("    (could not dump terms:", e, ")")

    def report(i, kind, suffix=""):
        c, o = cases[i], outs[i]
        key = _classify(mod, c, o, kind, res, i)
        if key and key in known_keys:
            line = f"KNOWN-FINDING: property={pid} {known_keys[key]['what']} [{key}]"
            if line not in outc.known:
                outc.known.append(line)
            return
        outc.violations.append((i, kind, key, suffix))

    for i in sorted(spec_fail):
        report(i, "spec")

    # ---- 3. divergence without a failing oracle, or a broken obligation: search ----
    searched = 0
    # (a correspondence failure that is a listed finding needs no search: it is reported as KNOWN-FINDING below)
    corr_unknown = [i for i in sorted(corr_fail)
                    if not ((_classify(mod, cases[i], outs[i], "corr", res, i) or "") in known_keys)]
    need_search = (corr_unknown or broken_obligation) and not outc.violations and not replay
    extra_cases, extra_outs = [], []
    if need_search:
        for k in range(1, 4 if tier == "quick" else 8):
            rng2 = random.Random(seed * 7919 + 104729 * k)
            ec = list(mod.generate(rng2, tier))
            eo = _execute_all(mod, ec)
            searched += len(ec)
            bad = set()
            if hasattr(mod, "py_oracle"):
                for i, (c, o) in enumerate(zip(ec, eo)):
                    try:
                        if "harness_error" not in o and mod.py_oracle(c, o) is False:
                            bad.add(i)
                    except Exception:
                        pass
            if ok_run:
                try:
                    r2 = _evaluate(mod, ec, eo, tag="search")
                    bad |= r2["spec"]
                except Exception:
                    r2 = None
            else:
                r2 = None
            newbad = []
            for i in sorted(bad):
                key = _classify(mod, ec[i], eo[i], "spec", r2, i)
                if not (key and key in known_keys):
                    newbad.append(i)
            if newbad:
                j = min(newbad, key=lambda i: _size(ec[i]))
                cases.append(ec[j]); outs.append(eo[j])
                outc.violations.append((len(cases) - 1, "spec", None, ""))
                break
    if not outc.violations:
        for i in sorted(corr_fail):
            report(i, "corr", " no-failing-input-found")
            if outc.violations:
                break
        if broken_obligation and not outc.violations:
            outc.violations.append((None, "obligation", None, " no-failing-input-found"))

    # ---- 4. replay files and VIOLATION lines (one per distinct key, smallest case) ----
    printed = []
    by_key = {}
    for (i, kind, key, suffix) in outc.violations:
        k = (kind, key)
        if k not in by_key or (i is not None and by_key[k][0] is not None and _size(cases[i]) < _size(cases[by_key[k][0]])):
            by_key[k] = (i, kind, key, suffix)
    os.makedirs(fw.REPLAYS, exist_ok=True)
    for n, (i, kind, key, suffix) in enumerate(list(by_key.values())[:5]):
        case = cases[i] if i is not None else None
        if case is not None and kind in ("spec", "corr") and ok_run and not replay:
            try:
                small = _shrink(mod, case, kind, known_keys=set(known_keys))
                if small is not case:
                    case = small
            except Exception:
                pass
        out = None
        if case is not None:
            try:
                out = mod.execute(case)
            except Exception as e:
                out = {"harness_error": str(e)}
        rp = {"property": pid, "kind": kind, "finding_key": key, "case": case, "impl_output": out,
              "repo": fw.REPO, "seed": seed, "tier": tier,
              "what": {"spec": "the proven oracle (Coq specb / reference interpreter) evaluated on the implementation's output is false",
                       "corr": f"correspondence broken: model {mod.RUNNER} and implementation disagree on this case; "
                               f"the theorems of {mod.PROPS_FILE} no longer transfer to the implementation",
                       "obligation": "a proof obligation no longer checks"}[kind],
              "broken_obligation": broken_obligation,
              "how_to_replay": f"bin/check {pid} --replay <this file>"}
        if hasattr(mod, "describe") and case is not None:
            try:
                rp["description"] = mod.describe(case, out)
            except Exception:
                pass
        path = os.path.join(fw.REPLAYS, f"{pid}-{seed}-{tier}-{n}.json")
        fw.write_json(path, rp)
        printed.append(f"VIOLATION property={pid} replay={path}{suffix}")

    # ---- 5. evidence ----
    nontriv = set()
    dist = {}
    for c, o in zip(cases, outs):
        if "harness_error" in o:
            continue
        try:
            nt = mod.nontrivial(c, o)
        except Exception:
            nt = False
        if nt:
            nontriv.add(fw.case_hash(c))
        if hasattr(mod, "bucket"):
            b = mod.bucket(c, o)
            dist[b] = dist.get(b, 0) + 1
    samples = []
    for c, o in list(zip(cases, outs))[:: max(1, len(cases) // 3)][:3]:
        samples.append({"case": c, "impl_output": o})
    ev = {
        "property_id": pid, "tier": tier, "seed": seed, "level": "proof",
        "coverage": {
            "obligations": max(obligations, 1), "discharged": discharged,
            "checker_cmd": f"cd {fw.COQ} && make {' '.join(mod.PROOF_TARGETS)}  (coqc 8.16.1 full .vo build; Print Assumptions per theorem)",
            "trusted_base": [
                "Coq 8.16.1 kernel + VM (vm_compute); no native_compute",
                "harness/gen_tables.py (value translator of live tables into Generated/Tables.v)",
                "harness/props/%s.py: generator, implementation driver, serialisation of inputs/outputs to Coq terms" % pid.lower(),
                "hand-written model %s tied by in-Coq correspondence, not by translation" % mod.RUNNER,
            ] + assumptions_txt + list(getattr(mod, "TRUSTED", [])),
            "theorems": thms,
            "evaluations": len(cases) + searched,
            "distinct_nontrivial": len(nontriv),
            "rule": getattr(mod, "RULE", ""),
            "samples": samples,
            "traces_validated_against_impl": len(cases) - len(herr),
            "corr_fail": len(res["corr"]), "spec_fail": len(spec_fail), "outside_domain": len(res["wf"]),
            "shards": res["shards"], "coq_terms_evaluated": res.get("terms", 0), "distribution": dist,
            "tables_regenerated_changed": bool(changed),
            "proofs_build_ok": bool(ok_prf), "runner_build_ok": bool(ok_run),
            "search_cases": searched,
        },
        "assumptions": list(getattr(mod, "ASSUMPTIONS", [])),
        "wall_s": round(time.time() - t0, 2),
        "violations": len(printed),
    }
    if not replay:
        # evidence describes runs against /repo itself; a run against another tree (VERIF_REPO, used to try seeded
        # changes) leaves its record under build/ and never overwrites the committed evidence
        if os.path.realpath(fw.REPO) == os.path.realpath("/repo"):
            fw.write_json(os.path.join(fw.VERIF, "evidence", f"{pid}.json"), ev)
        else:
            fw.write_json(os.path.join(fw.BUILD, pid, "evidence_other_tree.json"), ev)

    for l in outc.known:
        print(l)
    for l in printed:
        print(l)
    for l in outc.internal:
        print("INTERNAL: " + l)
    print(f"[{pid}] tier={tier} seed={seed} cases={len(cases)} corr_fail={len(res['corr'])} spec_fail={len(spec_fail)} "
          f"outside_domain={len(res['wf'])} proofs_ok={ok_prf} runner_ok={ok_run} wall={ev['wall_s']}s")
    if not ok_prf or not ok_run:
        print((log_prf if not ok_prf else log_run)[-1200:])
    return 1 if (printed or outc.internal) else 0
