"""Serialisation of Python values to Coq terms (part of the trusted tie)."""
from fractions import Fraction


def z(n) -> str:
    n = int(n)
    return f"({n})%Z" if n < 0 else f"{n}%Z"


def nat(n) -> str:
    return f"{int(n)}%nat"


def q(x) -> str:
    """Exact rational literal: floats cross the boundary exactly (as_integer_ratio)."""
    if isinstance(x, float):
        if x != x or x in (float("inf"), float("-inf")):
            raise ValueError("non-finite float cannot be serialised")
    f = Fraction(x)
    n, d = f.numerator, f.denominator
    return f"(({n})#{d})" if n < 0 else f"({n}#{d})"


def lst(items) -> str:
    return "[" + "; ".join(items) + "]"


def opt(x, f) -> str:
    return "None" if x is None else f"(Some {f(x)})"


def boolean(b) -> str:
    return "true" if b else "false"


def frac_json(x):
    """JSON-safe exact representation."""
    f = Fraction(x)
    return [f.numerator, f.denominator]


def frac_from_json(p):
    return Fraction(p[0], p[1])
