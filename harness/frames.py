"""Serialisation of pandas frames / reamber lists to the Coq Frame model (part of the trusted tie).

Columns are interned as integers (fixed ids for the semantically relevant ones) and every frame is
serialised with its columns sorted by id, so column ORDER is never compared.  Strings and opaque objects
are interned per case.  Numeric cells cross the boundary exactly (float.as_integer_ratio)."""
import math
import zlib
from fractions import Fraction as Fr

import numpy as np
import pandas as pd

from . import coqfmt as F

FIXED = {"offset": 0, "column": 1, "length": 2, "bpm": 3, "metronome": 4, "multiplier": 5, "index": 6, "level_0": 7}


def col_id(name) -> int:
    name = str(name)
    if name in FIXED:
        return FIXED[name]
    return 1000 + (zlib.crc32(name.encode()) % 1000000)


class Interner:
    def __init__(self):
        self.d = {}

    def get(self, s) -> int:
        key = repr(s)
        if key not in self.d:
            self.d[key] = len(self.d) + 1
        return self.d[key]


def cell_json(v, it: Interner):
    """-> JSON-able tagged cell"""
    if v is None:
        return ["none"]
    if isinstance(v, (bool, np.bool_)):
        return ["bool", bool(v)]
    if isinstance(v, (int, np.integer)):
        return ["num", [int(v), 1]]
    if isinstance(v, (float, np.floating)):
        v = float(v)
        if math.isnan(v):
            return ["nan"]
        if math.isinf(v):
            return ["str", it.get("inf" if v > 0 else "-inf")]
        f = Fr(v)
        return ["num", [f.numerator, f.denominator]]
    if isinstance(v, Fr):
        return ["num", [v.numerator, v.denominator]]
    if isinstance(v, (list, tuple, np.ndarray)):
        return ["list", [it.get(x) for x in v]]
    if v is pd.NaT or (hasattr(pd, "NA") and v is pd.NA):
        return ["nan"]
    return ["str", it.get(v)]


def frame_json(df: pd.DataFrame, it: Interner):
    cols = [(col_id(c), c) for c in df.columns]
    order = sorted(range(len(cols)), key=lambda i: cols[i][0])
    ids = [cols[i][0] for i in order]
    if len(set(ids)) != len(ids):
        raise ValueError("column id collision")
    rows = []
    labels = list(df.index)
    colvals = [list(df.iloc[:, j].tolist()) for j in range(len(df.columns))]
    for k in range(len(df)):
        lab = labels[k]
        lab = int(lab) if isinstance(lab, (int, np.integer)) else it.get(lab) + 10 ** 9
        rows.append([lab, [cell_json(colvals[i][k], it) for i in order]])
    return {"cols": ids, "names": [str(cols[i][1]) for i in order], "rows": rows}


def cell_coq(c) -> str:
    t = c[0]
    if t == "num":
        return f"CNum {F.q(Fr(c[1][0], c[1][1]))}"
    if t == "str":
        return f"CStr {F.z(c[1])}"
    if t == "bool":
        return f"CBool {F.boolean(c[1])}"
    if t == "list":
        return "CList " + F.lst([F.z(x) for x in c[1]])
    if t == "nan":
        return "CNaN"
    if t == "none":
        return "CNone"
    raise ValueError(t)


def row_coq(r) -> str:
    return F.lst([cell_coq(c) for c in r])


def frame_coq(fj) -> str:
    rows = F.lst([f"({F.z(lab)}, {row_coq(r)})" for lab, r in fj["rows"]])
    return f"(mkFrame {F.lst([F.z(c) for c in fj['cols']])} {rows})"


def sorted_ids(names):
    return sorted(col_id(n) for n in names)


def row_by_ids(d: dict, ids_sorted_names, it: Interner):
    """cells of a dict (name -> value) in the order of sorted column ids"""
    return [cell_json(d[n], it) for n in ids_sorted_names]


def names_sorted(names):
    return sorted(names, key=col_id)
