"""Rewrites MANIFEST.json from the registry below (run: /venv/bin/python -m harness.manifest)."""
import json, os
V = os.path.dirname(os.path.dirname(os.path.abspath(__file__)))
CLAIMED = {
 "C10": dict(
   text="Machine-checked theorems (Coq 8.16.1) about an executable Gallina model of Snapper/Snap/TimingMap over exact rationals: "
        "nearest-allowed-fraction, within 1/192, idempotence for every input and every table satisfying the structural obligations "
        "(re-checked on the table regenerated from the live Snapper each run); the model is tied to the code by in-Coq correspondence "
        "(implementation executed on fractions.Fraction, exact equality) plus the integration oracle evaluated on implementation outputs.",
   note="Trusted: Coq kernel+VM, harness generator/serialiser, gen_tables translator; binary64 rounding measured (rounded stream, tol 1e-6 ms) not proved; "
        "theorems are 'Closed under the global context'.",
   technique="Coq proof over executable model + vm_compute correspondence against the implementation",
   design="4/C10"),
}
def main():
    props = [json.loads(l) for l in open(os.path.join(V, "properties.jsonl"))]
    m = json.load(open(os.path.join(V, "MANIFEST.json")))
    m["setup_cmd"] = "bin/setup"
    m["checks"] = []
    m["not_applicable"] = []
    for p in props:
        pid = p["id"]
        if pid in CLAIMED:
            c = CLAIMED[pid]
            m["checks"].append({
                "property_id": pid,
                "quick_cmd": f"bin/check {pid} --tier quick",
                "thorough_cmd": f"bin/check {pid} --tier thorough",
                "evidence_file": f"evidence/{pid}.json",
                "replay_cmd_template": f"bin/check {pid} --replay {{path}}",
                "engine": "coq-model",
                "level_claimed": {"category": "proof", "text": c["text"], "design_ref": c["design"]},
                "level_note": c["note"],
                "technique": c["technique"],
            })
        else:
            m["not_applicable"].append({"property_id": pid, "reason": "check under construction in this session (not yet claimed); see DESIGN.md section 8 build order"})
    m["engines"][0]["serves_properties"] = sorted(CLAIMED)
    json.dump(m, open(os.path.join(V, "MANIFEST.json"), "w"), indent=1)
main()
