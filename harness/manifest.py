"""Rewrites MANIFEST.json from the registry below (run: /venv/bin/python -m harness.manifest)."""
import json, os
V = os.path.dirname(os.path.dirname(os.path.abspath(__file__)))
import importlib, sys
sys.path.insert(0, V)
CLAIMED_IDS = ["C01", "C02", "C03", "C04", "C05", "C06", "C07", "C08", "C09", "C10", "C11", "C12", "C13", "C14", "C15", "C16", "C17", "C18", "C19", "C20"]
CLAIMED = {pid: importlib.import_module(f"harness.props.{pid.lower()}").MANIFEST for pid in CLAIMED_IDS}
def main():
    props = [json.loads(l) for l in open(os.path.join(V, "properties.jsonl"))]
    m = json.load(open(os.path.join(V, "MANIFEST.json")))
    m["setup_cmd"] = "bin/setup"
    m["checks"] = []
    m["not_applicable"] = []
    for p in props:
        pid = p["id"]
        if pid in CLAIMED:
            c = CLAIMED[pid]
            m["checks"].append({
                "property_id": pid,
                "quick_cmd": f"bin/check {pid} --tier quick",
                "thorough_cmd": f"bin/check {pid} --tier thorough",
                "evidence_file": f"/verif/evidence/{pid}.json",
                "replay_cmd_template": f"bin/check {pid} --replay {{path}}",
                "engine": "coq-model",
                "level_claimed": {"category": "proof", "text": c["text"], "design_ref": c["design"]},
                "level_note": c["note"],
                "technique": c["technique"],
            })
        else:
            m["not_applicable"].append({"property_id": pid, "reason": "check under construction in this session (not yet claimed); see DESIGN.md section 8 build order"})
    m["engines"][0]["serves_properties"] = sorted(CLAIMED)
    json.dump(m, open(os.path.join(V, "MANIFEST.json"), "w"), indent=1)
main()
