(* SPECIFICATION for C16: the same operations on a plain sequence of rows (no labels, no frame). *)
From Coq Require Import ZArith QArith Qround List Bool Sorting.Permutation.
From RV Require Import Base.PyNum Frame.Frame Lists.TimedList.
Import ListNotations.
Open Scope Q_scope.

Inductive sout :=
| SRows (l : list row)                 (* a new sequence *)
| SSorted (asc : bool) (l : list row)  (* any permutation of l that is sorted by offset (ties in any order) *)
| SNat (n : nat)
| SItem (r : option row)
| SItems (cols : list Z) (l : list row)
| STime (o : option Q)
| STime2 (a b : option Q)
| SUndefined.                          (* the plain-sequence semantics gives no answer; see C16_refuted *)

Definition seq_slice (start stop step : Z) (l : list row) : list row :=
  pick l (range_idx (S (length l)) start stop step).
Definition seq_get (i : Z) (l : list row) : option row :=
  let n := Z.of_nat (length l) in
  let j := if (i <? 0)%Z then (i + n)%Z else i in
  if ((j <? 0) || (n <=? j))%Z then None else nth_z l j.

Definition seq_step (hold : bool) (allowed cols : list Z) (l : list row) (o : tlop) : sout :=
  match o with
  | OLen => SNat (length l)
  | OGetInt i => SItem (seq_get i l)
  | OSlice a b s => SRows (seq_slice a b s l)
  | OIter => SItems (restrict_cols cols allowed) (map (restrict cols allowed) l)
  | OFirst => STime (minmax false (map (offset_of cols) l))
  | OLast => STime (minmax true (map (if hold then hold_key cols true else offset_of cols) l))
  | OFirstLast => STime2 (minmax false (map (offset_of cols) l))
                         (minmax true (map (if hold then hold_key cols true else offset_of cols) l))
  | OSorted rev => SSorted (negb rev) l
  | OAppend rows srt => if srt then SSorted true (l ++ rows) else SRows (l ++ rows)
  | OAfter t incl => SRows (filter (if hold then p_hafter cols t incl false else p_after cols t incl) l)
  | OBefore t incl => SRows (filter (if hold then p_hbefore cols t incl true else p_before cols t incl) l)
  | OBetween lo hi i1 i2 =>
      SRows (filter (fun r => (if hold then p_hafter cols lo i1 false r else p_after cols lo i1 r)
                              && (if hold then p_hbefore cols hi i2 true r else p_before cols hi i2 r)) l)
  | OHAfter t incl tail => if hold then SRows (filter (p_hafter cols t incl tail) l) else SUndefined
  | OHBefore t incl head => if hold then SRows (filter (p_hbefore cols t incl head) l) else SUndefined
  | OHBetween lo hi i1 i2 head tail =>
      if hold then SRows (filter (fun r => p_hafter cols lo i1 tail r && p_hbefore cols hi i2 head r) l)
      else SUndefined
  end.

(* ---- boolean comparison of an observed output against the specification ---- *)
Fixpoint rows_eqb (a b : list row) : bool :=
  match a, b with
  | [], [] => true
  | x :: a', y :: b' => row_eqb x y && rows_eqb a' b'
  | _, _ => false
  end.
Fixpoint remove_row (r : row) (l : list row) : option (list row) :=
  match l with
  | [] => None
  | x :: l' => if row_eqb r x then Some l'
               else match remove_row r l' with Some m => Some (x :: m) | None => None end
  end.
Fixpoint perm_rows (a b : list row) : bool :=
  match a with
  | [] => match b with [] => true | _ => false end
  | x :: a' => match remove_row x b with Some b' => perm_rows a' b' | None => false end
  end.
Fixpoint sorted_by (cols : list Z) (asc : bool) (l : list row) : bool :=
  match l with
  | [] => true
  | x :: l' => match l' with
               | [] => true
               | y :: _ => negb (key_lt asc (offset_of cols y) (offset_of cols x)) && sorted_by cols asc l'
               end
  end.
Definition optq_eqb (a b : option Q) : bool :=
  match a, b with Some x, Some y => Qeq_bool x y | None, None => true | _, _ => false end.
Definition optrow_eqb (a b : option row) : bool :=
  match a, b with Some x, Some y => row_eqb x y | None, None => true | _, _ => false end.

(* observed output (as a tlout over the observed frame) meets the sequence specification *)
Definition meets (cols : list Z) (s : sout) (o : tlout) : bool :=
  match s, o with
  | SRows l, RFrame f => rows_eqb l (abs_rows f) && zlist_eqb (fcols f) cols
  | SSorted asc l, RFrame f => perm_rows l (abs_rows f) && sorted_by cols asc (abs_rows f) && zlist_eqb (fcols f) cols
  | SNat n, RNat m => Nat.eqb n m
  | SItem a, RItem b => optrow_eqb a b
  | SItems c l, RItems c' l' => zlist_eqb c c' && rows_eqb l l'
  | STime a, RTime b => optq_eqb a b
  | STime2 a b, RTime2 a' b' => optq_eqb a a' && optq_eqb b b'
  | _, _ => false
  end.
