(* Model of TimedList / HoldList public operations on the Frame model.  Definitions only. *)
From Coq Require Import ZArith QArith Qround List Bool.
From RV Require Import Base.PyNum Frame.Frame.
Import ListNotations.
Open Scope Q_scope.

Inductive tlop :=
| OLen
| OGetInt (i : Z)
| OSlice (start stop step : Z)          (* list[slice], after slice.indices(len) *)
| OIter
| OFirst | OLast | OFirstLast
| OSorted (reverse : bool)
| OAppend (rows : list row) (sort : bool)
| OAfter (t : Q) (incl : bool)
| OBefore (t : Q) (incl : bool)
| OBetween (lo hi : Q) (i1 i2 : bool)
| OHAfter (t : Q) (incl tail : bool)
| OHBefore (t : Q) (incl head : bool)
| OHBetween (lo hi : Q) (i1 i2 head tail : bool).

Inductive tlout :=
| RFrame (f : frame)                 (* a new list *)
| RNat (n : nat)
| RItem (r : option row)             (* item built from a row; None = IndexError *)
| RItems (cols : list Z) (l : list row) (* iteration: items restricted to the allowed names *)
| RTime (o : option Q)               (* None = Python None (empty list) *)
| RTime2 (a b : option Q)
| RExc.                              (* an exception the plain-sequence semantics does not have *)

Definition offset_of (cols : list Z) (r : row) : option Q := num_of (get_cell cols COL_OFFSET r).
Definition length_of (cols : list Z) (r : row) : option Q := num_of (get_cell cols COL_LENGTH r).

(* comparisons with NaN are False *)
Definition cmp_ge (a : option Q) (t : Q) := match a with Some x => Qle_bool t x | None => false end.
Definition cmp_gt (a : option Q) (t : Q) := match a with Some x => Qlt_bool t x | None => false end.
Definition cmp_le (a : option Q) (t : Q) := match a with Some x => Qle_bool x t | None => false end.
Definition cmp_lt (a : option Q) (t : Q) := match a with Some x => Qlt_bool x t | None => false end.

Definition p_after (cols : list Z) (t : Q) (incl : bool) (r : row) : bool :=
  if incl then cmp_ge (offset_of cols r) t else cmp_gt (offset_of cols r) t.
Definition p_before (cols : list Z) (t : Q) (incl : bool) (r : row) : bool :=
  if incl then cmp_le (offset_of cols r) t else cmp_lt (offset_of cols r) t.

Definition opt_add (a b : option Q) : option Q :=
  match a, b with Some x, Some y => Some (Qred (x + y)) | _, _ => None end.
(* HoldList: offset + (length if flag else 0) *)
Definition hold_key (cols : list Z) (use_len : bool) (r : row) : option Q :=
  if use_len then opt_add (offset_of cols r) (length_of cols r) else offset_of cols r.
Definition p_hafter (cols : list Z) (t : Q) (incl tail : bool) (r : row) : bool :=
  if incl then cmp_ge (hold_key cols tail r) t else cmp_gt (hold_key cols tail r) t.
Definition p_hbefore (cols : list Z) (t : Q) (incl head : bool) (r : row) : bool :=
  if incl then cmp_le (hold_key cols (negb head) r) t else cmp_lt (hold_key cols (negb head) r) t.

(* min / max as Python's min()/max() over a Series: first extreme wins; any NaN makes comparisons False *)
Fixpoint fold_minmax (is_max : bool) (cur : Q) (l : list (option Q)) : option Q :=
  match l with
  | [] => Some cur
  | None :: _ => None        (* NaN offsets are outside the domain: reported as None and excluded by wf *)
  | Some x :: l' => fold_minmax is_max (if is_max then (if Qlt_bool cur x then x else cur)
                                                   else (if Qlt_bool x cur then x else cur)) l'
  end.
Definition minmax (is_max : bool) (l : list (option Q)) : option Q :=
  match l with
  | [] => None
  | None :: _ => None
  | Some x :: l' => fold_minmax is_max x l'
  end.

Definition restrict (cols allowed : list Z) (r : row) : row :=
  map snd (filter (fun cv => existsb (Z.eqb (fst cv)) allowed) (combine cols r)).
Definition restrict_cols (cols allowed : list Z) : list Z :=
  filter (fun c => existsb (Z.eqb c) allowed) cols.

(* [hold] = the list is a HoldList subclass; [allowed] = _from_series_allowed_names of the item class *)
Definition tl_step (hold : bool) (allowed : list Z) (f : frame) (o : tlop) : tlout :=
  let cols := fcols f in
  match o with
  | OLen => RNat (nrows f)
  | OGetInt i => RItem (iloc_row i f)
  | OSlice a b s => RFrame (iloc_slice a b s f)
  | OIter => RItems (restrict_cols cols allowed) (map (restrict cols allowed) (abs_rows f))
  | OFirst => RTime (minmax false (map (offset_of cols) (abs_rows f)))
  | OLast => RTime (minmax true (map (if hold then hold_key cols true else offset_of cols) (abs_rows f)))
  | OFirstLast => RTime2 (minmax false (map (offset_of cols) (abs_rows f)))
                         (minmax true (map (if hold then hold_key cols true else offset_of cols) (abs_rows f)))
  | OSorted rev => RFrame (sort_values COL_OFFSET (negb rev) f)
  | OAppend rows srt =>
      let g := concat_ignore_index f rows in
      RFrame (if srt then sort_values COL_OFFSET true g else g)
  | OAfter t incl => if hold then RFrame (filter_rows (p_hafter cols t incl false) f)
                     else RFrame (filter_rows (p_after cols t incl) f)
  | OBefore t incl => if hold then RFrame (filter_rows (p_hbefore cols t incl true) f)
                      else RFrame (filter_rows (p_before cols t incl) f)
  | OBetween lo hi i1 i2 =>
      if hold then RFrame (filter_rows (p_hbefore cols hi i2 true) (filter_rows (p_hafter cols lo i1 false) f))
      else RFrame (filter_rows (p_before cols hi i2) (filter_rows (p_after cols lo i1) f))
  | OHAfter t incl tail => if hold then RFrame (filter_rows (p_hafter cols t incl tail) f) else RExc
  | OHBefore t incl head => if hold then RFrame (filter_rows (p_hbefore cols t incl head) f) else RExc
  | OHBetween lo hi i1 i2 head tail =>
      if hold then RFrame (filter_rows (p_hbefore cols hi i2 head) (filter_rows (p_hafter cols lo i1 tail) f))
      else RExc
  end.
