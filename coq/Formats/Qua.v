(* C06 — Quaver .qua read/write.  MODEL (definitions only): an executable transcription of
   reamber/quaver/QuaMap.py (read, write, _read_notes, _read_bpms, _read_svs), QuaMapMeta.py
   (_read_metadata, _write_meta) and the from_yaml / to_yaml pipelines of Qua{Hit,Hold,Bpm,Sv}List on YAML
   *trees* (PyYAML is a named oracle; the harness hands over yaml.safe_load(text)).
   pandas subset: a frame is a column list plus rows as association lists carrying every column.
   An exception of the implementation is [None].  Quirks are transcribed, not repaired. *)
From Coq Require Import ZArith QArith Qround List Bool.
From RV Require Import Base.PyNum.
Import ListNotations.
Open Scope Z_scope.

Definition text := list Z.                       (* code points *)

Inductive ytree :=
| YInt (z : Z) | YFloat (q : Q) | YNaN | YStr (s : text) | YBool (b : bool) | YNull
| YList (l : list ytree) | YMap (kvs : list (Z * ytree)).   (* names are interned by the harness *)

Arguments YStr s%Z_scope.
Arguments YMap kvs%Z_scope.

(* ---- interned names (fixed ids; every other name gets an id >= 1000) ---- *)
Definition K_StartTime := 1.  Definition K_Lane := 2.  Definition K_EndTime := 3.  Definition K_KeySounds := 4.
Definition K_Bpm := 5.        Definition K_Multiplier := 6.
Definition N_offset := 11.    Definition N_column := 12. Definition N_length := 13.  Definition N_keysounds := 14.
Definition N_bpm := 15.       Definition N_multiplier := 16. Definition N_metronome := 17. Definition N_index := 18.
Definition K_HitObjects := 21. Definition K_TimingPoints := 22. Definition K_SliderVelocities := 23.
Definition K_Tags := 115.     (* metadata keys are 101..121 in _write_meta order *)
Definition K_InitialScrollVelocity := 107.

Definition row := list (Z * ytree).
Record frame := mkFrame { f_cols : list Z; f_rows : list row }.
Record chart := mkChart { c_hits : frame; c_holds : frame; c_bpms : frame; c_svs : frame;
                          c_meta : list ytree (* the 21 attributes in _write_meta order; tags as YList *) }.

Arguments mkFrame (f_cols f_rows)%Z_scope.

(* ---- dictionaries ---- *)
Fixpoint assoc {A} (k : Z) (l : list (Z * A)) : option A :=
  match l with [] => None | (k', v) :: t => if k =? k' then Some v else assoc k t end.
Definition has_key {A} (k : Z) (l : list (Z * A)) : bool := match assoc k l with Some _ => true | None => false end.
Fixpoint remove_key {A} (k : Z) (l : list (Z * A)) : list (Z * A) :=
  match l with [] => [] | (k', v) :: t => if k =? k' then remove_key k t else (k', v) :: remove_key k t end.
Definition memZ (k : Z) (l : list Z) : bool := existsb (Z.eqb k) l.
Fixpoint dedup (l : list Z) (seen : list Z) : list Z :=
  match l with [] => [] | x :: t => if memZ x seen then dedup t seen else x :: dedup t (x :: seen) end.
Fixpoint omap {A B} (f : A -> option B) (l : list A) : option (list B) :=
  match l with
  | [] => Some []
  | x :: t => match f x, omap f t with Some y, Some r => Some (y :: r) | _, _ => None end
  end.

(* ---- cell arithmetic (numpy): ints stay ints, anything with a float is a float, NaN absorbs ---- *)
Definition cell_add (a b : ytree) : option ytree :=
  match a, b with
  | YInt x, YInt y => Some (YInt (x + y))
  | YInt x, YFloat y => Some (YFloat (Qred (inject_Z x + y)))
  | YFloat x, YInt y => Some (YFloat (Qred (x + inject_Z y)))
  | YFloat x, YFloat y => Some (YFloat (Qred (x + y)))
  | YNaN, (YInt _ | YFloat _ | YNaN) => Some YNaN
  | (YInt _ | YFloat _), YNaN => Some YNaN
  | _, _ => None
  end.
Definition cell_neg (a : ytree) : option ytree :=
  match a with YInt x => Some (YInt (- x)) | YFloat x => Some (YFloat (Qred (- x))) | YNaN => Some YNaN | _ => None end.
Definition cell_sub (a b : ytree) : option ytree :=
  match cell_neg b with Some nb => cell_add a nb | None => None end.
Definition fillna (d : ytree) (a : ytree) : ytree := match a with YNaN | YNull => d | _ => a end.
(* astype(int): truncation toward zero; NaN cannot be cast *)
Definition cast_int (a : ytree) : option ytree :=
  match a with YInt x => Some (YInt x) | YFloat q => Some (YInt (qtrunc q)) | YBool b => Some (YInt (if b then 1 else 0)) | _ => None end.
Definition cast_float (a : ytree) : option ytree :=
  match a with YInt x => Some (YFloat (inject_Z x)) | YFloat q => Some (YFloat q) | YNaN => Some YNaN
             | YBool b => Some (YFloat (if b then 1 else 0)%Q) | _ => None end.

(* ---- the DataFrame subset ---- *)
(* pd.DataFrame(list of dicts): columns = keys in order of first appearance; a missing key is NaN *)
Definition keys_union (recs : list row) : list Z := dedup (concat (map (map fst) recs)) [].
Definition row_on (cols : list Z) (r : row) : row :=
  map (fun c => (c, match assoc c r with Some v => v | None => YNaN end)) cols.
(* numpy dtype of a column built from Python values: ints together with a float or a missing value become float64
   (visible only in foreign columns, which are written back as they are) *)
Definition col_cells (c : Z) (rows : list row) : list ytree :=
  map (fun r => match assoc c r with Some v => v | None => YNaN end) rows.
Definition col_floats (c : Z) (rows : list row) : bool :=
  let cells := col_cells c rows in
  forallb (fun v => match v with YInt _ | YFloat _ | YNaN => true | _ => false end) cells
  && existsb (fun v => match v with YFloat _ | YNaN => true | _ => false end) cells.
Definition promote (cols : list Z) (rows : list row) : list row :=
  let fl := filter (fun c => col_floats c rows) cols in
  map (map (fun kv => match snd kv with
                      | YInt z => if memZ (fst kv) fl then (fst kv, YFloat (inject_Z z)) else kv
                      | _ => kv end)) rows.
Definition fr_of_dicts (recs : list row) : frame :=
  let cols := keys_union recs in mkFrame cols (promote cols (map (row_on cols) recs)).
Definition ren1 (ren : list (Z * Z)) (c : Z) : Z := match assoc c ren with Some c' => c' | None => c end.
Definition fr_rename (ren : list (Z * Z)) (f : frame) : frame :=
  mkFrame (map (ren1 ren) (f_cols f)) (map (map (fun kv => (ren1 ren (fst kv), snd kv))) (f_rows f)).
Definition fr_has (c : Z) (f : frame) : bool := memZ c (f_cols f).
(* df.c = g(df.c): AttributeError/KeyError when the column does not exist *)
Fixpoint row_upd (c : Z) (g : ytree -> option ytree) (r : row) : option row :=
  match r with
  | [] => Some []
  | (k, v) :: t =>
      match (if k =? c then g v else Some v), row_upd c g t with
      | Some v', Some t' => Some ((k, v') :: t') | _, _ => None end
  end.
Definition fr_map_col (c : Z) (g : ytree -> option ytree) (f : frame) : option frame :=
  if fr_has c f then
    match omap (row_upd c g) (f_rows f) with Some rs => Some (mkFrame (f_cols f) rs) | None => None end
  else None.
(* reindex(columns.union(req, sort=False)): missing required columns are appended, all-NaN *)
Definition fr_require (req : list Z) (f : frame) : frame :=
  let add := filter (fun c => negb (memZ c (f_cols f))) req in
  mkFrame (f_cols f ++ add) (map (fun r => r ++ map (fun c => (c, YNaN)) add) (f_rows f)).
Definition fr_drop (c : Z) (f : frame) : option frame :=
  if fr_has c f then Some (mkFrame (filter (fun k => negb (k =? c)) (f_cols f)) (map (remove_key c) (f_rows f)))
  else None.
(* df[c] = g(row)  (new column appended last, or overwritten in place) *)
Definition fr_set_col (c : Z) (g : row -> option ytree) (f : frame) : option frame :=
  match omap (fun r => match g r with
                       | Some v => if has_key c r then row_upd c (fun _ => Some v) r else Some (r ++ [(c, v)])
                       | None => None end) (f_rows f) with
  | Some rs => Some (mkFrame (if fr_has c f then f_cols f else f_cols f ++ [c]) rs)
  | None => None
  end.
Definition bind {A B} (x : option A) (f : A -> option B) : option B := match x with Some a => f a | None => None end.
Notation "x >>= f" := (bind x f) (at level 50, left associativity).

Definition plus1 (v : ytree) := cell_add v (YInt 1).
Definition minus1 (v : ytree) := cell_sub v (YInt 1).
Definition some_fill (d : ytree) (v : ytree) : option ytree := Some (fillna d v).

(* ---- Qua*List.from_yaml ---- *)
Definition ren_in : list (Z * Z) :=
  [(K_StartTime, N_offset); (K_Lane, N_column); (K_KeySounds, N_keysounds); (K_EndTime, N_length);
   (K_Bpm, N_bpm); (K_Multiplier, N_multiplier)].
Definition ren_out : list (Z * Z) :=
  [(N_offset, K_StartTime); (N_column, K_Lane); (N_keysounds, K_KeySounds)].

(* the reader as repaired in /repo (fix: "Quaver note reader applies the format defaults for omitted keys"):
   reindex with the raw keys first, StartTime.fillna(0), Lane.fillna(1), every non-list KeySounds cell becomes [],
   and only then EndTime -= StartTime, rename, column -= 1 (the later reindex/fillna are kept and now do nothing) *)
Definition ks_fix (v : ytree) : option ytree := Some (match v with YList _ => v | _ => YList [] end).
Definition hits_from_yaml (recs : list row) : option frame :=
  let df := fr_require [K_StartTime; K_Lane; K_KeySounds] (fr_of_dicts recs) in
  fr_map_col K_StartTime (some_fill (YInt 0)) df >>= fr_map_col K_Lane (some_fill (YInt 1)) >>=
  fr_map_col K_KeySounds ks_fix >>= fun df =>
  let df := fr_rename [(K_StartTime, N_offset); (K_Lane, N_column); (K_KeySounds, N_keysounds)] df in
  fr_map_col N_column minus1 df >>= fun df =>
  let df := fr_require [N_offset; N_column; N_keysounds] df in
  fr_map_col N_offset (some_fill (YInt 0)) df >>= fun df =>
  fr_map_col N_column (some_fill (YInt 0)) df.

Definition holds_from_yaml (recs : list row) : option frame :=
  let df := fr_require [K_StartTime; K_Lane; K_KeySounds; K_EndTime] (fr_of_dicts recs) in
  fr_map_col K_StartTime (some_fill (YInt 0)) df >>= fr_map_col K_Lane (some_fill (YInt 1)) >>=
  fr_map_col K_KeySounds ks_fix >>=
  fr_set_col K_EndTime (fun r => match assoc K_EndTime r, assoc K_StartTime r with
                                 | Some e, Some s => cell_sub e s | _, _ => None end) >>= fun df =>
  let df := fr_rename [(K_StartTime, N_offset); (K_Lane, N_column); (K_KeySounds, N_keysounds); (K_EndTime, N_length)] df in
  fr_map_col N_column minus1 df >>= fun df =>
  let df := fr_require [N_offset; N_column; N_keysounds; N_length] df in
  fr_map_col N_offset (some_fill (YInt 0)) df >>= fun df =>
  fr_map_col N_column (some_fill (YInt 0)) df >>= fun df =>
  fr_map_col N_length (some_fill (YInt 0)) df.

(* OLD reader (pinned snapshot, before the repair): kept only so that the defects it had stay stated and checkable *)
Definition hits_from_yaml_OLD (recs : list row) : option frame :=
  let df := fr_rename [(K_StartTime, N_offset); (K_Lane, N_column); (K_KeySounds, N_keysounds)] (fr_of_dicts recs) in
  fr_map_col N_column minus1 df >>= fun df =>                       (* df.column -= 1 : AttributeError if no Lane anywhere *)
  let df := fr_require [N_offset; N_column; N_keysounds] df in
  fr_map_col N_offset (some_fill (YInt 0)) df >>= fun df =>
  fr_map_col N_column (some_fill (YInt 0)) df.                      (* keysounds: no fillna *)
Definition holds_from_yaml_OLD (recs : list row) : option frame :=
  let df := fr_of_dicts recs in
  (if fr_has K_StartTime df then Some df else None) >>= fun df =>   (* df["StartTime"] : KeyError *)
  fr_set_col K_EndTime (fun r => match assoc K_EndTime r, assoc K_StartTime r with
                                 | Some e, Some s => cell_sub e s | _, _ => None end) df >>= fun df =>
  let df := fr_rename [(K_StartTime, N_offset); (K_Lane, N_column); (K_KeySounds, N_keysounds); (K_EndTime, N_length)] df in
  fr_map_col N_column minus1 df >>= fun df =>
  let df := fr_require [N_offset; N_column; N_keysounds; N_length] df in
  fr_map_col N_offset (some_fill (YInt 0)) df >>= fun df =>
  fr_map_col N_column (some_fill (YInt 0)) df >>= fun df =>
  fr_map_col N_length (some_fill (YInt 0)) df.

(* ---- QuaMap.read ---- *)
Definition as_rows (v : ytree) : option (list row) :=
  match v with YList l => omap (fun x => match x with YMap r => Some r | _ => None end) l | _ => None end.

Section WithTables.
  (* live tables (Generated/Tables.v, Tables.c06): default columns of cls([]).df, metadata keys and defaults *)
  Variable hit_cols hold_cols bpm_cols sv_cols : list Z.
  Variable meta_defaults : list (Z * ytree).       (* (key, default attribute value) in _write_meta order *)
  Variable hits_reader holds_reader : list row -> option frame.   (* Qua{Hit,Hold}List.from_yaml (current or OLD) *)

  Definition read_notes (recs : list row) : option (frame * frame) :=
    let hits := filter (fun r => negb (has_key K_EndTime r)) recs in
    let holds := filter (fun r => has_key K_EndTime r) recs in
    (match hits with [] => Some (mkFrame hit_cols []) | _ => hits_reader hits end) >>= fun h =>
    (match holds with [] => Some (mkFrame hold_cols []) | _ => holds_reader holds end) >>= fun l =>
    Some (h, l).

  Definition getd (k : Z) (d : ytree) (r : row) : ytree := match assoc k r with Some v => v | None => d end.
  (* [QuaBpm(offset=b.get("StartTime",0), bpm=b.get("Bpm",120)) ...] -> DataFrame of the item series *)
  Definition read_bpms (recs : list row) : frame :=
    match recs with
    | [] => mkFrame bpm_cols []
    | _ => mkFrame [N_offset; N_bpm; N_metronome]
             (map (fun r => [(N_offset, getd K_StartTime (YInt 0) r); (N_bpm, getd K_Bpm (YInt 120) r);
                             (N_metronome, YInt 4)]) recs)
    end.
  Definition read_svs (recs : list row) : frame :=
    match recs with
    | [] => mkFrame sv_cols []
    | _ => mkFrame [N_offset; N_multiplier]
             (map (fun r => [(N_offset, getd K_StartTime (YInt 0) r); (N_multiplier, getd K_Multiplier (YFloat 1) r)]) recs)
    end.

  (* str.split(" ") and the `if i` filter *)
  Fixpoint split_sp (s : text) (cur : text) : list text :=
    match s with
    | [] => [rev cur]
    | c :: t => if c =? 32 then rev cur :: split_sp t [] else split_sp t (c :: cur)
    end.
  Definition nonempty (t : text) : bool := match t with [] => false | _ => true end.
  Definition tags_of (s : text) : list text := filter nonempty (split_sp s []).
  Fixpoint join_sp (l : list text) : text :=
    match l with [] => [] | [x] => x | x :: t => x ++ 32 :: join_sp t end.

  Definition read_meta (d : row) : option (list ytree) :=
    omap (fun kd => let '(k, dflt) := kd in
            if k =? K_Tags then
              match assoc k d with
              | None => Some (YList [])
              | Some (YStr s) => Some (YList (map YStr (tags_of s)))
              | Some _ => None                                  (* .split on a non-string *)
              end
            else Some (getd k dflt d)) meta_defaults.

  Definition qua_read_gen (doc : ytree) : option chart :=
    match doc with
    | YMap d =>
        assoc K_HitObjects d >>= as_rows >>= read_notes >>= fun hl =>
        assoc K_TimingPoints (remove_key K_HitObjects d) >>= as_rows >>= fun b =>
        assoc K_SliderVelocities (remove_key K_TimingPoints (remove_key K_HitObjects d)) >>= as_rows >>= fun s =>
        read_meta (remove_key K_SliderVelocities (remove_key K_TimingPoints (remove_key K_HitObjects d))) >>= fun m =>
        Some (mkChart (fst hl) (snd hl) (read_bpms b) (read_svs s) m)
    | _ => None
    end.

  (* ---- to_yaml pipelines and QuaMap.write ---- *)
  Definition bpms_to_yaml (f : frame) : option (list row) :=
    fr_map_col N_offset cast_int f >>= fr_map_col N_bpm cast_float >>= fun df =>
    fr_drop N_metronome (fr_rename [(N_offset, K_StartTime); (N_bpm, K_Bpm)] df) >>= fun df => Some (f_rows df).
  Definition svs_to_yaml (f : frame) : option (list row) :=
    fr_map_col N_offset cast_int f >>= fr_map_col N_multiplier cast_float >>= fun df =>
    Some (f_rows (fr_rename [(N_offset, K_StartTime); (N_multiplier, K_Multiplier)] df)).
  Definition hits_to_yaml (f : frame) : option (list row) :=
    fr_map_col N_column plus1 f >>= fr_map_col N_offset cast_int >>= fr_map_col N_column cast_int >>= fun df =>
    Some (f_rows (fr_rename ren_out df)).
  Definition holds_to_yaml (f : frame) : option (list row) :=
    fr_set_col K_EndTime (fun r => match assoc N_offset r, assoc N_length r with
                                   | Some o, Some l => cell_add o l | _, _ => None end) f >>=
    fr_drop N_length >>= fr_map_col N_column plus1 >>=
    fr_map_col N_offset cast_int >>= fr_map_col N_column cast_int >>= fr_map_col K_EndTime cast_int >>= fun df =>
    Some (f_rows (fr_rename ren_out df)).

  Definition write_meta (m : list ytree) : option row :=
    if negb (Nat.eqb (length m) (length meta_defaults)) then None else
    omap (fun kv => let '((k, _), v) := kv in
            if k =? K_Tags then
              match v with
              | YList l => omap (fun x => match x with YStr s => Some s | _ => None end) l >>= fun ts =>
                           Some (k, YStr (join_sp ts))
              | _ => None
              end
            else Some (k, v)) (combine meta_defaults m).

  Definition qua_write (c : chart) : option ytree :=
    write_meta (c_meta c) >>= fun file =>
    bpms_to_yaml (c_bpms c) >>= fun b =>
    svs_to_yaml (c_svs c) >>= fun s =>
    hits_to_yaml (c_hits c) >>= fun h =>
    holds_to_yaml (c_holds c) >>= fun l =>
    Some (YMap (file ++ [(K_TimingPoints, YList (map YMap b)); (K_SliderVelocities, YList (map YMap s));
                         (K_HitObjects, YList (map YMap (h ++ l)))])).
End WithTables.

(* ---- the canonical relation between model and implementation values ----
   strict = true : YAML documents (int and float are different scalars);
   strict = false: in-memory cells (numeric by value whatever the dtype).  Mappings up to key order. *)
Fixpoint text_eqb (a b : text) : bool :=
  match a, b with [], [] => true | x :: a', y :: b' => (x =? y) && text_eqb a' b' | _, _ => false end.
Fixpoint tree_eqb (strict : bool) (a b : ytree) {struct a} : bool :=
  match a, b with
  | YInt x, YInt y => x =? y
  | YFloat x, YFloat y => Qeq_bool x y
  | YInt x, YFloat y => negb strict && Qeq_bool (inject_Z x) y
  | YFloat x, YInt y => negb strict && Qeq_bool x (inject_Z y)
  | YNaN, YNaN => true
  | YNull, YNull => true
  | YStr s, YStr t => text_eqb s t
  | YBool x, YBool y => Bool.eqb x y
  | YList l, YList m =>
      (fix go (l m : list ytree) : bool :=
         match l, m with
         | [], [] => true
         | x :: l', y :: m' => tree_eqb strict x y && go l' m'
         | _, _ => false
         end) l m
  | YMap kv, YMap kw =>
      Nat.eqb (length kv) (length kw) &&
      (fix go (kv : list (Z * ytree)) : bool :=
         match kv with
         | [] => true
         | (k, v) :: kv' => match assoc k kw with Some w => tree_eqb strict v w | None => false end && go kv'
         end) kv
  | _, _ => false
  end.

(* ---- instantiation with the live tables (Generated/Tables.v is rewritten from /repo on every run) ---- *)
From RV Require Generated.Tables.
Definition decode_default (e : Z * Z * list Z) : ytree :=
  let '(tag, z, s) := e in
  if tag =? 0 then YStr s
  else if tag =? 1 then YInt z
  else if tag =? 2 then YFloat (match s with [d] => Qmake z (Z.to_pos d) | _ => inject_Z z end)
  else if tag =? 3 then YBool (negb (z =? 0))
  else if tag =? 4 then YList []
  else YNull.
Module Live.
  Definition meta_defaults : list (Z * ytree) :=
    map (fun kd => (fst kd, decode_default (snd kd))) Tables.Tables.c06.meta_defaults.
  Definition read := qua_read_gen Tables.Tables.c06.hit_cols Tables.Tables.c06.hold_cols Tables.Tables.c06.bpm_cols
                                  Tables.Tables.c06.sv_cols meta_defaults hits_from_yaml holds_from_yaml.
  Definition read_OLD := qua_read_gen Tables.Tables.c06.hit_cols Tables.Tables.c06.hold_cols Tables.Tables.c06.bpm_cols
                                      Tables.Tables.c06.sv_cols meta_defaults hits_from_yaml_OLD holds_from_yaml_OLD.
  Definition write := qua_write meta_defaults.
  (* OLD metadata defaults (before fix e825b78): initial_scroll_velocity = "" *)
  Definition meta_defaults_OLD : list (Z * ytree) :=
    map (fun kd => if fst kd =? K_InitialScrollVelocity then (fst kd, YStr []) else kd) meta_defaults.
  Definition read_OLDMETA := qua_read_gen Tables.Tables.c06.hit_cols Tables.Tables.c06.hold_cols Tables.Tables.c06.bpm_cols
                                          Tables.Tables.c06.sv_cols meta_defaults_OLD hits_from_yaml holds_from_yaml.
  Definition write_OLDMETA := qua_write meta_defaults_OLD.
End Live.
