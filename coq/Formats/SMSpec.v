(* SPECIFICATION for C02 / C03: what a StepMania .sm text denotes (DESIGN appendix B.3), written from the format
   rules and independently of reamber's reader: comments are removed first, the text is a sequence of #TAG:value;
   items, the value is everything after the first colon, #BPMS is a set, row r of n in measure m is beat 4m + 4r/n,
   the time of a beat is Integrate.time_of over the #BPMS set starting at -OFFSET, a '3' closes the open head of
   its column.  sm_denote = None  <->  the text is not well-formed.  Reference constants are pinned here and
   compared with the live tables in Props. *)
From Coq Require Import String ZArith QArith Qround Qabs List Bool.
From RV Require Import Base.PyNum Timing.Snapper Timing.Snap Timing.TimingMap Timing.Reseat Timing.Integrate Formats.SMText Formats.SM.
Import ListNotations.
Open Scope Q_scope.

(* ---- reference constants ---- *)
Definition ref_symbols : list (Z * kind) :=            (* simple (single-row) objects *)
  [(49%Z, KHit); (77%Z, KMine); (76%Z, KLift); (70%Z, KFake); (75%Z, KKey)].
Definition ref_hold_head : Z := 50.  Definition ref_roll_head : Z := 52.  Definition ref_tail : Z := 51.
Definition ref_beats_per_measure : Z := 4.
Definition ref_max_rows : Z := 384.
(* chart types whose column count reamber declares ("supported chart types") *)
Definition ref_chart_keys : list (text * Z) :=
  [(tx "dance-single", 4%Z); (tx "dance-double", 8%Z); (tx "dance-solo", 6%Z); (tx "dance-couple", 4%Z);
   (tx "dance-threepanel", 3%Z); (tx "dance-routine", 8%Z); (tx "kb7-single", 7%Z)]%string.
Definition ref_keys (ty : text) : option Z :=
  match find (fun p => text_eqb ty (fst p)) ref_chart_keys with Some (_, k) => Some k | None => None end.

Definition ref_conf (tbl : list Q) (all_types : list (text * option Z)) : smconf :=
  mkConf 49 50 51 52 51 77 76 70 75 4 384 18 all_types tbl.

(* ---- denotation ---- *)
Record dnote := mkDn { dn_kind : kind; dn_col : Z; dn_time : Q; dn_len : Q }.
Record dchart := mkDc { d_type : text; d_desc : text; d_diff : text; d_meter : Z; d_radar : list Q;
                        d_rows : list Z;                 (* rows per measure *)
                        d_notes : list dnote }.
Record dfile := mkDf {
  d_items : list (text * text);            (* every non-NOTES item: tag (with '#'), value after the first colon, stripped *)
  d_beat0 : Q;                             (* ms of beat 0 = -OFFSET * 1000 *)
  d_tempo : list (Q * Q * Q);              (* beat, bpm, ms — sorted by beat *)
  d_charts : list dchart }.

Definition strip_comments (txt : text) : text :=
  join [10%Z] (map (before_sub (tx "//")) (split_on 10 txt)).

(* "#TAG:value" -> (tag, value) *)
Fixpoint cut_colon (acc : text) (s : text) : option (text * text) :=
  match s with
  | [] => None
  | x :: s' => if (x =? 58)%Z then Some (frev acc, s') else cut_colon (x :: acc) s'
  end.
Definition parse_item (it : text) : option (text * text) :=
  match it with
  | 35%Z :: _ => cut_colon [] it
  | _ => None
  end.

(* items of the file; the piece after the last ';' must be blank *)
Fixpoint items_go (pieces : list text) : option (list (text * text)) :=
  match pieces with
  | [] => Some []
  | [lastp] => match strip lastp with [] => Some [] | _ => None end
  | p :: r =>
      match strip p with
      | [] => None
      | it => match parse_item it, items_go r with
              | Some x, Some l => Some (x :: l)
              | _, _ => None end
      end
  end.

Fixpoint lookup_last (tag : text) (l : list (text * text)) (cur : option text) : option text :=
  match l with
  | [] => cur
  | (t, v) :: l' => lookup_last tag l' (if text_eqb t tag then Some v else cur)
  end.

Definition snap_of_beat (b : Q) : snap :=
  let m := Qfloor (b / 4) in mkSnap m (Qred (b - inject_Z m * 4)) 4.

Definition parse_pair (p : text) : option (Q * Q) :=
  match split_on 61 p with
  | [a; b] => match parse_decimal a, parse_decimal b with Some x, Some y => Some (x, y) | _, _ => None end
  | _ => None
  end.

Definition pair_lt (a b : Q * Q) : bool := Qlt_bool (fst a) (fst b).

Definition tempo_script (pairs : list (Q * Q)) : list bcs :=
  map (fun p : Q * Q => mkBcs (snd p) 4 (snap_of_beat (fst p))) (sort_by pair_lt pairs).

Definition beat_time (beat0 : Q) (script : list bcs) (b : Q) : Q := Qred (time_of beat0 script (snap_of_beat b)).

(* ---- chart body ---- *)
Definition lookup_sym (c : Z) : option kind :=
  match find (fun p : Z * kind => (fst p =? c)%Z) ref_symbols with Some (_, k) => Some k | None => None end.

(* open heads per column *)
Definition openst := list (option (kind * Q)).

Fixpoint denote_row (row : text) (col : nat) (t : Q) (op : openst) (acc : list dnote) : option (openst * list dnote) :=
  match row with
  | [] => Some (op, acc)
  | c :: row' =>
      if (c =? 48)%Z then denote_row row' (S col) t op acc
      else match lookup_sym c with
      | Some k => denote_row row' (S col) t op (mkDn k (Z.of_nat col) t 0 :: acc)
      | None =>
        match nth_error op col with
        | None => None
        | Some cur =>
          if (c =? ref_hold_head)%Z || (c =? ref_roll_head)%Z then
            match cur with
            | Some _ => None                          (* a head while one is open *)
            | None => denote_row row' (S col) t
                        (replace_at col (Some ((if (c =? ref_hold_head)%Z then KHold else KRoll), t)) op) acc
            end
          else if (c =? ref_tail)%Z then
            match cur with
            | None => None                            (* a tail without an open head *)
            | Some (k, t0) => denote_row row' (S col) t (replace_at col None op)
                                (mkDn k (Z.of_nat col) t0 (Qred (t - t0)) :: acc)
            end
          else None                                   (* unknown symbol *)
        end
      end
  end.

Fixpoint denote_rows (rows : list text) (keys : Z) (m : Z) (n : Z) (r : Z) (time : Q -> Q) (op : openst) (acc : list dnote)
  : option (openst * list dnote) :=
  match rows with
  | [] => Some (op, acc)
  | row :: rows' =>
      if negb (Z.of_nat (length row) =? keys)%Z then None
      else
        let beat := Qred (inject_Z (4 * m) + inject_Z (4 * r) / inject_Z n) in
        match denote_row row 0 (time beat) op acc with
        | None => None
        | Some (op', acc') => denote_rows rows' keys m n (r + 1) time op' acc'
        end
  end.

Fixpoint denote_measures (ms : list text) (keys : Z) (m : Z) (time : Q -> Q) (op : openst) (acc : list dnote) (ns : list Z)
  : option (openst * list dnote * list Z) :=
  match ms with
  | [] => Some (op, acc, ns)
  | mt :: ms' =>
      let rows := filter (fun l => match l with [] => false | _ => true end) (map strip (split_on 10 mt)) in
      match rows with
      | [] => None                                     (* a measure has n >= 1 rows *)
      | _ =>
        let n := Z.of_nat (length rows) in
        match denote_rows rows keys m n 0 time op acc with
        | None => None
        | Some (op', acc') => denote_measures ms' keys (m + 1) time op' acc' (n :: ns)
        end
      end
  end.

Definition denote_chart (value : text) (time : Q -> Q) : option dchart :=
  match map strip (split_on 58 value) with
  | [ty; desc; diff; meter; radar; data] =>
      match ref_keys ty, parse_int meter, map_opt parse_decimal (split_on 44 radar) with
      | Some keys, Some mt, Some rd =>
          (* empty note data = a chart without measures *)
          match denote_measures (match data with [] => [] | _ => split_on 44 data end) keys 0 time (repeat None (Z.to_nat keys)) [] [] with
          | Some (op, notes, ns) =>
              if forallb (fun o : option (kind * Q) => match o with None => true | Some _ => false end) op
              then Some (mkDc ty desc diff mt rd (rev ns) (rev notes))
              else None                                (* a head left open *)
          | None => None
          end
      | _, _, _ => None
      end
  | _ => None
  end.

Definition is_notes (it : text * text) : bool := text_eqb (fst it) (tx "#NOTES").

Definition sm_denote (txt : text) : option dfile :=
  match items_go (split_on 59 (strip_comments txt)) with
  | None => None
  | Some items =>
    let fields := map (fun it : text * text => (fst it, strip (snd it))) (filter (fun it => negb (is_notes it)) items) in
    match lookup_last (tx "#OFFSET") fields None, lookup_last (tx "#BPMS") fields None with
    | Some offv, Some bpmv =>
      match parse_decimal offv, map_opt (fun p => parse_pair (strip p)) (split_on 44 bpmv) with
      | Some off, Some pairs =>
        let stops_ok := match lookup_last (tx "#STOPS") fields None with None | Some [] => true | _ => false end in
        let script := tempo_script pairs in
        let beat0 := Qred (- (off * 1000)) in
        let first_ok := match script with c :: _ => Qeq_bool (s_b (bs_snap c)) 0 && (s_m (bs_snap c) =? 0)%Z | [] => false end in
        if stops_ok && first_ok && forallb (fun p : Q * Q => Qlt_bool 0 (snd p)) pairs then
          match map_opt (fun it : text * text => denote_chart (snd it) (beat_time beat0 script)) (filter is_notes items) with
          | Some cs =>
              Some (mkDf fields beat0
                         (map (fun p : Q * Q => (fst p, snd p, beat_time beat0 script (fst p))) (sort_by pair_lt pairs)) cs)
          | None => None
          end
        else None
      | _, _ => None
      end
    | _, _ => None
    end
  end.

Definition wf_sm_textb (txt : text) : bool := match sm_denote txt with Some _ => true | None => false end.
Definition wf_sm_text (txt : text) : Prop := exists d, sm_denote txt = Some d.

(* ---- comparison of object lists up to order ---- *)
Definition q_close (tol a b : Q) : bool := Qle_bool (Qabs (a - b)) tol.

Definition note4 := (Z * Q * Q)%type.                   (* column, time, length *)
Definition note4_lt (a b : note4) : bool :=
  let '(ca, ta, _) := a in let '(cb, tb, _) := b in
  (ca <? cb)%Z || ((ca =? cb)%Z && Qlt_bool ta tb).
Definition canon (l : list note4) : list note4 := sort_by note4_lt l.

(* positional comparison after sorting by (column, time): same columns, times within the bound at the note, lengths within
   the bound at the note (head) plus the bound at its tail (a tail in a slower tempo segment may move by more than the head:
   C03_sm_write_cap_bound — head and tail are each less than 1/96 beat early AT THEIR OWN tempo) *)
Fixpoint notes_close (bound : note4 -> Q) (a b : list note4) : bool :=
  match a, b with
  | [], [] => true
  | x :: a', y :: b' =>
      let '(cx, tx_, lx) := x in let '(cy, ty, ly) := y in
      (cx =? cy)%Z && q_close (bound x) tx_ ty && q_close (bound x + bound (cx, tx_ + lx, 0)) lx ly && notes_close bound a' b'
  | _, _ => false
  end.

Definition dnotes_of (k : kind) (l : list dnote) : list note4 :=
  map (fun n => (dn_col n, dn_time n, dn_len n)) (filter (fun n => kind_eqb (dn_kind n) k) l).
Definition simple4 (l : list (Q * Z)) : list note4 := map (fun n : Q * Z => (snd n, fst n, 0)) l.
Definition hold4 (l : list (Q * Z * Q)) : list note4 := map (fun n : Q * Z * Q => (snd (fst n), fst (fst n), snd n)) l.

Definition chart_objs (c : smchart) : list (kind * list note4) :=
  [(KHit, simple4 (c_hits c)); (KHold, hold4 (c_holds c)); (KRoll, hold4 (c_rolls c)); (KMine, simple4 (c_mines c));
   (KLift, simple4 (c_lifts c)); (KFake, simple4 (c_fakes c)); (KKey, simple4 (c_keys c))].

(* the chart's objects are exactly the denoted ones (as multisets per kind; [bound] = allowed time difference,
   indexed by the denoted note) *)
Definition objs_match (bound : note4 -> Q) (d : dchart) (c : smchart) : bool :=
  forallb (fun kl : kind * list note4 => notes_close bound (canon (dnotes_of (fst kl) (d_notes d))) (canon (snd kl)))
          (chart_objs c).

Fixpoint list_close (tol : Q) (a b : list Q) : bool :=
  match a, b with
  | [], [] => true
  | x :: a', y :: b' => q_close tol x y && list_close tol a' b'
  | _, _ => false
  end.

Definition header_match (tol : Q) (d : dchart) (c : smchart) : bool :=
  text_eqb (d_type d) (c_type c) && text_eqb (d_desc d) (c_desc c) && text_eqb (d_diff d) (c_diff c)
  && (d_meter d =? c_meter c)%Z && list_close tol (d_radar d) (c_radar c).

Fixpoint forallb2 {A B} (f : A -> B -> bool) (a : list A) (b : list B) : bool :=
  match a, b with
  | [], [] => true
  | x :: a', y :: b' => f x y && forallb2 f a' b'
  | _, _ => false
  end.

(* ================= C02: what reading must return ================= *)
(* every chart of the file, in file order, with its own header fields and exactly the denoted objects at the
   denoted times; every tempo change of the file is in the chart's tempo list at its millisecond position *)
Definition read_spec (tol : Q) (d : dfile) (o : smset) : bool :=
  forallb2 (fun dc c =>
              header_match tol dc c && objs_match (fun _ => tol) dc c
              && forallb (fun tp : Q * Q * Q => existsb (fun b : Q * Q * Q => q_close tol (fst (fst b)) (snd tp)) (c_bpms c))
                         (d_tempo d))
           (d_charts d) (s_maps o).

(* the domain of C02 beyond well-formedness: rows per measure a multiple of 4, tempo beats on the 1/48 grid and distinct *)
Fixpoint distinct_q (l : list Q) : bool :=
  match l with [] => true | x :: l' => negb (existsb (Qeq_bool x) l') && distinct_q l' end.
Definition on_grid48 (b : Q) : bool := Qeq_bool (b * 48) (inject_Z (Qfloor (b * 48))).
Definition c02_dom (d : dfile) : bool :=
  forallb (fun c => forallb (fun n => (n mod 4 =? 0)%Z) (d_rows c)) (d_charts d)
  && forallb (fun tp : Q * Q * Q => on_grid48 (fst (fst tp))) (d_tempo d)
  && distinct_q (map (fun tp : Q * Q * Q => fst (fst tp)) (d_tempo d)).

(* reader-dialect conditions on the raw text (comments are whole lines, placed before a tag or inside note data,
   free of ; : ,   —  values free of ':' is implied by the 6-field rule for #NOTES and assumed for #OFFSET/#BPMS) *)
(* a comment occupies a whole line, or follows the ',' that separates two measures *)
Definition comment_body (l : text) : text :=
  match lstrip l with
  | 44%Z :: r => lstrip r
  | r => r
  end.
Definition tame_comment (l : text) : bool :=
  negb (contains (tx "//") l) ||
  (starts_with (tx "//") (comment_body l)
   && negb (existsb (fun c => (c =? 59)%Z || (c =? 58)%Z || (c =? 44)%Z) (comment_body l))).
Fixpoint count_z (c : Z) (s : text) : nat :=
  match s with [] => O | x :: s' => if (x =? c)%Z then S (count_z c s') else count_z c s' end.
(* inside one ';'-piece: leading blank/comment lines, then the item; after the item has started comments are allowed
   only in the note data of #NOTES (after its 6th colon) *)
Fixpoint piece_ok_go (started : bool) (colons : nat) (notes : bool) (lines : list text) : bool :=
  match lines with
  | [] => true
  | l :: r =>
      if contains (tx "//") l then
        tame_comment l && (negb started || (notes && Nat.leb 6 colons)) && piece_ok_go started colons notes r
      else
        let started' := started || match strip l with [] => false | _ => true end in
        let notes' := notes || (negb started && starts_with (tx "#NOTES") (strip l)) in
        piece_ok_go started' (colons + count_z 58 l) notes' r
  end.
Definition comments_ok (txt : text) : bool :=
  forallb (fun p => piece_ok_go false 0 false (split_on 10 p)) (split_on 59 txt).

(* reader-dialect: rows are written without surrounding blanks, header values have no colon,
   #OFFSET and #BPMS precede #STOPS *)
Definition rows_unpadded (txt : text) : bool :=
  forallb (fun p =>
     negb (contains (tx "#NOTES") p) ||
     match rev (split_on 58 (strip p)) with
     | data :: _ => forallb (fun l => negb (existsb is_ws l) || contains (tx "//") l) (split_on 10 data)
     | [] => true end) (split_on 59 txt).
Fixpoint tag_pos (tag : text) (l : list (text * text)) (i : nat) : option nat :=
  match l with [] => None | (t, _) :: l' => if text_eqb t tag then Some i else tag_pos tag l' (S i) end.
Definition dialect_ok (txt : text) (d : dfile) : bool :=
  comments_ok txt && rows_unpadded txt
  && forallb (fun it : text * text => negb (existsb (Z.eqb 58) (snd it))) (d_items d)
  && match tag_pos (tx "#STOPS") (d_items d) 0, tag_pos (tx "#OFFSET") (d_items d) 0, tag_pos (tx "#BPMS") (d_items d) 0 with
     | Some s, Some o, Some b => Nat.ltb o s && Nat.ltb b s
     | None, _, _ => true
     | _, _, _ => false
     end.
Definition has_stops_tag (d : dfile) : bool :=
  match tag_pos (tx "#STOPS") (d_items d) 0 with Some _ => true | None => false end.

(* ================= C03: what a written text must denote ================= *)
Definition text_field_tags : list text :=
  map tx ["#TITLE"; "#SUBTITLE"; "#ARTIST"; "#TITLETRANSLIT"; "#SUBTITLETRANSLIT"; "#ARTISTTRANSLIT"; "#GENRE";
          "#CREDIT"; "#BANNER"; "#BACKGROUND"; "#LYRICSPATH"; "#CDTITLE"; "#MUSIC"; "#DISPLAYBPM"; "#BGCHANGES";
          "#FGCHANGES"]%string.

Definition field_num (d : dfile) (tag : string) : option Q :=
  match lookup_last (tx tag) (d_items d) None with Some v => parse_decimal v | None => None end.

(* header fields written are read back unchanged *)
Definition header_roundtrip (tol : Q) (s : smset) (d : dfile) : bool :=
  forallb2 (fun tag v => match lookup_last tag (d_items d) None with Some x => text_eqb x v | None => false end)
           text_field_tags (s_txt s)
  && match s_offset s with Some o => q_close tol (d_beat0 d) o | None => false end
  && match field_num d "#SAMPLESTART" with Some x => q_close tol (x * 1000) (s_sstart s) | None => false end
  && match field_num d "#SAMPLELENGTH" with Some x => q_close tol (x * 1000) (s_slen s) | None => false end
  && match lookup_last (tx "#SELECTABLE") (d_items d) None with
     | Some x => text_eqb x (tx (if s_sel s then "YES" else "NO")) | None => false end.

(* the beat length in force at a denoted time (last tempo change at or before it), and the accumulated effect of
   writing tempo beats with six decimals (two before /repo 6b5cf38): 0.0000005 beat at each change of beat length before that time *)
Fixpoint active_bl (tempo : list (Q * Q * Q)) (t : Q) (cur : Q) : Q :=
  match tempo with
  | [] => cur
  | (_, bpm, ms) :: r => if Qle_bool ms t then active_bl r t (60000 / bpm) else cur
  end.
Fixpoint max_bl (tempo : list (Q * Q * Q)) : Q :=
  match tempo with [] => 0 | (_, bpm, _) :: r => Qmax' (60000 / bpm) (max_bl r) end.
Fixpoint round_slack (tempo : list (Q * Q * Q)) (prev : Q) : Q :=
  match tempo with
  | [] => 0
  | (_, bpm, _) :: r => rnd_half * Qabs (60000 / bpm - prev) + round_slack r (60000 / bpm)
  end.
Definition grid_bound (tol : Q) (d : dfile) : note4 -> Q :=
  let '(bl0, slack) := match d_tempo d with [] => (0, 0) | (_, bpm, _) :: r => (60000 / bpm, round_slack r (60000 / bpm)) end in
  fun n => let t := snd (fst n) in
           let b1 := active_bl (d_tempo d) t bl0 in
           let b2 := active_bl (d_tempo d) (t + b1 / 96) bl0 in
           Qmax' b1 b2 / 96 + slack + tol.

(* the written text contains the same charts with the same objects in the same columns;
   times exact ([exact] = every tempo change on a measure line and no measure needs more than 384 rows),
   otherwise within the written grid *)
Definition write_spec (tol : Q) (exact : bool) (s : smset) (d : dfile) : bool :=
  header_roundtrip tol s d
  && forallb2 (fun dc c => header_match tol dc c
                           && objs_match (if exact then (fun _ => tol) else grid_bound tol d) dc c)
              (d_charts d) (s_maps s).
