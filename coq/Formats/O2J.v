(* MODEL of reamber's OJN reader (O2JMapSet.read -> O2JMapSetMeta.read_meta,
   O2JEventPackage.read_event_packages / read_events_note / read_events_bpm, O2JMap.read_pkgs),
   transcribed branch by branch.  THE model is [read_fixed] / [read_pkgs_fixed]: read_pkgs as it is since
   the repairs 9171148 (tempo sweep: advance_bpm + tail loop) and d4c1412 (long-note length is a Python
   float).  [read_old] / [read_pkgs_old] keep the algorithm of the tree before those commits (guard
   `if not next_bpm_measure`, truncating setter) ONLY for the _refuted witnesses and regression diagnosis.
   Definitions only.  Any Python exception = None.
   Bytes are Z in 0..255; times/measures/bpm are exact rationals (a float32 widens exactly). *)
From Coq Require Import ZArith QArith Qround List Bool.
From RV Require Import Base.PyNum Base.Bytes Generated.Tables.
Import ListNotations.
Open Scope Q_scope.

(* ------------------------------------------------------------------ output types *)
Record ohdr := mkOHdr {
  oh_song_id : Z; oh_signature : list Z; oh_encode_version : Q; oh_genre : Z; oh_bpm : Q;
  oh_level : list Z; oh_event_count : list Z; oh_note_count : list Z; oh_measure_count : list Z;
  oh_package_count : list Z; oh_old_encode_version : Z; oh_old_song_id : Z; oh_old_genre : list Z;
  oh_bmp_size : Z; oh_old_file_version : Z; oh_title : list Z; oh_artist : list Z; oh_creator : list Z;
  oh_ojm_file : list Z; oh_cover_size : Z; oh_duration : list Z; oh_note_offset : list Z; oh_cover_offset : Z }.

Record hitrow := mkHit { h_col : Z; h_off : Q; h_vol : Z; h_pan : Z }.
Record holdrow := mkHold { l_col : Z; l_off : Q; l_len : Q; l_vol : Z; l_pan : Z }.
Record bpmrow := mkBpm { b_off : Q; b_bpm : Q }.
Record omap := mkOMap { om_hits : list hitrow; om_holds : list holdrow; om_bpms : list bpmrow }.
Record oset := mkOSet { os_hdr : ohdr; os_maps : list omap }.

(* ------------------------------------------------------------------ read_meta *)
Inductive mval := MInt (z : Z) | MFloat (q : Q) | MByte (b : Z).

(* struct.unpack("<" + fmt, bs)[0]; fmt is ord(letter).  Wrong length = struct.error *)
Definition unpack1 (fmt : Z) (bs : list Z) : option mval :=
  if (fmt =? 105)%Z (* i *) then option_map MInt (le_int32 bs)
  else if (fmt =? 104)%Z (* h *) then option_map MInt (le_int16 bs)
  else if (fmt =? 102)%Z (* f *) then option_map MFloat (le_float32 bs)
  else if (fmt =? 115)%Z (* s *) then match bs with [b] => Some (MByte b) | _ => None end
  else None.

(* Python slice  l[a : a + n]  (a, n >= 0) *)
Definition slice (l : list Z) (a n : Z) : list Z := firstn (Z.to_nat n) (skipn (Z.to_nat a) l).

(* the inner loop  for _ in range(count)  *)
Fixpoint read_field (fmt fmt_size : Z) (count : nat) (md : list Z) (ix : Z) : option (list mval * Z) :=
  match count with
  | O => Some ([], ix)
  | S c =>
      match unpack1 fmt (slice md ix fmt_size) with
      | None => None
      | Some v =>
          match read_field fmt fmt_size c md (ix + fmt_size) with
          | None => None
          | Some (vs, ix') => Some (v :: vs, ix')
          end
      end
  end.

(* int(size / count): true division then truncation; count = 0 raises ZeroDivisionError *)
Definition py_int_div (size count : Z) : option Z :=
  if (count =? 0)%Z then None else Some (qtrunc (inject_Z size / inject_Z count)).

Fixpoint read_fields (layout : list (Z * Z * Z)) (md : list Z) (ix : Z) : option (list (list mval)) :=
  match layout with
  | [] => Some []
  | (fmt, size, count) :: rest =>
      match py_int_div size count with
      | None => None
      | Some fmt_size =>
          if (fmt_size <? 0)%Z then None (* negative slice bounds: not modelled, outside every layout *)
          else
          match read_field fmt fmt_size (Z.to_nat count) md ix with
          | None => None
          | Some (vs, ix') =>
              match read_fields rest md ix' with
              | None => None
              | Some r => Some (vs :: r)
              end
          end
      end
  end.

Definition as_int (v : mval) : option Z := match v with MInt z => Some z | _ => None end.
Definition as_float (v : mval) : option Q := match v with MFloat q => Some q | MInt z => Some (inject_Z z) | _ => None end.

Fixpoint all_some {A} (l : list (option A)) : option (list A) :=
  match l with
  | [] => Some []
  | None :: _ => None
  | Some x :: r => match all_some r with Some r' => Some (x :: r') | None => None end
  end.

(* meta_fields[k] *)
Definition fld (fs : list (list mval)) (k : nat) : option (list mval) := nth_error fs k.
(* meta_fields[k][0] as a number *)
Definition fld_int0 fs k : option Z :=
  match fld fs k with Some (v :: _) => as_int v | _ => None end.
Definition fld_float0 fs k : option Q :=
  match fld fs k with Some (v :: _) => as_float v | _ => None end.
Definition fld_ints fs k : option (list Z) :=
  match fld fs k with Some vs => all_some (map as_int vs) | None => None end.
(* b"".join(meta_fields[k]) : needs bytes items *)
Definition fld_bytes fs k : option (list Z) :=
  match fld fs k with
  | Some vs => all_some (map (fun v => match v with MByte b => Some b | _ => None end) vs)
  | None => None
  end.
(* decode_replace: drop b"\x00" items, join, .decode("ascii", errors="ignore") drops bytes >= 128 *)
Definition decode_replace (bs : list Z) : list Z :=
  filter (fun b => negb (b =? 0)%Z && (b <? 128)%Z) bs.
Definition fld_str fs k : option (list Z) := option_map decode_replace (fld_bytes fs k).

Definition read_meta (md : list Z) : option ohdr :=
  match read_fields Tables.c07.layout md 0 with
  | None => None
  | Some fs =>
    match fld_int0 fs 0, fld_str fs 1, fld_float0 fs 2, fld_int0 fs 3, fld_float0 fs 4,
          fld_ints fs 5, fld_ints fs 6, fld_ints fs 7, fld_ints fs 8, fld_ints fs 9 with
    | Some a0, Some a1, Some a2, Some a3, Some a4, Some a5, Some a6, Some a7, Some a8, Some a9 =>
      match fld_int0 fs 10, fld_int0 fs 11, fld_bytes fs 12, fld_int0 fs 13, fld_int0 fs 14,
            fld_str fs 15, fld_str fs 16, fld_str fs 17, fld_str fs 18 with
      | Some a10, Some a11, Some a12, Some a13, Some a14, Some a15, Some a16, Some a17, Some a18 =>
        match fld_int0 fs 19, fld_ints fs 20, fld_ints fs 21, fld_int0 fs 22 with
        | Some a19, Some a20, Some a21, Some a22 =>
            Some (mkOHdr a0 a1 a2 a3 a4 a5 a6 a7 a8 a9 a10 a11 a12 a13 a14 a15 a16 a17 a18 a19 a20 a21 a22)
        | _, _, _, _ => None
        end
      | _, _, _, _, _, _, _, _, _ => None
      end
    | _, _, _, _, _, _, _, _, _, _ => None
    end
  end.

(* ------------------------------------------------------------------ events *)
Inductive ev :=
| EBpm (m : Q) (bpm : Q)
| EHit (m : Q) (col vol pan : Z)
| EHold (m tm : Q) (col vol pan : Z)
| EMeasureChange.            (* channel 0: an object without .measure *)

(* hold_buffer: column -> open head (measure, volume, pan) *)
Definition hbuf := list (Z * (Q * Z * Z)).
Definition hb_set (hb : hbuf) (c : Z) (v : Q * Z * Z) : hbuf :=
  (c, v) :: filter (fun p => negb (fst p =? c)%Z) hb.
Fixpoint hb_pop (hb : hbuf) (c : Z) : option ((Q * Z * Z) * hbuf) :=
  match hb with
  | [] => None (* KeyError *)
  | (c', v) :: r =>
      if (c' =? c)%Z then Some (v, r)
      else match hb_pop r c with Some (x, r') => Some (x, (c', v) :: r') | None => None end
  end.

(* deque.popleft() k times: IndexError when exhausted *)
Definition take_bytes (k : nat) (d : list Z) : option (list Z * list Z) :=
  if (length d <? k)%nat then None else Some (firstn k d, skipn k d).

(* the 4-byte groups data[4i : 4i+4] for i < len(data)//4 *)
Fixpoint chunks4 (fuel : nat) (d : list Z) : list (list Z) :=
  match fuel with
  | O => []
  | S f => match d with
           | a :: b :: c :: e :: r => [a; b; c; e] :: chunks4 f r
           | _ => []
           end
  end.

Definition sub_measure (i n : nat) (cur : Z) : Q :=
  Qred (inject_Z (Z.of_nat i) / inject_Z (Z.of_nat n) + inject_Z cur).

(* read_events_bpm *)
Fixpoint events_bpm_go (cs : list (list Z)) (i n : nat) (cur : Z) : option (list ev) :=
  match cs with
  | [] => Some []
  | c :: r =>
      match le_float32 c with
      | None => None
      | Some b =>
          match events_bpm_go r (S i) n cur with
          | None => None
          | Some es => if Qeq_bool b 0 then Some es else Some (EBpm (sub_measure i n cur) b :: es)
          end
      end
  end.
Definition read_events_bpm (data : list Z) (cur : Z) : option (list ev) :=
  let cs := chunks4 (length data) data in events_bpm_go cs 0 (length cs) cur.

(* read_events_note *)
Fixpoint events_note_go (cs : list (list Z)) (i n : nat) (col cur : Z) (hb : hbuf) : option (list ev * hbuf) :=
  match cs with
  | [] => Some ([], hb)
  | c :: r =>
      match c with
      | [b0; b1; b2; b3] =>
          match le_int16 [b0; b1] with
          | None => None
          | Some enabled =>
              if (enabled =? 0)%Z then events_note_go r (S i) n col cur hb
              else
                let sm := sub_measure i n cur in
                let vol := (b2 / 16)%Z in let pan := (b2 mod 16)%Z in
                if (b3 =? Tables.c07.kind_hit)%Z then
                  match events_note_go r (S i) n col cur hb with
                  | None => None
                  | Some (es, hb') => Some (EHit sm col vol pan :: es, hb')
                  end
                else if (b3 =? Tables.c07.kind_hold_head)%Z then
                  events_note_go r (S i) n col cur (hb_set hb col (sm, vol, pan))
                else if (b3 =? Tables.c07.kind_hold_tail)%Z then
                  match hb_pop hb col with
                  | None => None
                  | Some ((hm, hvol, hpan), hb1) =>
                      match events_note_go r (S i) n col cur hb1 with
                      | None => None
                      | Some (es, hb') => Some (EHold hm sm col hvol hpan :: es, hb')
                      end
                  end
                else events_note_go r (S i) n col cur hb
          end
      | _ => None
      end
  end.
Definition read_events_note (data : list Z) (col cur : Z) (hb : hbuf) : option (list ev * hbuf) :=
  let cs := chunks4 (length data) data in events_note_go cs 0 (length cs) col cur hb.

(* one package: 8 header bytes, 4 * event_count event bytes (range() of a negative number is empty) *)
Definition read_package (d : list Z) (hb : hbuf) : option (list ev * list Z * hbuf) :=
  match take_bytes 8 d with
  | None => None
  | Some (ph, d1) =>
      match le_int32 (firstn 4 ph), le_int16 (firstn 2 (skipn 4 ph)), le_int16 (skipn 6 ph) with
      | Some measure, Some channel, Some event_count =>
          match take_bytes (Z.to_nat (4 * event_count)) d1 with
          | None => None
          | Some (ed, d2) =>
              if (Tables.c07.col_range_start <=? channel)%Z && (channel <? Tables.c07.col_range_stop)%Z then
                match read_events_note ed (channel - 2) measure hb with
                | None => None
                | Some (es, hb') => Some (es, d2, hb')
                end
              else if (channel =? Tables.c07.ch_bpm_change)%Z then
                match read_events_bpm ed measure with
                | None => None
                | Some es => Some (es, d2, hb)
                end
              else if (channel =? Tables.c07.ch_measure_fraction)%Z then
                (* unpack("<f", events_data[0:4]) needs 4 bytes *)
                match le_float32 (firstn 4 ed) with
                | None => None
                | Some _ => Some ([EMeasureChange], d2, hb)
                end
              else Some ([], d2, hb)
          end
      | _, _, _ => None
      end
  end.

(* the packages of one level; an exhausted deque at a package boundary leaves None entries, on which
   read_pkgs raises AttributeError: modelled as failure right away (every exception is None) *)
Fixpoint read_level (count : nat) (d : list Z) (hb : hbuf) : option (list (list ev) * list Z * hbuf) :=
  match count with
  | O => Some ([], d, hb)
  | S c =>
      match read_package d hb with
      | None => None
      | Some (es, d1, hb1) =>
          match read_level c d1 hb1 with
          | None => None
          | Some (ps, d2, hb2) => Some (es :: ps, d2, hb2)
          end
      end
  end.

(* [None] * n and range(0, n): a negative count is an empty level *)
Fixpoint read_levels (counts : list Z) (d : list Z) (hb : hbuf) : option (list (list (list ev))) :=
  match counts with
  | [] => Some []
  | c :: rest =>
      match read_level (Z.to_nat c) d hb with
      | None => None
      | Some (ps, d1, hb1) =>
          match read_levels rest d1 hb1 with
          | None => None
          | Some r => Some (ps :: r)
          end
      end
  end.

(* ------------------------------------------------------------------ read_pkgs *)
Definition ev_measure (e : ev) : option Q :=
  match e with EBpm m _ => Some m | EHit m _ _ _ => Some m | EHold m _ _ _ _ => Some m | EMeasureChange => None end.

(* list.sort(key=measure): stable *)
Fixpoint insert_by {A} (key : A -> Q) (x : A) (l : list A) : list A :=
  match l with
  | [] => [x]
  | y :: r => if Qle_bool (key x) (key y) then x :: l else y :: insert_by key x r
  end.
Definition sort_by {A} (key : A -> Q) (l : list A) : list A := fold_right (insert_by key) [] l.

Fixpoint dedup_adj (l : list Q) : list Q :=
  match l with
  | [] => []
  | x :: r => match r with
              | [] => [x]
              | y :: _ => if Qeq_bool x y then dedup_adj r else x :: dedup_adj r
              end
  end.

Definition key_of (e : ev) : Q := match ev_measure e with Some m => m | None => 0 end.
Definition is_bpm (e : ev) : bool := match e with EBpm _ _ => true | _ => false end.

Definition note_measures_of (notes : list ev) : list Q :=
  dedup_adj (sort_by (fun x => x)
    (flat_map (fun e => match e with
                        | EHit m _ _ _ => [m]
                        | EHold m tm _ _ _ => [m; tm]
                        | _ => [] end) notes)).

Definition min_to_msec (x : Q) : Q := x * 60000.

Fixpoint dict_get (d : list (Q * Q)) (k : Q) : option Q :=
  match d with
  | [] => None
  | (k', v) :: r => if Qeq_bool k' k then Some v else dict_get r k
  end.

(* state of the sweep *)
Record sweep := mkSweep {
  sw_offset : Q; sw_measure : Q; sw_bpm : Q;
  sw_rest : list (Q * Q);       (* tempo events (measure, bpm) not yet consumed *)
  sw_done : list Q;             (* offsets assigned to the consumed tempo events, in order *)
  sw_next : option Q }.         (* next_bpm_measure (None = Python None) *)

Definition qdiv_opt (a b : Q) : option Q := if Qeq_bool b 0 then None else Some (a / b).

(* ---- OLD: the loop before 9171148 (kept for the refutation witnesses) ----
   while note_measure > next_bpm_measure:   (TypeError when next_bpm_measure is None) *)
Fixpoint while_old (rest : list (Q * Q)) (nm : Q) (s : sweep) : option sweep :=
  match sw_next s with
  | None => None
  | Some nx =>
      if Qlt_bool nx nm then
        match rest with
        | [] => None  (* unreachable: next is None once the list is exhausted *)
        | (bm, bv) :: rest' =>
            match qdiv_opt ((bm - sw_measure s) * 4) (sw_bpm s) with
            | None => None
            | Some x =>
                let off := Qred (sw_offset s + min_to_msec x) in
                let s' := mkSweep off bm bv rest' (sw_done s ++ [off]) (Some bm) in
                match rest' with
                | [] => Some (mkSweep off bm bv [] (sw_done s ++ [off]) None)   (* break *)
                | _ :: _ => while_old rest' nm s'
                end
            end
        end
      else Some s
  end.

Definition not_truthy (o : option Q) : bool := match o with None => true | Some v => Qeq_bool v 0 end.

Fixpoint sweep_old (nms : list Q) (s : sweep) (dict : list (Q * Q)) : option (sweep * list (Q * Q)) :=
  match nms with
  | [] => Some (s, dict)
  | nm :: r =>
      match (if not_truthy (sw_next s) then while_old (sw_rest s) nm s else Some s) with
      | None => None
      | Some s1 =>
          match qdiv_opt (4 * (nm - sw_measure s1)) (sw_bpm s1) with
          | None => None
          | Some x => sweep_old r s1 (dict ++ [(nm, Qred (sw_offset s1 + min_to_msec x))])
          end
      end
  end.

(* ---- the loop since 9171148 ----
   while bpm_ix < len(bpms) and bpms[bpm_ix].measure <= note_measure: advance_bpm() *)
Definition advance (s : sweep) (bm bv : Q) (rest' : list (Q * Q)) : option sweep :=
  match qdiv_opt ((bm - sw_measure s) * 4) (sw_bpm s) with
  | None => None
  | Some x => let off := Qred (sw_offset s + min_to_msec x) in
              Some (mkSweep off bm bv rest' (sw_done s ++ [off]) None)
  end.

Fixpoint while_fixed (rest : list (Q * Q)) (nm : Q) (s : sweep) : option sweep :=
  match rest with
  | [] => Some s
  | (bm, bv) :: rest' =>
      if Qle_bool bm nm then
        match advance s bm bv rest' with
        | None => None
        | Some s' => while_fixed rest' nm s'
        end
      else Some s
  end.

Fixpoint sweep_fixed (nms : list Q) (s : sweep) (dict : list (Q * Q)) : option (sweep * list (Q * Q)) :=
  match nms with
  | [] => Some (s, dict)
  | nm :: r =>
      match while_fixed (sw_rest s) nm s with
      | None => None
      | Some s1 =>
          match qdiv_opt (4 * (nm - sw_measure s1)) (sw_bpm s1) with
          | None => None
          | Some x => sweep_fixed r s1 (dict ++ [(nm, Qred (sw_offset s1 + min_to_msec x))])
          end
      end
  end.

(* while bpm_ix < len(bpms): advance_bpm() *)
Fixpoint tail_fixed (rest : list (Q * Q)) (s : sweep) : option sweep :=
  match rest with
  | [] => Some s
  | (bm, bv) :: rest' =>
      match advance s bm bv rest' with
      | None => None
      | Some s' => tail_fixed rest' s'
      end
  end.

(* note.length = note_measure_dict[tail] - note.offset  goes through the item_props setter:
   an O2JHold is created from ints (length=-1, offset=0), so its pandas Series is int64; assigning an
   integral float offset keeps it int64, note.offset then comes back as numpy.int64, the difference is a
   numpy.float64, and the setter does  val.astype(int64): the length is TRUNCATED toward zero.  With a
   non-integral head offset the Series has become float64 and nothing is lost.  [trunc = true] models
   the code before d4c1412 (OLD); [trunc = false] is the code as it is (length = float(...)). *)
Definition is_integral (q : Q) : bool := Qeq_bool q (inject_Z (Qfloor q)).
Definition hold_length (trunc : bool) (o t : Q) : Q :=
  if trunc && is_integral o then inject_Z (qtrunc (t - o)) else Qred (t - o).

(* assigning offsets to notes; KeyError is impossible by construction but kept as failure *)
Fixpoint assign_notes (trunc : bool) (dict : list (Q * Q)) (notes : list ev) : option (list hitrow * list holdrow) :=
  match notes with
  | [] => Some ([], [])
  | e :: r =>
      match assign_notes trunc dict r with
      | None => None
      | Some (hs, ls) =>
          match e with
          | EHit m col vol pan =>
              match dict_get dict m with
              | Some o => Some (mkHit col o vol pan :: hs, ls)
              | None => None
              end
          | EHold m tm col vol pan =>
              match dict_get dict m, dict_get dict tm with
              | Some o, Some t => Some (hs, mkHold col o (hold_length trunc o t) vol pan :: ls)
              | _, _ => None
              end
          | _ => Some (hs, ls)
          end
      end
  end.

Fixpoint bpm_rows (bpms : list (Q * Q)) (offs : list Q) : list bpmrow :=
  match bpms with
  | [] => []
  | (_, bv) :: r =>
      match offs with
      | o :: offs' => mkBpm o bv :: bpm_rows r offs'
      | [] => mkBpm 0 bv :: bpm_rows r []      (* never reached by the sweep: offset stays 0 *)
      end
  end.

Definition read_pkgs_with (fixed trunc : bool) (pkgs : list (list ev)) (init_bpm : Q) : option omap :=
  let events := concat pkgs in
  if existsb (fun e => match e with EMeasureChange => true | _ => false end) events
  then None  (* events.sort(key=lambda x: x.measure): AttributeError *)
  else
    let events := sort_by key_of events in
    let notes := filter (fun e => negb (is_bpm e)) events in
    let nms := note_measures_of notes in
    let bpms := flat_map (fun e => match e with EBpm m b => [(m, b)] | _ => [] end) events in
    let s0 := mkSweep 0 0 init_bpm bpms []
                (if fixed then None else match bpms with [] => None | (m, _) :: _ => Some m end) in
    let swept :=
      if fixed then
        match sweep_fixed nms s0 [] with
        | None => None
        | Some (s1, dict) =>
            match tail_fixed (sw_rest s1) s1 with None => None | Some s2 => Some (s2, dict) end
        end
      else sweep_old nms s0 [] in
    match swept with
    | None => None
    | Some (s, dict) =>
        match assign_notes trunc dict notes with
        | None => None
        | Some (hs, ls) => Some (mkOMap hs ls (mkBpm 0 init_bpm :: bpm_rows bpms (sw_done s)))
        end
    end.

Definition read_pkgs_fixed := read_pkgs_with true false.    (* THE model: the code as it is *)
Definition read_pkgs_old := read_pkgs_with false true.      (* OLD: before 9171148 / d4c1412 *)

(* ------------------------------------------------------------------ O2JMapSet.read *)
Definition read_with (fixed trunc : bool) (b : list Z) : option oset :=
  match read_meta (firstn 300 b) with
  | None => None
  | Some h =>
      match read_levels (oh_package_count h) (skipn 300 b) [] with
      | None => None
      | Some lvls =>
          match all_some (map (fun pk => read_pkgs_with fixed trunc pk (oh_bpm h)) lvls) with
          | None => None
          | Some ms => Some (mkOSet h ms)
          end
      end
  end.

Definition read_fixed := read_with true false.   (* THE model *)
Definition read_old := read_with false true.     (* OLD variant, witnesses only *)
