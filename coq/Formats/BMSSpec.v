(* SPECIFICATION for C04/C05: what a BMS/BME/PMS text denotes (DESIGN appendix B.4), written from the format
   rules, not from reamber's reader:
   - header lines  #KEY value ;  #BPM n  initial tempo;  #BPMxx v  extended tempo table;  #WAVxx file;  #LNOBJ zz
   - data lines  #mmmcc:d1 d2 ... dk  (each d two characters): object i (d_i <> 00) sits at fraction i/k of
     measure mmm, 4 beats per measure;  the lines are an unordered multiset and several lines may address one
     measure and channel (their objects are overlaid)
   - channel 03: tempo = hex(d); 08: tempo = table[d]; a tempo object at measure 0 position 0 replaces #BPM
   - note channels map to columns by the chosen layout; an object equal to LNOBJ ends a long note whose head is
     the closest earlier object of that lane IN TIME; other objects are hits carrying WAV[d]
   - time of a position: piecewise-linear integration of 60000/bpm per beat (Timing/Integrate.v, time_of).
   Definitions only. *)
From Coq Require Import ZArith QArith Qround Qabs List Bool.
From RV Require Import Base.PyNum Timing.Snapper Timing.Snap Timing.TimingMap Timing.Integrate Timing.Domain Formats.BMSText.
Import ListNotations.
Open Scope Z_scope.

(* format facts (pinned reference constants) *)
Definition CH_TIME_SIG : text := [48;50].
Definition CH_BPM : text := [48;51].
Definition CH_EXBPM : text := [48;56].
Definition ID_NONE : text := [48;48].
Definition BEATS_PER_MEASURE : Q := 4%Q.

Definition slayout := list (text * Z).      (* channel id -> column (>= 0); negative entries are not lanes *)

(* ---- lines ---- *)
Definition data_line (t : text) : option (Z * text * text) :=
  match t with
  | 35 :: a :: b :: c :: x :: y :: 58 :: data =>
      if is_digit a && is_digit b && is_digit c
      then Some (100 * (a - 48) + 10 * (b - 48) + (c - 48), [x; y], data) else None
  | _ => None
  end.
Definition header_line (t : text) : option (text * text) :=
  match t with
  | 35 :: rest =>
      match data_line t with
      | Some _ => None
      | None => match split_first 32 rest with (k, Some v) => Some (k, v) | (_, None) => None end
      end
  | _ => None
  end.

Record sobj := mkObj { o_measure : Z; o_pos : Q; o_chan : text; o_id : text }.

Fixpoint objs_of_pairs (m : Z) (ch : text) (k : Z) (i : Z) (pairs : list text) : list sobj :=
  match pairs with
  | [] => []
  | p :: ps =>
      let rest := objs_of_pairs m ch k (i + 1) ps in
      if text_eqb p ID_NONE then rest else mkObj m (Qred (inject_Z i / inject_Z k)) ch p :: rest
  end.
Definition objs_of_line (t : text) : list sobj :=
  match data_line t with
  | Some (m, ch, data) => objs_of_pairs m ch (Z.of_nat (length data) / 2) 0 (chunks2 data)
  | None => []
  end.

Definition headers_of (lines : list text) : list (text * text) :=
  flat_map (fun l => match header_line l with Some kv => [kv] | None => [] end) lines.
Fixpoint hlookup (k : text) (h : list (text * text)) : option text :=
  match h with [] => None | (k', v) :: r => if text_eqb k k' then Some v else hlookup k r end.

Definition S_BPM : text := [66;80;77].
Definition S_WAV : text := [87;65;86].
Definition S_TITLE : text := [84;73;84;76;69].
Definition S_ARTIST : text := [65;82;84;73;83;84].
Definition S_PLAYLEVEL : text := [80;76;65;89;76;69;86;69;76].
Definition S_LNOBJ : text := [76;78;79;66;74].

Definition is_table_key (p : text) (k : text) : bool := starts_with p k && (length k =? 5)%nat.
Definition table_of (p : text) (h : list (text * text)) : list (text * text) :=
  flat_map (fun kv => if is_table_key p (fst kv) then [(skipn 3 (fst kv), snd kv)] else []) h.

(* position of an object as a snap: 4 beats per measure *)
Definition snap_of (o : sobj) : snap := mkSnap (o_measure o) (Qred (o_pos o * BEATS_PER_MEASURE)%Q) BEATS_PER_MEASURE.
Definition obj_lt (a b : sobj) : bool := snap_lt (snap_of a) (snap_of b).

(* ---- tempo ---- *)
Definition tempo_of_obj (ext : list (text * text)) (o : sobj) : option (option Q) :=
  if text_eqb (o_chan o) CH_BPM then
    match hex_parse2 (o_id o) with Some v => Some (Some (inject_Z v)) | None => Some None end
  else if text_eqb (o_chan o) CH_EXBPM then
    match hlookup (o_id o) ext with
    | Some v => Some (parse_decimal v)
    | None => Some None
    end
  else None.

Fixpoint tempo_objs (ext : list (text * text)) (os : list sobj) : option (list bcs) :=
  match os with
  | [] => Some []
  | o :: r =>
      match tempo_of_obj ext o, tempo_objs ext r with
      | _, None => None
      | None, Some l => Some l
      | Some None, _ => None                                   (* undefined / malformed tempo id *)
      | Some (Some q), Some l => Some (mkBcs q BEATS_PER_MEASURE (snap_of o) :: l)
      end
  end.

Definition at_origin (s : snap) : bool := (s_m s =? 0) && Qeq_bool (s_b s) 0.

(* the tempo script: header tempo from position 0 unless a tempo object sits there *)
Definition script_of (bpm0 : Q) (tempos : list bcs) : list bcs :=
  let sorted := sort_by (fun a b => snap_lt (bs_snap a) (bs_snap b)) tempos in
  match sorted with
  | c :: _ => if at_origin (bs_snap c) then sorted else mkBcs bpm0 BEATS_PER_MEASURE (mkSnap 0 0 BEATS_PER_MEASURE) :: sorted
  | [] => [mkBcs bpm0 BEATS_PER_MEASURE (mkSnap 0 0 BEATS_PER_MEASURE)]
  end.

(* ---- notes ---- *)
Record shit := mkSHit { sh_col : Z; sh_time : Q; sh_sample : text }.
Record shold := mkSHold { sl_col : Z; sl_time : Q; sl_len : Q; sl_sample : text }.

Fixpoint lay_lookup (ch : text) (lay : slayout) : option Z :=
  match lay with [] => None | (k, v) :: r => if text_eqb ch k then Some v else lay_lookup ch r end.
Definition lane_of (lay : slayout) (ch : text) : option Z :=
  match lay_lookup ch lay with Some c => if 0 <=? c then Some c else None | None => None end.
Definition lanes (lay : slayout) : list Z :=
  flat_map (fun kv => if 0 <=? snd kv then [snd kv] else []) lay.

(* objects of one lane in time order: an LNOBJ object closes the object just before it *)
Fixpoint pair_ln (lnobj : text) (prev : option sobj) (l : list sobj) : option (list sobj * list (sobj * sobj)) :=
  match l with
  | [] => Some (match prev with Some h => [h] | None => [] end, [])
  | o :: r =>
      if text_eqb (o_id o) lnobj then
        match prev with
        | None => None                                                  (* a tail without a head *)
        | Some h => match pair_ln lnobj None r with
                    | None => None
                    | Some (hs, ls) => Some (hs, (h, o) :: ls)
                    end
        end
      else
        match pair_ln lnobj (Some o) r with
        | None => None
        | Some (hs, ls) => Some (match prev with Some h => h :: hs | None => hs end, ls)
        end
  end.

Record denotation := mkDen {
  d_hits : list shit; d_holds : list shold;
  d_tempo : list (Q * Q);                  (* (time, bpm) of every tempo change, in time order *)
  d_headers : list (text * text);          (* every header line (key, value) *)
  d_bpm0 : Q;                              (* tempo in force at position 0 *)
  d_ext : list (text * Q); d_wav : list (text * text); d_lnobj : text;
  d_change_in_m0 : bool }.               (* some tempo object lies strictly inside measure 0 *)

Fixpoint all_someq (l : list (text * option Q)) : option (list (text * Q)) :=
  match l with
  | [] => Some []
  | (k, None) :: _ => None
  | (k, Some q) :: r => match all_someq r with Some r' => Some ((k, q) :: r') | None => None end
  end.

Definition sample_of (wav : list (text * text)) (id : text) : text :=
  match hlookup id wav with Some v => v | None => [] end.

Fixpoint lanes_denote (lnobj : text) (lay : slayout) (objs : list sobj) (cols : list Z)
  : option (list (Z * sobj) * list (Z * (sobj * sobj))) :=
  match cols with
  | [] => Some ([], [])
  | c :: cs =>
      let mine := filter (fun o => match lane_of lay (o_chan o) with Some c' => c' =? c | None => false end) objs in
      match pair_ln lnobj None (sort_by obj_lt mine), lanes_denote lnobj lay objs cs with
      | Some (hs, ls), Some (hs', ls') => Some (map (fun h => (c, h)) hs ++ hs', map (fun l => (c, l)) ls ++ ls')
      | _, _ => None
      end
  end.

(* bms_denote: None when the text is not a well-formed BMS text for this reading (no #BPM, undefined tempo id,
   LN tail without head) *)
Definition bms_denote (lay : slayout) (lines : list text) : option denotation :=
  let hs := headers_of lines in
  let objs := flat_map objs_of_line lines in
  let ext := table_of S_BPM hs in
  let wav := table_of S_WAV hs in
  let lnobj := match hlookup S_LNOBJ hs with Some v => v | None => [] end in
  match hlookup S_BPM hs with
  | None => None
  | Some bv =>
      match parse_decimal bv, tempo_objs ext objs, all_someq (map (fun kv => (fst kv, parse_decimal (snd kv))) ext) with
      | Some bpm0, Some tempos, Some extq =>
          let script := script_of bpm0 tempos in
          let t (o : sobj) := Qred (time_of 0 script (snap_of o)) in
          match lanes_denote lnobj lay objs (lanes lay) with
          | None => None
          | Some (hits, holds) =>
              Some (mkDen
                (map (fun ch => mkSHit (fst ch) (t (snd ch)) (sample_of wav (o_id (snd ch)))) hits)
                (map (fun cl => let '(c, (h, tl)) := cl in
                                mkSHold c (t h) (Qred (t tl - t h)) (sample_of wav (o_id h))) holds)
                (map (fun c => (Qred (time_of 0 script (bs_snap c)), bs_bpm c)) script)
                hs
                (match script with c :: _ => bs_bpm c | [] => bpm0 end)
                extq wav lnobj
                (existsb (fun c => (s_m (bs_snap c) =? 0) && negb (Qeq_bool (s_b (bs_snap c)) 0)) script))
          end
      | _, _, _ => None
      end
  end.

(* ================================================================ well-formedness ================================================================ *)
Fixpoint no_dup_by {A} (eqb : A -> A -> bool) (l : list A) : bool :=
  match l with [] => true | x :: r => negb (existsb (eqb x) r) && no_dup_by eqb r end.

Definition is_ascii_text (t : text) : bool := forallb (fun c => (33 <=? c) && (c <=? 126)) t.

(* syntactic validity of one data line *)
Definition data_line_ok (t : text) : bool :=
  match data_line t with
  | Some (m, ch, data) =>
      Nat.even (length data) && negb (length data =? 0)%nat && forallb is_b36_pair (chunks2 data) && is_b36_pair ch
  | None => false
  end.

Definition line_kind_ok (t : text) : bool :=
  match t with
  | [] => true
  | 35 :: c :: _ => if is_digit c then data_line_ok t else true       (* header, filled or not *)
  | 35 :: [] => false
  | _ => true                                                           (* comment / free text *)
  end.

Definition same_pos (a b : sobj) : bool :=
  (o_measure a =? o_measure b) && Qeq_bool (o_pos a) (o_pos b).
Definition same_slot (a b : sobj) : bool := same_pos a b && text_eqb (o_chan a) (o_chan b).
Definition is_tempo_chan (ch : text) : bool := text_eqb ch CH_BPM || text_eqb ch CH_EXBPM.

(* the domain of C04: every line stripped, '#'-lines are headers or valid data lines, header keys distinct and
   printable ASCII, no channel-02 line, #BPM > 0, every tempo object defined and > 0 and at most one per position,
   at most one object per (lane, position), every LN tail has a head, subdivisions 1..192 *)
Definition wf_bms_lines (lay : slayout) (lines : list text) : bool :=
  let hs := headers_of lines in
  let objs := flat_map objs_of_line lines in
  forallb (fun l => text_eqb (strip l) l && line_kind_ok l) lines
  && no_dup_by text_eqb (map fst hs)
  && forallb (fun kv => is_ascii_text (fst kv) && negb (text_eqb (strip (snd kv)) []) && text_eqb (strip (snd kv)) (snd kv)
                         && forallb (fun c => negb (is_lower c)) (fst kv)) hs
  && forallb (fun l => match data_line l with
                       | Some (_, ch, data) => negb (text_eqb ch CH_TIME_SIG) && (length data <=? 384)%nat
                       | None => true end) lines
  && forallb (fun kv => if starts_with S_WAV (fst kv) || (starts_with S_BPM (fst kv) && negb (text_eqb (fst kv) S_BPM))
                        then (length (fst kv) =? 5)%nat && is_b36_pair (skipn 3 (fst kv)) else true) hs
  && match hlookup S_LNOBJ hs with Some v => is_b36_pair v && negb (text_eqb v ID_NONE) | None => true end
  && match bms_denote lay lines with
     | None => false
     | Some d =>
         Qlt_bool 0 (d_bpm0 d) && forallb (fun tb => Qlt_bool 0 (snd tb)) (d_tempo d)
         && match hlookup S_BPM hs with Some v => match parse_decimal v with Some q => Qlt_bool 0 q | None => false end | None => false end
     end
  && no_dup_by same_pos (filter (fun o => is_tempo_chan (o_chan o)) objs)
  && no_dup_by (fun a b => same_pos a b
                           && match lane_of lay (o_chan a), lane_of lay (o_chan b) with
                              | Some x, Some y => x =? y | _, _ => false end)
               (filter (fun o => match lane_of lay (o_chan o) with Some _ => true | None => false end) objs).

(* the clauses of wf_bms_lines the read theorem uses (no 192-subdivision cap, no ASCII / non-empty-value / id-syntax
   clauses): the text-level domain under which the reader and the writer are composed (C05) *)
Definition text_domb (lay : slayout) (lines : list text) : bool :=
  let hs := headers_of lines in
  let objs := flat_map objs_of_line lines in
  forallb (fun l => text_eqb (strip l) l && line_kind_ok l) lines
  && no_dup_by text_eqb (map fst hs)
  && forallb (fun kv => forallb (fun c => negb (is_lower c)) (fst kv)) hs
  && forallb (fun l => match data_line l with Some (_, ch, _) => negb (text_eqb ch CH_TIME_SIG) | None => true end) lines
  && forallb (fun kv => if starts_with S_WAV (fst kv) || (starts_with S_BPM (fst kv) && negb (text_eqb (fst kv) S_BPM))
                        then (length (fst kv) =? 5)%nat else true) hs
  && match bms_denote lay lines with
     | None => false
     | Some d => forallb (fun tb => Qlt_bool 0 (snd tb)) (d_tempo d)
     end
  && no_dup_by same_pos (filter (fun o => is_tempo_chan (o_chan o)) objs).

(* the extra guard under which the read theorem holds of the present code (the excluded class is a finding):
   every tempo object is on the 1/96 grid relative to the previous tempo object *)
Fixpoint pairwise_grid (tbl : list Q) (prev : bcs) (l : list bcs) : bool :=
  match l with
  | [] => true
  | c :: r => existsb (Qeq_bool (frac (seg_beats (bs_met prev) (bs_snap prev) (bs_snap c)))) tbl && pairwise_grid tbl c r
  end.
Definition tempo_on_grid (tbl : list Q) (lines : list text) : bool :=
  let hs := headers_of lines in
  match tempo_objs (table_of S_BPM hs) (flat_map objs_of_line lines) with
  | Some tempos => match script_of 1 tempos with c :: r => pairwise_grid tbl c r | [] => true end
  | None => true
  end.

(* ================================================================ C04: oracle on a read chart ================================================================ *)
From RV Require Import Formats.BMS.

Definition q_close (tol a b : Q) : bool := Qle_bool (Qabs (a - b)) tol.

Fixpoint remove_first {A} (p : A -> bool) (l : list A) : option (list A) :=
  match l with
  | [] => None
  | x :: r => if p x then Some r else match remove_first p r with Some r' => Some (x :: r') | None => None end
  end.
(* multiset equality under a matching relation: every element of a is matched with a distinct element of b, none left *)
Fixpoint multiset_match {A B} (m : A -> B -> bool) (a : list A) (b : list B) : bool :=
  match a with
  | [] => match b with [] => true | _ => false end
  | x :: a' => match remove_first (m x) b with Some b' => multiset_match m a' b' | None => false end
  end.

Definition pair_text_eqb (a b : text * text) : bool := text_eqb (fst a) (fst b) && text_eqb (snd a) (snd b).
Definition or_empty (o : option text) : text := match o with Some v => v | None => [] end.

(* the chart read from [lines] is the chart the text denotes, and the header fields are retained *)
Definition c04_specb (tol : Q) (lay : slayout) (lines : list text) (o : bms_chart) : bool :=
  match bms_denote lay lines with
  | None => false
  | Some d =>
      let m := c_meta o in
      multiset_match (fun s h => (sh_col s =? h_col h) && q_close tol (sh_time s) (h_off h)
                                 && text_eqb (sh_sample s) (h_sample h)) (d_hits d) (c_hits o)
      && multiset_match (fun s h => (sl_col s =? ho_col h) && q_close tol (sl_time s) (ho_off h)
                                    && q_close (tol + tol) (sl_len s) (ho_len h)
                                    && text_eqb (sl_sample s) (ho_sample h)) (d_holds d) (c_holds o)
      && text_eqb (m_title m) (or_empty (hlookup S_TITLE (d_headers d)))
      && text_eqb (m_artist m) (or_empty (hlookup S_ARTIST (d_headers d)))
      && text_eqb (m_version m) (or_empty (hlookup S_PLAYLEVEL (d_headers d)))
      && multiset_match (fun a b => text_eqb (fst a) (fst b) && q_close tol (snd a) (snd b)) (d_ext d) (m_exbpms m)
      && multiset_match pair_text_eqb (d_wav d) (m_samples m)
      && forallb (fun kv => is_table_key S_BPM (fst kv) || is_table_key S_WAV (fst kv) || text_eqb (fst kv) S_BPM
                            || existsb (pair_text_eqb kv) (m_misc m)) (d_headers d)
      (* initial tempo: the chart's tempo list starts at time 0; its tempo there is the initial tempo whenever no
         tempo object lies strictly inside measure 0 (the chart keeps tempo points on measure lines only: a change
         inside measure 0 is re-expressed by C11's reseat as a shorter first measure with a scaled tempo) *)
      && match rev (filter (fun b => Qeq_bool (bo_off b) 0) (c_bpms o)) with
         | b :: _ => d_change_in_m0 d || q_close tol (bo_bpm b) (d_bpm0 d)
         | [] => false
         end
  end.

(* ================================================================ C05: oracle on written lines ================================================================ *)
(* every line syntactically valid: blank, a header  #KEY[ value]  or a data line  #mmmcc:pairs *)
Definition written_line_ok (t : text) : bool :=
  match t with
  | [] => true
  | 35 :: c :: _ => if is_digit c then data_line_ok t else true
  | _ => false
  end.

(* in-memory tempo timeline: (time, bpm) sorted by time *)
Definition tempo_rows (c : wchart) : list bco := sort_by bco_lt (w_bpms c).
Fixpoint active_bco (cur : bco) (rest : list bco) (t : Q) : bco :=
  match rest with
  | nxt :: r => if Qle_bool (bo_off nxt) t then active_bco nxt r t else cur
  | [] => cur
  end.

(* the denoted time t' of an object whose in-memory time is t: exactly t when t is on the snap grid,
   otherwise within 1/192 beat (of the tempo in force at t) *)
Definition time_ok (tol : Q) (tbl : list Q) (bp : list bco) (t t' : Q) : bool :=
  match bp with
  | [] => false
  | b0 :: rest =>
      let a := active_bco b0 rest t in
      let bl := beat_len (bo_bpm a) in
      let x := frac ((t - bo_off a) / bl) in
      let g := snap_frac tbl x in
      if Qle_bool (Qabs (x - g) * bl) tol
      then Qle_bool (Qabs (t - t')) (tol + tol)
      else Qle_bool (Qabs (t - t')) (bl / 192 + tol)
  end.

Definition lex_lt (a b : Z * Q) : bool := (fst a <? fst b) || ((fst a =? fst b) && Qlt_bool (snd a) (snd b)).

Fixpoint pairwise {A B} (f : A -> B -> bool) (a : list A) (b : list B) : bool :=
  match a, b with
  | [], [] => true
  | x :: a', y :: b' => f x y && pairwise f a' b'
  | _, _ => false
  end.

Definition c05_specb (tol : Q) (tbl : list Q) (lay : slayout) (c : wchart) (lines : list text) : bool :=
  forallb written_line_ok lines
  && no_dup_by same_slot (flat_map objs_of_line lines)
  && match bms_denote lay lines with
     | None => false
     | Some d =>
         let bp := tempo_rows c in
         let ok (a b : Z * Q) := (fst a =? fst b) && time_ok tol tbl bp (snd a) (snd b) in
         (* one hit per hit, in the right lane, at the in-memory time *)
         pairwise ok (sort_by lex_lt (map (fun h => (h_col h, h_off h)) (w_hits c)))
                     (sort_by lex_lt (map (fun h => (sh_col h, sh_time h)) (d_hits d)))
         (* a head/LNOBJ pair per hold *)
         && pairwise ok (sort_by lex_lt (map (fun h => (ho_col h, ho_off h)) (w_holds c)))
                        (sort_by lex_lt (map (fun h => (sl_col h, sl_time h)) (d_holds d)))
         && pairwise ok (sort_by lex_lt (map (fun h => (ho_col h, Qred (ho_off h + ho_len h))) (w_holds c)))
                        (sort_by lex_lt (map (fun h => (sl_col h, Qred (sl_time h + sl_len h))) (d_holds d)))
         (* the tempo changes reproduce the in-memory tempo timeline *)
         && pairwise (fun b tb => q_close (tol + tol) (bo_off b) (fst tb) && q_close tol (bo_bpm b) (snd tb)) bp (d_tempo d)
     end.

(* ---- domain of C05 ---- *)
Definition lane_has (lay : slayout) (col : Z) : bool := existsb (fun kv => snd kv =? col) lay && (0 <=? col).
Fixpoint measure_lines (tol : Q) (prev : bco) (rest : list bco) : bool :=
  match rest with
  | [] => true
  | b :: r =>
      let ml := (4 * beat_len (bo_bpm prev))%Q in
      let x := ((bo_off b - bo_off prev) / ml)%Q in
      let k := round_half_even x in
      (0 <? k) && Qle_bool (Qabs (x - inject_Z k) * ml) tol && measure_lines tol b r
  end.
Definition id_ok (lnobj : text) (id : text) : bool :=
  is_b36_pair id && negb (text_eqb id ID_NONE) && negb (text_eqb id lnobj).

Definition wf_wchart_with (tol : Q) (tbl : list Q) (lay : slayout) (dflt : text) (c : wchart) (sn : option wsnaps) : bool :=
  match tempo_rows c with
  | [] => false
  | b0 :: rest =>
      Qeq_bool (bo_off b0) 0
      && forallb (fun b => Qlt_bool 0 (bo_bpm b) && Qeq_bool (bo_met b) 4) (b0 :: rest)
      && (length (w_bpms c) <? 1295)%nat
      && measure_lines tol b0 rest
      && forallb (fun h => Qle_bool 0 (h_off h) && lane_has lay (h_col h)) (w_hits c)
      && forallb (fun h => Qle_bool 0 (ho_off h) && Qlt_bool 0 (ho_len h) && lane_has lay (ho_col h)) (w_holds c)
      && is_b36_pair (w_lnobj c) && negb (text_eqb (w_lnobj c) ID_NONE)
      && id_ok (w_lnobj c) dflt
      && forallb (fun kv => id_ok (w_lnobj c) (fst kv)) (w_samples c)
      && match sn with
         | Some (mkSn sh sa st sb) =>
             let singles := combine (map h_col (w_hits c)) sh in
             let heads := combine (map ho_col (w_holds c)) sa in
             let tails := combine (map ho_col (w_holds c)) st in
             let all := singles ++ heads ++ tails in
             let same (a b : Z * snap) := (fst a =? fst b) && snap_eq (snd a) (snd b) in
             (* no two objects in one (lane, grid slot) *)
             no_dup_by same all
             (* a hold is a head followed by its tail: nothing of that lane in between *)
             && forallb (fun ht => let '(hd, tl) := ht in
                                   snap_lt (snd hd) (snd tl)
                                   && forallb (fun o => negb ((fst o =? fst hd) && snap_lt (snd hd) (snd o) && snap_lt (snd o) (snd tl))) all)
                        (combine heads tails)
             (* the three-digit measure field *)
             && forallb (fun o => s_m (snd o) <? 1000) all && forallb (fun s => s_m s <? 1000) sb
         | None => false
         end
  end.
Definition wf_wchart (tol : Q) (tbl : list Q) (lay : slayout) (dflt : text) (c : wchart) : bool :=
  wf_wchart_with tol tbl lay dflt c (write_snaps tbl c).

(* ================================================================ structural obligations on a channel layout ================================================================ *)
(* channel ids distinct two-character base-36 ids, values distinct (lane lookup is injective in both directions),
   columns below MAX_KEYS, and the three header channels are the format's 02 / 03 / 08 *)
Definition layout_ok (max_keys : Z) (lay : list (text * Z)) : bool :=
  no_dup_by text_eqb (map fst lay)
  && no_dup_by Z.eqb (map snd lay)
  && forallb (fun kv => is_b36_pair (fst kv) && (-3 <=? snd kv) && (snd kv <? max_keys)) lay
  && match layout_rev lay V_TIME_SIG, layout_rev lay V_BPM, layout_rev lay V_EXBPM with
     | Some a, Some b, Some c => text_eqb a CH_TIME_SIG && text_eqb b CH_BPM && text_eqb c CH_EXBPM
     | _, _, _ => false
     end.

(* ================================================================ the domain of the read theorem (bms_read_denotes) ================================================================ *)
(* the reader's lane object / query snap for an object of the text: Snap(measure, beat, None) *)
Definition lobj_of (c : Z) (o : sobj) : lobj := mkLobj c (mkSnap (o_measure o) (s_b (snap_of o)) 0) (o_id o).
Definition qsnap (o : sobj) : snap := mkSnap (o_measure o) (s_b (snap_of o)) 0.
(* the lane objects of the text, in the order the text lists them *)
Definition lane_lobjs (lay : slayout) (sobjs : list sobj) : list lobj :=
  flat_map (fun o => match lane_of lay (o_chan o) with Some c => [lobj_of c o] | None => [] end) sobjs.
Definition origin_bcs (bpm0 : Q) : bcs := mkBcs bpm0 BEATS_PER_MEASURE (mkSnap 0 0 BEATS_PER_MEASURE).
Definition nonneg_snap (b : bcs) : bool := (0 <=? s_m (bs_snap b)) && Qle_bool 0 (s_b (bs_snap b)).
(* a tempo object at measure 0 position 0, if there is one, is the first tempo object the text lists *)
Definition origin_tempo_first (tempos : list bcs) : bool :=
  match tempos with
  | [] => true
  | b1 :: rest => at_origin (bs_snap b1) || forallb (fun b => negb (at_origin (bs_snap b))) (b1 :: rest)
  end.

(* Leibniz equality tests *)
Definition Q_same (a b : Q) : bool := (Qnum a =? Qnum b) && (Qden a =? Qden b)%positive.
Definition snap_same (a b : snap) : bool := (s_m a =? s_m b) && Q_same (s_b a) (s_b b) && Q_same (s_met a) (s_met b).
Definition bcs_same (a b : bcs) : bool := Q_same (bs_bpm a) (bs_bpm b) && Q_same (bs_met a) (bs_met b) && snap_same (bs_snap a) (bs_snap b).
Definition lobj_same (a b : lobj) : bool := (lo_col a =? lo_col b) && snap_same (lo_snap a) (lo_snap b) && text_eqb (lo_pair a) (lo_pair b).
Fixpoint list_same {A} (e : A -> A -> bool) (a b : list A) : bool :=
  match a, b with
  | [], [] => true
  | x :: a', y :: b' => e x y && list_same e a' b'
  | _, _ => false
  end.

(* the state of BMSMap._read_notes after its line loop *)
Definition read_state (cfg : layout) (mk : Z) (lines : list text) : option (bms_meta * rstate) :=
  match classify_lines ([], []) lines with
  | None => None
  | Some (hdr, notes_rev) =>
      match read_file_header hdr with
      | None => None
      | Some meta =>
          match layout_rev cfg V_TIME_SIG, layout_rev cfg V_BPM, layout_rev cfg V_EXBPM with
          | Some ch_ts, Some ch_bpm, Some ch_ex =>
              match read_entries cfg mk meta ch_ts ch_bpm ch_ex
                                 (mkRS [mkBcs (m_bpm meta) 4 (mkSnap 0 0 4)] [] []) (rev notes_rev) with
              | Some st => Some (meta, st)
              | None => None
              end
          | _, _, _ => None
          end
      end
  end.

(* Domain of bms_read_denotes, decidable and evaluated by the runner on every generated text:
   (i)   the line loop collected exactly the objects the format assigns to the text (tempo objects and lane objects,
         in text order)  -- agreement of the two parsers, checked per case, not proved;
   (ii)  a tempo object at the origin is the first tempo object listed;
   (iii) every lane pairs (each LN tail has a head);
   (iv)  the C10 domain: tempo objects pairwise on the 1/96 grid, positions at or after the origin. *)
Definition read_theorem_domain (tbl : list Q) (cfg : layout) (mk : Z) (lines : list text) : bool :=
  match read_state cfg mk lines with
  | None => false
  | Some (meta, st) =>
      let sobjs := flat_map objs_of_line lines in
      match tempo_objs (table_of S_BPM (headers_of lines)) sobjs with
      | None => false
      | Some tempos =>
          let script := script_of (m_bpm meta) tempos in
          list_same bcs_same (r_bcs st) (rev tempos ++ [origin_bcs (m_bpm meta)])
          && list_same lobj_same (r_objs st) (rev (lane_lobjs cfg sobjs))
          && forallb nonneg_snap tempos && origin_tempo_first tempos
          && match lanes_denote (m_lnobj meta) cfg sobjs (map Z.of_nat (seq 0 (Z.to_nat mk))) with
             | None => false
             | Some (hs, ls) =>
                 domainb tbl script (map (fun co => qsnap (snd co)) hs)
                 && domainb tbl script (map (fun cl => qsnap (fst (snd cl))) ls)
                 && domainb tbl script (map (fun cl => qsnap (snd (snd cl))) ls)
             end
      end
  end.

(* the guards of bms_read_denotes as a function of the text: tempo objects pairwise on the grid, and a tempo object at
   the origin listed first *)
Definition read_guards (tbl : list Q) (lines : list text) : bool :=
  tempo_on_grid tbl lines
  && match tempo_objs (table_of S_BPM (headers_of lines)) (flat_map objs_of_line lines) with
     | Some tempos => origin_tempo_first tempos
     | None => true
     end.

(* ================================================================ C04: the guard of the initial-tempo clause (reseat, C11) ================================================================ *)
From RV Require Import Timing.Reseat Timing.ReseatSpec Timing.ReseatDomain.
Open Scope Z_scope.
(* the second change of a list does not lie inside the first measure (C11: gap_mq = whole measures in the gap) *)
Definition first_gap_ge1 (l : list bcs) : bool :=
  match l with
  | c :: n :: _ => (1 <=? gap_mq (bs_met c) (seg_beats (bs_met c) (bs_snap c) (bs_snap n)))%Z
  | _ => true
  end.
(* decidable on the text: the tempo script of the text, in the form TimingMap.reseat() sees it (millisecond form, positions
   re-derived), lies in C11's domain wf_unseated and inside C11's guard no_extend (no gap remainder in the extend window
   (0, 0.001] -- implied by the 1/96 grid), and no tempo object lies strictly inside measure 0 (such a change is
   re-expressed by reseat as a shorter first measure with a scaled tempo: the initial tempo is then not retained) *)
Definition reseat_textb (tbl : list Q) (lines : list text) : bool :=
  let hs := headers_of lines in
  match hlookup S_BPM hs with
  | Some bv =>
      match parse_decimal bv, tempo_objs (table_of S_BPM hs) (flat_map objs_of_line lines) with
      | Some bpm0, Some tempos =>
          match from_bcs 0 (script_of bpm0 tempos) with
          | Some tm =>
              match bco_to_bcs tbl (sort_by bco_lt tm) with
              | Some l' => wf_unseated l' && no_extend THRESHOLD l' && first_gap_ge1 l'
              | None => false
              end
          | None => false
          end
      | _, _ => false
      end
  | None => false
  end.

(* ================================================================ C04: "the chart is the chart the text denotes", as a proposition ================================================================ *)
(* rows up to order (the format does not order the objects of a text), times by value, everything else exactly *)
From Coq Require Import Sorting.Permutation.
Definition hit_matches (s : shit) (h : hit) : Prop :=
  h_col h = sh_col s /\ (h_off h == sh_time s)%Q /\ h_sample h = sh_sample s.
Definition hold_matches (s : shold) (l : hold) : Prop :=
  ho_col l = sl_col s /\ (ho_off l == sl_time s)%Q /\ (ho_len l == sl_len s)%Q /\ ho_sample l = sl_sample s.
Definition chart_denotes (c : bms_chart) (d : denotation) : Prop :=
  (exists hs, Permutation hs (d_hits d) /\ Forall2 hit_matches hs (c_hits c))
  /\ (exists ls, Permutation ls (d_holds d) /\ Forall2 hold_matches ls (c_holds c))
  /\ m_title (c_meta c) = or_empty (hlookup S_TITLE (d_headers d))
  /\ m_artist (c_meta c) = or_empty (hlookup S_ARTIST (d_headers d))
  /\ m_version (c_meta c) = or_empty (hlookup S_PLAYLEVEL (d_headers d))
  /\ m_lnobj (c_meta c) = d_lnobj d
  /\ m_exbpms (c_meta c) = d_ext d
  /\ m_samples (c_meta c) = d_wav d
  /\ (forall k v, In (k, v) (d_headers d) -> is_table_key S_BPM k = false -> is_table_key S_WAV k = false ->
                  k <> S_BPM -> In (k, v) (m_misc (c_meta c))).

(* ================================================================ C05: the domain and the statement of bms_write_denotes ================================================================ *)
From RV Require Import Timing.Domain2.
Open Scope Z_scope.
(* the chart's tempo list, re-derived as a script (positions) *)
Definition wscript (tbl : list Q) (c : wchart) : option (list bcs) := bco_to_bcs tbl (sort_by bco_lt (w_bpms c)).
Definition bco_same (a b : bco) : bool := Q_same (bo_bpm a) (bo_bpm b) && Q_same (bo_met a) (bo_met b) && Q_same (bo_off a) (bo_off b).
(* the tempo list is sorted, is (in reduced fractions) the millisecond form of its own script, and that script lies in
   C10's on-grid domain *)
Definition tempo_dom (tbl : list Q) (c : wchart) : bool :=
  match wscript tbl c with
  | Some l => domainb tbl l []
              && match from_bcs 0 l with Some s => list_same bco_same s (w_bpms c) | None => false end
              && list_same bco_same (sort_by bco_lt (w_bpms c)) (w_bpms c)
  | None => false
  end.
(* ':.3f' prints the tempo without loss (the excluded class is the known finding bpm-3f-rounding) *)
Definition bpm_3f_ok (b : bco) : bool :=
  match parse_decimal (fmt_fixed 3 (bo_bpm b)) with Some q => Q_same q (bo_bpm b) | None => false end.
(* a misc header key: one word, not starting with a digit, none of the keys the writer emits itself *)
Definition misc_key_ok (k : text) : bool :=
  negb (existsb (Z.eqb 32) k) && match k with c :: _ => negb (is_digit c) | [] => false end
  && negb (text_eqb k S_LNOBJ) && negb (is_table_key S_BPM k) && negb (is_table_key S_WAV k).
Definition write_dom (tbl : list Q) (mk : Z) (lay : slayout) (dflt : text) (c : wchart) : bool :=
  layout_ok mk lay && wf_wchart 0 tbl lay dflt c && tempo_dom tbl c
  && forallb (fun b => Q_same (bo_met b) 4 && bpm_3f_ok b) (w_bpms c)
  && forallb (fun kv => misc_key_ok (fst kv)) (w_misc c).

(* a written file as plain lines; the initial tempo is printed by str(float), an oracle: any rendering [r] *)
Definition render_with (r : Q -> text) (w : wline) : text :=
  match w with WText t => t | WBpm0 q => T_BPM ++ [32] ++ r q end.

(* the denoted time t of an object whose in-memory time is o: within 1/192 beat of the tempo in force at o, and exactly o
   when o lies on the snap grid relative to the tempo change in force (C10's active_at_time / time_on_gridb) *)
Definition time_rt (tbl : list Q) (l : list bcs) (o t : Q) : Prop :=
  (192 * Qabs (t - o) <= beat_len (bs_bpm (snd (active_at_time 0 l o))))%Q
  /\ (time_on_gridb tbl 0 l o = true -> (t == o)%Q).
(* the sample a written object denotes: the file name registered under the id the writer chose *)
Definition sample_id (c : wchart) (dflt : text) (s : text) : text :=
  match samples_rev (w_samples c) s with Some k => k | None => dflt end.
Definition written_denotes (tbl : list Q) (dflt : text) (c : wchart) (l : list bcs) (d : denotation) : Prop :=
  (exists hs, Permutation hs (d_hits d)
     /\ Forall2 (fun h s => sh_col s = h_col h /\ time_rt tbl l (h_off h) (sh_time s)
                            /\ sh_sample s = sample_of (w_samples c) (sample_id c dflt (h_sample h))) (w_hits c) hs)
  /\ (exists ls, Permutation ls (d_holds d)
     /\ Forall2 (fun h s => sl_col s = ho_col h /\ time_rt tbl l (ho_off h) (sl_time s)
                            /\ time_rt tbl l (Qred (ho_off h + ho_len h)) (sl_time s + sl_len s)
                            /\ sl_sample s = sample_of (w_samples c) (sample_id c dflt (ho_sample h))) (w_holds c) ls)
  /\ Forall2 (fun b tb => (fst tb == bo_off b)%Q /\ snd tb = bo_bpm b) (w_bpms c) (d_tempo d)
  /\ hlookup S_TITLE (d_headers d) = Some (w_title c) /\ hlookup S_ARTIST (d_headers d) = Some (w_artist c)
  /\ hlookup S_PLAYLEVEL (d_headers d) = Some (w_version c)
  /\ d_lnobj d = w_lnobj c /\ d_wav d = w_samples c
  /\ (forall kv, In kv (w_misc c) -> In kv (d_headers d)).

(* ================================================================ C05: tempo rows in ANY order ================================================================ *)
(* The property ranges over all charts: the rows of the tempo list need not be in time order (TimingMap sorts them; the
   writer's header '#BPM' takes the FIRST ROW and the '#BPMxx' ids follow row order).  [with_bpms c p]: the chart c with
   tempo rows p; [time_ordered c]: c with its tempo rows put in time order. *)
Definition with_bpms (c : wchart) (p : list bco) : wchart :=
  mkW (w_hits c) (w_holds c) p (w_samples c) (w_lnobj c) (w_title c) (w_artist c) (w_version c) (w_misc c).
Definition time_ordered (c : wchart) : wchart := with_bpms c (sort_by bco_lt (w_bpms c)).
(* the domain of bms_write_denotes_any_order (decidable): the chart with its tempo rows in time order lies in write_dom;
   i.e. the tempo rows are a permutation of a list of write_dom (offsets there are pairwise distinct) *)
Definition write_dom_any (tbl : list Q) (mk : Z) (lay : slayout) (dflt : text) (c : wchart) : bool :=
  write_dom tbl mk lay dflt (time_ordered c).
(* the conclusion for rows in any order: as written_denotes, the tempo changes of the file (time order) against the rows
   in TIME order, and the tempo in force at position 0 is the tempo of the earliest row (whatever '#BPM' says: the
   tempo object the writer puts at measure 0 position 0 replaces it) *)
Definition written_denotes_any (tbl : list Q) (dflt : text) (c : wchart) (l : list bcs) (d : denotation) : Prop :=
  (exists hs, Permutation hs (d_hits d)
     /\ Forall2 (fun h s => sh_col s = h_col h /\ time_rt tbl l (h_off h) (sh_time s)
                            /\ sh_sample s = sample_of (w_samples c) (sample_id c dflt (h_sample h))) (w_hits c) hs)
  /\ (exists ls, Permutation ls (d_holds d)
     /\ Forall2 (fun h s => sl_col s = ho_col h /\ time_rt tbl l (ho_off h) (sl_time s)
                            /\ time_rt tbl l (Qred (ho_off h + ho_len h)) (sl_time s + sl_len s)
                            /\ sl_sample s = sample_of (w_samples c) (sample_id c dflt (ho_sample h))) (w_holds c) ls)
  /\ Forall2 (fun b tb => (fst tb == bo_off b)%Q /\ snd tb = bo_bpm b) (sort_by bco_lt (w_bpms c)) (d_tempo d)
  /\ (exists b0 rest, sort_by bco_lt (w_bpms c) = b0 :: rest /\ d_bpm0 d = bo_bpm b0)
  /\ hlookup S_TITLE (d_headers d) = Some (w_title c) /\ hlookup S_ARTIST (d_headers d) = Some (w_artist c)
  /\ hlookup S_PLAYLEVEL (d_headers d) = Some (w_version c)
  /\ d_lnobj d = w_lnobj c /\ d_wav d = w_samples c
  /\ (forall kv, In kv (w_misc c) -> In kv (d_headers d)).
(* the narrow guard under which the '#BPM' header line itself shows the initial tempo: the first row is the earliest *)
Definition first_row_earliest (c : wchart) : bool :=
  match w_bpms c with
  | b0 :: rest => forallb (fun b => Qle_bool (bo_off b0) (bo_off b)) rest
  | [] => false
  end.
