(* SPECIFICATION for C01: what an osu! v14 mania text denotes according to the FORMAT (DESIGN.md
   appendix B.1), written independently of reamber's reader/writer: section-aware, key:value cut at the
   FIRST colon, note kind decided by the type bit field, column by exact integer arithmetic.
   Shares with the model only the data types of a chart and the generic text library.

   Choices made visible (appendix B.1): surrounding blanks of every line are ignored; a sample event's
   file field is kept verbatim (with its quotes, the in-memory convention reamber documents in its tests);
   SampleSet names None/Normal/Soft/Drum denote 0..3 and anything else -1; Tags is blank-separated. *)
From Coq Require Import String Ascii.
From Coq Require Import ZArith QArith Qround Qabs List Bool.
From RV Require Import Base.PyNum Base.Text Formats.Osu.
Import ListNotations.
Open Scope Z_scope.

(* ------------------------------------------------------------------ sections *)
Definition is_header (l : text) : bool :=
  match l with 91 :: _ => (last l 0 =? 93) | _ => false end.            (* [ ... ] *)

(* the body of the first section with the given header: lines up to the next header *)
Fixpoint take_body (ls : list text) : list text :=
  match ls with
  | [] => []
  | l :: ls' => if is_header l then [] else l :: take_body ls'
  end.
Fixpoint section (h : text) (ls : list text) : option (list text) :=
  match ls with
  | [] => None
  | l :: ls' => if text_eqb l h then Some (take_body ls') else section h ls'
  end.
Definition headers (ls : list text) : list text := filter is_header ls.

(* cut at the first occurrence of c *)
Fixpoint cut_first (c : Z) (s : text) : option (text * text) :=
  match s with
  | [] => None
  | x :: s' => if x =? c then Some ([], s')
               else match cut_first c s' with Some (a, b) => Some (x :: a, b) | None => None end
  end.

(* ------------------------------------------------------------------ key:value sections *)
Inductive vtype := TStr | TInt | TBool | TDec | TSampleSet | TTags.
(* (section, key, type); position in this list = index of the attribute in a chart's c_meta *)
Definition key_table : list (text * text * vtype) :=
  let G := t "[General]" in let E := t "[Editor]" in let M := t "[Metadata]" in let D := t "[Difficulty]" in
  [ (G, t "AudioFilename", TStr); (G, t "AudioLeadIn", TInt); (G, t "PreviewTime", TInt); (G, t "Countdown", TBool);
    (G, t "SampleSet", TSampleSet); (G, t "StackLeniency", TDec); (G, t "Mode", TInt);
    (G, t "LetterboxInBreaks", TBool); (G, t "SpecialStyle", TBool); (G, t "WidescreenStoryboard", TBool);
    (E, t "DistanceSpacing", TDec); (E, t "BeatDivisor", TInt); (E, t "GridSize", TInt); (E, t "TimelineZoom", TDec);
    (M, t "Title", TStr); (M, t "TitleUnicode", TStr); (M, t "Artist", TStr); (M, t "ArtistUnicode", TStr);
    (M, t "Creator", TStr); (M, t "Version", TStr); (M, t "Source", TStr); (M, t "Tags", TTags);
    (M, t "BeatmapID", TInt); (M, t "BeatmapSetID", TInt);
    (D, t "HPDrainRate", TDec); (D, t "CircleSize", TDec); (D, t "OverallDifficulty", TDec);
    (D, t "ApproachRate", TDec); (D, t "SliderMultiplier", TDec); (D, t "SliderTickRate", TDec) ].

Definition sample_set_of (s : text) : Z :=
  match index_of s [t "None"; t "Normal"; t "Soft"; t "Drum"] with Some i => i | None => -1 end.

Definition words (s : text) : list text := filter nonempty (map strip (split_on 32 s)).

(* typed value of the text after the first colon; None = the text is not in the dialect *)
Definition typed_value (ty : vtype) (v : text) : option mval :=
  let v := strip v in
  match ty with
  | TStr => Some (MStr v)
  | TInt => option_map (fun z => MNum (inject_Z z)) (parse_int v)
  | TBool => option_map (fun z => MBool (negb (z =? 0))) (parse_int v)
  | TDec => option_map MNum (parse_dec v)
  | TSampleSet => Some (MNum (inject_Z (sample_set_of v)))
  | TTags => Some (MTags (words v))
  end.

(* value of [key] inside a section body: the last line "key:value" wins *)
Fixpoint lookup_kv (key : text) (body : list text) (acc : option text) : option text :=
  match body with
  | [] => acc
  | l :: body' =>
      lookup_kv key body'
        (match cut_first 58 l with
         | Some (k, v) => if text_eqb k key then Some v else acc
         | None => acc end)
  end.

(* Some None: key absent;  Some (Some v): present with value v;  None: present but ill-typed *)
Definition denote_key (ls : list text) (e : text * text * vtype) : option (option mval) :=
  let '(sec, key, ty) := e in
  match section sec ls with
  | None => Some None
  | Some body => match lookup_kv key body None with
                 | None => Some None
                 | Some v => option_map Some (typed_value ty v)
                 end
  end.

(* ------------------------------------------------------------------ [Events] *)
Fixpoint after_line (mark : text) (ls : list text) : option (list text) :=
  match ls with
  | [] => None
  | l :: ls' => if text_eqb l mark then Some ls' else after_line mark ls'
  end.

Definition between_quotes_go (s : text) : text :=            (* s starts just after the first quote *)
  rev (match cut_first 34 (rev s) with Some (_, b) => b | None => [] end).
Definition between_quotes (s : text) : option text :=
  match cut_first 34 s with
  | Some (_, rest) => if has 34 rest then Some (between_quotes_go rest) else None
  | None => None
  end.

Definition denote_bg (ls : list text) : option (option text) :=
  match section (t "[Events]") ls with
  | None => Some None
  | Some body => match after_line (t "//Background and Video events") body with
                 | None => Some None
                 | Some [] => None
                 | Some (l :: _) => option_map Some (between_quotes l)
                 end
  end.

Definition denote_sample (l : text) : option sample :=
  match split_on 44 l with
  | [_; tm; _; file; vol] =>
      match parse_dec (strip tm), parse_int (strip vol) with
      | Some o, Some v => Some (mkSample o file v)
      | _, _ => None end
  | _ => None
  end.
Definition denote_samples (ls : list text) : option (list sample) :=
  match section (t "[Events]") ls with
  | None => Some []
  | Some body => match after_line (t "//Storyboard Sound Samples") body with
                 | None => Some []
                 | Some rest => omap denote_sample (filter (startswith (t "Sample,")) rest)
                 end
  end.

(* ------------------------------------------------------------------ [TimingPoints] *)
Inductive tp := TPBpm (b : bpmpt) | TPSv (s : svpt).
Definition denote_tp (l : text) : option tp :=
  match map strip (split_on 44 l) with
  | [tm; bl; meter; sset; sidx; vol; uninh; eff] =>
      match parse_dec tm, parse_dec bl, parse_int meter, parse_int sset, parse_int sidx, parse_int vol,
            parse_int uninh, parse_int eff with
      | Some o, Some beat, Some me, Some ss, Some si, Some v, Some u, Some ef =>
          if Qeq_bool beat 0 then None
          else if u =? 1 then Some (TPBpm (mkBpm o (Qred (60000 / beat)) me ss si v (Z.odd ef)))
          else if u =? 0 then Some (TPSv (mkSv o (Qred (- (100) / beat)) ss si v (Z.odd ef)))
          else None
      | _, _, _, _, _, _, _, _ => None
      end
  | _ => None
  end.

(* ------------------------------------------------------------------ [HitObjects] *)
(* column = clamp(floor(x * keys / 512), 0, keys - 1), exact integer arithmetic *)
Definition column_of (x keys : Z) : Z := Z.max 0 (Z.min (keys - 1) (x * keys / 512)).
(* the centre a writer should use, and "x lies inside the range of column c" *)
Definition centre_of (c keys : Z) : Z := (512 * c + 256) / keys.
Definition in_column_range (x c keys : Z) : Prop := x * keys / 512 = c.

Inductive hobj := HHit (n : note) | HHold (n : note).
Definition denote_ho (keys : Z) (l : text) : option hobj :=
  match map strip (split_on 44 l) with
  | [x; y; tm; ty; hs; params] =>
      match parse_int x, parse_int y, parse_dec tm, parse_int ty, parse_int hs with
      | Some x, Some _, Some o, Some ty, Some hs =>
          if Z.testbit ty 7 then
            match split_on 58 params with
            | [en; ss; ads; cs; vol; file] =>
                match parse_dec (strip en), parse_int (strip ss), parse_int (strip ads), parse_int (strip cs),
                      parse_int (strip vol) with
                | Some e, Some ss, Some ads, Some cs, Some vol =>
                    Some (HHold (mkNote o (column_of x keys) (Qred (e - o)) hs ss ads cs vol file))
                | _, _, _, _, _ => None end
            | _ => None end
          else if Z.testbit ty 0 then
            match split_on 58 params with
            | [ss; ads; cs; vol; file] =>
                match parse_int (strip ss), parse_int (strip ads), parse_int (strip cs), parse_int (strip vol) with
                | Some ss, Some ads, Some cs, Some vol =>
                    Some (HHit (mkNote o (column_of x keys) 0 hs ss ads cs vol file))
                | _, _, _, _ => None end
            | _ => None end
          else None
      | _, _, _, _, _ => None end
  | _ => None
  end.

(* ------------------------------------------------------------------ the denotation *)
Record dchart := mkD { d_meta : list (option mval); d_bg : option text; d_samples : list sample;
                       d_bpms : list bpmpt; d_svs : list svpt; d_hits : list note; d_holds : list note;
                       d_keys : Z }.

Fixpoint pick_bpms (l : list tp) : list bpmpt := match l with [] => [] | TPBpm b :: r => b :: pick_bpms r | _ :: r => pick_bpms r end.
Fixpoint pick_svs (l : list tp) : list svpt := match l with [] => [] | TPSv b :: r => b :: pick_svs r | _ :: r => pick_svs r end.
Fixpoint pick_hits (l : list hobj) : list note := match l with [] => [] | HHit b :: r => b :: pick_hits r | _ :: r => pick_hits r end.
Fixpoint pick_holds (l : list hobj) : list note := match l with [] => [] | HHold b :: r => b :: pick_holds r | _ :: r => pick_holds r end.

Definition IX_KEYS := 25%nat.
Definition is_integral (q : Q) : bool := Qeq_bool q (inject_Z (Qfloor q)).

Definition osu_denote (lines0 : list text) : option dchart :=
  let ls := map strip lines0 in
  do meta <- omap (denote_key ls) key_table;
  do bg <- denote_bg ls;
  do samples <- denote_samples ls;
  do tpb <- section (t "[TimingPoints]") ls;
  do hob <- section (t "[HitObjects]") ls;
  do tps <- omap denote_tp (filter nonempty tpb);
  do keys <- match nth IX_KEYS meta None with
             | Some (MNum q) => if is_integral q then Some (Qfloor q) else None
             | _ => None end;
  do hos <- omap (denote_ho keys) (filter nonempty hob);
  Some (mkD meta bg samples (pick_bpms tps) (pick_svs tps) (pick_hits hos) (pick_holds hos) keys).

(* ------------------------------------------------------------------ comparison of charts *)
Open Scope Q_scope.
(* tol = 0 on the exact stream; relative on the rounded one *)
Definition q_close (tol a b : Q) : bool := Qle_bool (Qabs (a - b)) (tol * (1 + Qabs a)).
Definition META_TOL : Q := 1 # 1000000000.
Definition qmax (a b : Q) : Q := if Qle_bool a b then b else a.

Definition mval_close (tol : Q) (a b : mval) : bool :=
  match a, b with
  | MStr x, MStr y => text_eqb x y
  | MNum x, MNum y => q_close (qmax tol META_TOL) x y
  | MBool x, MBool y => Bool.eqb x y
  | MBool x, MNum y => Qeq_bool (if x then 1 else 0) y
  | MNum x, MBool y => Qeq_bool x (if y then 1 else 0)
  | MTags x, MTags y => list_eqb text_eqb x y
  | _, _ => false
  end.

Definition note_close (tol : Q) (a b : note) : bool :=
  q_close tol (n_off a) (n_off b) && (n_col a =? n_col b)%Z && q_close tol (n_len a) (n_len b)
  && (n_hs a =? n_hs b)%Z && (n_ss a =? n_ss b)%Z && (n_as a =? n_as b)%Z && (n_cs a =? n_cs b)%Z
  && (n_vol a =? n_vol b)%Z && text_eqb (n_file a) (n_file b).
Definition bpm_close (tol : Q) (a b : bpmpt) : bool :=
  q_close tol (b_off a) (b_off b) && q_close (qmax tol META_TOL) (b_bpm a) (b_bpm b) && (b_met a =? b_met b)%Z
  && (b_ss a =? b_ss b)%Z && (b_ssi a =? b_ssi b)%Z && (b_vol a =? b_vol b)%Z && Bool.eqb (b_kiai a) (b_kiai b).
Definition sv_close (tol : Q) (a b : svpt) : bool :=
  q_close tol (s_off a) (s_off b) && q_close (qmax tol META_TOL) (s_mul a) (s_mul b)
  && (s_ss a =? s_ss b)%Z && (s_ssi a =? s_ssi b)%Z && (s_vol a =? s_vol b)%Z && Bool.eqb (s_kiai a) (s_kiai b).
Definition sample_close (tol : Q) (a b : sample) : bool :=
  q_close tol (sm_off a) (sm_off b) && text_eqb (sm_file a) (sm_file b) && (sm_vol a =? sm_vol b)%Z.

(* rows up to permutation: remove the first match of each element *)
Fixpoint remove_first {A} (r : A -> bool) (l : list A) : option (list A) :=
  match l with
  | [] => None
  | y :: l' => if r y then Some l' else option_map (cons y) (remove_first r l')
  end.
Fixpoint perm_match {A} (r : A -> A -> bool) (a b : list A) : bool :=
  match a with
  | [] => match b with [] => true | _ => false end
  | x :: a' => match remove_first (r x) b with Some b' => perm_match r a' b' | None => false end
  end.

Fixpoint meta_agrees (tol : Q) (d : list (option mval)) (m : list mval) : bool :=
  match d, m with
  | [], [] => true
  | None :: d', _ :: m' => meta_agrees tol d' m'
  | Some v :: d', w :: m' => mval_close tol v w && meta_agrees tol d' m'
  | _, _ => false
  end.

(* "the chart c is what the text denotes" (d = osu_denote text) *)
Definition denotes (tol : Q) (d : dchart) (c : chart) : bool :=
  meta_agrees tol (d_meta d) (c_meta c)
  && match d_bg d with None => true | Some b => text_eqb b (c_bg c) end
  && perm_match (sample_close tol) (d_samples d) (c_samples c)
  && perm_match (bpm_close tol) (d_bpms d) (c_bpms c)
  && perm_match (sv_close tol) (d_svs d) (c_svs c)
  && perm_match (note_close tol) (d_hits d) (c_hits c)
  && perm_match (note_close tol) (d_holds d) (c_holds c).

(* ------------------------------------------------------------------ domains *)
Definition canonical_headers : list text :=
  [t "[General]"; t "[Editor]"; t "[Metadata]"; t "[Difficulty]"; t "[Events]"; t "[TimingPoints]";
   t "[Colours]"; t "[HitObjects]"].
(* hs is a subsequence of ref *)
Fixpoint subseq (hs ref : list text) : bool :=
  match hs, ref with
  | [], _ => true
  | _ :: _, [] => false
  | h :: hs', r :: ref' => if text_eqb h r then subseq hs' ref' else subseq hs ref'
  end.

Definition x_of_line (l : text) : option Z := match split_on 44 l with x :: _ => parse_int (strip x) | [] => None end.
Definition eff_of_line (l : text) : option Z := match map strip (split_on 44 l) with [_;_;_;_;_;_;_;e] => parse_int e | _ => None end.

(* the v14 mania dialect the read direction is claimed for: sections in file order, both list sections
   present, every attribute well-typed, keys 1..18, every x inside some column's range (0 <= x < 512),
   effects in {0,1}, every line of the two list sections well-formed *)
Definition wf_read_text (lines0 : list text) : bool :=
  let ls := map strip lines0 in
  subseq (headers ls) canonical_headers
  && match osu_denote lines0 with
     | None => false
     | Some d =>
         (1 <=? d_keys d)%Z && (d_keys d <=? 18)%Z
         && forallb (fun l => match x_of_line l with Some x => (0 <=? x)%Z && (x <? 512)%Z | None => false end)
                    (filter nonempty (match section (t "[HitObjects]") ls with Some b => b | None => [] end))
         && forallb (fun l => match eff_of_line l with Some e => (e =? 0)%Z || (e =? 1)%Z | None => false end)
                    (filter nonempty (match section (t "[TimingPoints]") ls with Some b => b | None => [] end))
     end.

(* well-formed WRITTEN text (B.1): every note line has exactly 5 commas and 4 (hit, type 1) or 5 (hold,
   type 128) colons, integer x / time / endTime, notes in non-decreasing time order; and the text denotes *)
Definition note_line_ok (l : text) : option Z :=
  match split_on 44 l with
  | [x; y; tm; ty; hs; params] =>
      match parse_int x, parse_int tm, parse_int ty with
      | Some _, Some tm', Some ty' =>
          if (ty' =? 1)%Z && (count 58 params =? 4)%nat then Some tm'
          else if (ty' =? 128)%Z && (count 58 params =? 5)%nat then
                 match split_on 58 params with e :: _ => match parse_int e with Some _ => Some tm' | None => None end | [] => None end
          else None
      | _, _, _ => None end
  | _ => None
  end.
Fixpoint nondecreasing (l : list Z) : bool :=
  match l with
  | a :: ((b :: _) as r) => (a <=? b)%Z && nondecreasing r
  | _ => true
  end.
Definition wf_osu_text (lines0 : list text) : bool :=
  let ls := map strip lines0 in
  match osu_denote lines0, section (t "[HitObjects]") ls with
  | Some _, Some body =>
      match omap note_line_ok (filter nonempty body) with
      | Some times => nondecreasing times
      | None => false end
  | _, _ => false
  end.

(* ------------------------------------------------------------------ the write direction *)
(* int(): times move toward zero by less than 1 ms *)
Definition trunc_note (hold : bool) (n : note) : note :=
  let o := inject_Z (qtrunc (n_off n)) in
  mkNote o (n_col n) (if hold then Qred (inject_Z (qtrunc (n_off n + n_len n)) - o) else 0)
         (n_hs n) (n_ss n) (n_as n) (n_cs n) (n_vol n) (n_file n).
Definition trunc_sample (s : sample) : sample := mkSample (inject_Z (qtrunc (sm_off s))) (sm_file s) (sm_vol s).

Definition IX_PREVIEW := 2%nat.
(* the chart a written text must denote: [c] with note / sample / preview times truncated, Title / Artist replaced
   by their transliteration (oracle), text attributes without surrounding blanks, SV metronome dropped *)
Definition written_chart_raw (c : chart) (ut ua : text) : chart :=
  mkChart (set_nth (set_nth (set_nth (c_meta c) IX_PREVIEW (MNum (inject_Z (qtrunc (meta_num (c_meta c) IX_PREVIEW)))))
                            IX_TITLE (MStr (strip ut))) IX_ARTIST (MStr (strip ua)))
          (c_bg c) (map trunc_sample (c_samples c)) (c_bpms c) (c_svs c)
          (map (trunc_note false) (c_hits c)) (map (trunc_note true) (c_holds c)).

(* the writer keeps a transliteration on one line: line feeds become blanks (repo commit fde22cd) *)
Definition written_chart (c : chart) (ut ua : text) : chart := written_chart_raw c (one_line ut) (one_line ua).

Definition all_present (d : dchart) : bool :=
  forallb (fun o => match o with Some _ => true | None => false end) (d_meta d)
  && match d_bg d with Some _ => true | None => false end.

(* specb for the write direction: the written lines are well-formed and denote the chart *)
Definition write_specb (tol : Q) (c : chart) (ut ua : text) (written : list text) : bool :=
  wf_osu_text written
  && match osu_denote written with
     | Some d => all_present d && denotes tol d (written_chart c ut ua)
     | None => false end.

(* declarative counterparts *)
Definition time_moved_toward_zero (orig new : Q) : Prop :=
  Qabs new <= Qabs orig /\ Qabs orig - Qabs new < 1 /\ (0 <= orig -> 0 <= new) /\ (orig <= 0 -> new <= 0).

(* no drift: two written generations denote the same chart *)
Definition same_denotation (tol : Q) (a b : list text) : bool :=
  match osu_denote a, osu_denote b with
  | Some d1, Some d2 =>
      list_eqb (fun x y => match x, y with
                           | None, None => true | Some v, Some w => mval_close tol v w | _, _ => false end)
               (d_meta d1) (d_meta d2)
      && match d_bg d1, d_bg d2 with Some x, Some y => text_eqb x y | None, None => true | _, _ => false end
      && list_eqb (sample_close 0) (d_samples d1) (d_samples d2)
      && list_eqb (bpm_close tol) (d_bpms d1) (d_bpms d2)
      && list_eqb (sv_close tol) (d_svs d1) (d_svs d2)
      && list_eqb (note_close 0) (d_hits d1) (d_hits d2)
      && list_eqb (note_close 0) (d_holds d1) (d_holds d2)
  | _, _ => false
  end.
Close Scope Q_scope.

(* ================================================================== whole-file theorems: domains *)
(* ------------------------------------------------------------------ the chart a denotation stands for *)
(* attributes the text does not mention keep the dataclass defaults *)
Definition realize_meta (d : list (option mval)) : list mval :=
  map (fun p : option mval * mval => match fst p with Some v => v | None => snd p end) (combine d meta_default).
Definition realize (d : dchart) : chart :=
  mkChart (realize_meta (d_meta d)) (match d_bg d with Some b => b | None => [] end) (d_samples d)
          (d_bpms d) (d_svs d) (d_hits d) (d_holds d).

(* ------------------------------------------------------------------ strict layout of the read dialect
   wf_read_text demands that the text DENOTES (every attribute's final value well typed, list lines well
   formed).  The reader is not section aware and classifies lines by shape, so the whole-file theorem
   needs in addition (each clause is necessary: see the *_refuted theorems in Proofs/OsuRead.v):
   before [TimingPoints]
   - every line whose key (text before the first colon, or the whole line) is one of the 30 attribute
     names stands in that attribute's section, has a colon and a well-typed value; Tags has no piece made
     only of non-blank white space;
   - the two [Events] marker comments occur only verbatim, inside [Events], at most once;
   - after the sample marker, a line starting with "Sample" starts with "Sample,";
   between [TimingPoints] and [HitObjects]
   - every timing line has the literal "0" or "1" as uninherited field; no line outside the
     [TimingPoints] body (i.e. in [Colours]) has the shape of a timing line. *)
Definition key_of (l : text) : text := match cut_first 58 l with Some (k, _) => k | None => l end.
Fixpoint key_entry (k : text) (tbl : list (text * text * vtype)) : option (text * vtype) :=
  match tbl with
  | [] => None
  | (sec, key, ty) :: r => if text_eqb k key then Some (sec, ty) else key_entry k r
  end.
Definition EVENTS := t "[Events]".
Definition BG_MARKER := t "//Background and Video events".
Definition SAMPLE_MARKER := t "//Storyboard Sound Samples".
Definition tags_plain (v : text) : bool :=
  forallb (fun p => negb (nonempty p) || nonempty (strip p)) (split_on 32 v).
Definition value_typed (ty : vtype) (v : text) : bool :=
  match typed_value ty v with Some _ => true | None => false end
  && match ty with TTags => tags_plain v | _ => true end.
Definition attr_line_ok (cur l : text) : bool :=
  let k := key_of l in
  match key_entry k key_table with
  | Some (sec, ty) =>
      text_eqb sec cur &&
      match cut_first 58 l with
      | Some (_, v) => value_typed ty v
      | None => false end
  | None => if text_eqb k BG_MARKER || text_eqb k SAMPLE_MARKER then text_eqb l k && text_eqb cur EVENTS else true
  end.
(* cur = the header of the section the line stands in ([] before the first header) *)
Fixpoint lines_in_place (cur : text) (ls : list text) : bool :=
  match ls with
  | [] => true
  | l :: r => if is_header l then lines_in_place l r else attr_line_ok cur l && lines_in_place cur r
  end.
(* lines before the first occurrence of h (all lines when there is none) *)
Fixpoint upto (h : text) (ls : list text) : list text :=
  match ls with
  | [] => []
  | l :: r => if text_eqb l h then [] else l :: upto h r
  end.
Definition occurrences (m : text) (ls : list text) : nat := length (filter (text_eqb m) ls).
Definition tp_shaped (l : text) : bool :=
  let f := split_on 44 l in
  (length f =? 8)%nat && match nth_text f 6 with Some u => text_eqb u (t "0") || text_eqb u (t "1") | None => false end.

Definition strict_read_text (lines0 : list text) : bool :=
  let ls := map strip lines0 in
  let pre := upto (t "[TimingPoints]") ls in
  let between := match after_line (t "[TimingPoints]") ls with Some r => upto (t "[HitObjects]") r | None => [] end in
  let body := take_body between in
  lines_in_place [] pre
  && (occurrences BG_MARKER pre <=? 1)%nat && (occurrences SAMPLE_MARKER pre <=? 1)%nat
  && match after_line SAMPLE_MARKER pre with
     | Some rest => forallb (fun l => negb (startswith (t "Sample") l) || startswith (t "Sample,") l) rest
     | None => true end
  && forallb tp_shaped (filter nonempty body)
  && forallb (fun l => negb (tp_shaped l)) (skipn (length body) between).

(* the read direction's domain *)
Definition read_domain (lines0 : list text) : bool := wf_read_text lines0 && strict_read_text lines0.

(* ------------------------------------------------------------------ domain of the write direction *)
Definition clean (s : text) : bool :=                    (* survives line splitting and strip *)
  negb (has 10 s) && negb (has 13 s) && text_eqb (strip s) s.
Definition field_ok (s : text) : bool := clean s && negb (has 44 s) && negb (has 58 s).
Definition note_ok (keys : Z) (n : note) : bool :=
  (0 <=? n_col n)%Z && (n_col n <? keys)%Z && field_ok (n_file n).
Definition mstr_ok (v : mval) : bool :=
  match v with
  | MStr s => clean s
  | MTags l => forallb (fun w => clean w && nonempty w && negb (has 32 w)) l
  | _ => true
  end.
(* every attribute holds a value of its own kind *)
Definition kind_ok (ty : vtype) (v : mval) : bool :=
  match ty, v with
  | TStr, MStr _ => true
  | TInt, MNum _ => true
  | TBool, MBool _ => true
  | TDec, MNum _ => true
  | TSampleSet, MNum _ => true
  | TTags, MTags _ => true
  | _, _ => false
  end.
Fixpoint kinds_ok (tbl : list (text * text * vtype)) (m : list mval) : bool :=
  match tbl, m with
  | [], [] => true
  | (_, _, ty) :: tbl', v :: m' => kind_ok ty v && kinds_ok tbl' m'
  | _, _ => false
  end.
Definition wf_chart (c : chart) : bool :=
  let m := c_meta c in
  let kq := meta_num m IX_CS in
  let keys := Qfloor kq in
  (length m =? 30)%nat && is_integral kq && (1 <=? keys)%Z && (keys <=? 18)%Z
  && forallb mstr_ok m
  && (let ss := meta_num m 4%nat in is_integral ss && Qle_bool (-1) ss && Qle_bool ss 3)
  && clean (c_bg c)
  && forallb (fun s => clean (sm_file s) && negb (has 44 (sm_file s))) (c_samples c)
  && forallb (fun b => negb (Qeq_bool (b_bpm b) 0)) (c_bpms c)
  && forallb (fun s => negb (Qeq_bool (s_mul s) 0)) (c_svs c)
  && forallb (note_ok keys) (c_hits c) && forallb (note_ok keys) (c_holds c).
(* the numbers of a chart that are written by a float printer (WN) / by an int printer (WI) *)
Definition wn_numbers (c : chart) : list Q :=
  let m := c_meta c in
  map (meta_num m) [5; 10; 13; 24; 25; 26; 27; 28; 29]%nat
  ++ flat_map (fun b => [b_off b; Qred (60000 / b_bpm b)]) (c_bpms c)
  ++ flat_map (fun s => [s_off s; Qred ((-100) / s_mul s)]) (c_svs c).
Definition wi_numbers (c : chart) : list Q := map (meta_num (c_meta c)) [1; 6; 11; 12; 22; 23]%nat.

(* the whole-file write theorems need in addition: attribute kinds, integral values of the int-typed attributes
   printed by str / ':g' (PreviewTime is int()-truncated like every time).  Nothing is demanded of the transliterations
   ut / ua any more: since repo commit fde22cd the writer replaces their line feeds by blanks (unidecode maps U+2028 /
   U+2029 to line feeds: see write_title_linefeed_OLD_refuted / _current); the arguments are kept for interface stability *)
Definition write_domain (c : chart) (ut ua : text) : bool :=
  wf_chart c && kinds_ok key_table (c_meta c) && forallb is_integral (wi_numbers c).

