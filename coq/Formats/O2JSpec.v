(* SPECIFICATION of the OJN format (DESIGN appendix B.5), written from the format rules, not from
   reamber's reader.

   A well-formed OJN byte string is [encode_file F ++ trailing] for an abstract file F:
   header field VALUES and, per difficulty, packages (measure, channel, slot count n, events).  The
   layout is given by the ENCODER below (what struct.pack lays down); what the file MEANS is given by
   [ojn_denote]: event i of n in a package of measure m sits at position m + i/n (in measures, 4 beats
   each); the time of a position is the integral of the beat length 60000/bpm over the header tempo
   from position 0 and every tempo event (channel 1) at or before it; channels 2..8 are columns 0..6;
   kind 0 = tap, 2 = long-note head, 3 = tail closing the open head of its column (across packages).
   Only the output record types are shared with the model. *)
From Coq Require Import ZArith QArith List Bool Permutation.
From RV Require Import Base.PyNum Base.Bytes Formats.O2J.
Import ListNotations.
Open Scope Q_scope.

(* ------------------------------------------------------------------ abstract file *)
Record fhdr := mkFHdr {
  fh_song_id : Z; fh_signature : list Z; fh_encode_version : Z (* binary32 bits *); fh_genre : Z;
  fh_bpm : Z (* binary32 bits *); fh_level : list Z; fh_event_count : list Z; fh_note_count : list Z;
  fh_measure_count : list Z; fh_old_encode_version : Z; fh_old_song_id : Z; fh_old_genre : list Z;
  fh_bmp_size : Z; fh_old_file_version : Z; fh_title : list Z; fh_artist : list Z; fh_noter : list Z;
  fh_ojm_file : list Z; fh_cover_size : Z; fh_time : list Z; fh_note_offset : list Z; fh_cover_offset : Z }.

(* events are sparse: (slot, 4 bytes), slots strictly increasing; absent slots are four zero bytes *)
Record fpkg := mkPkg { p_measure : Z; p_channel : Z; p_n : Z; p_events : list (Z * list Z) }.
Record ofile := mkFile { f_hdr : fhdr; f_levels : list (list fpkg) }.

(* the reference layout (B.5): (ord(struct letter), bytes, count) *)
Definition ref_layout : list (Z * Z * Z) :=
  [(105, 4, 1); (115, 4, 4); (102, 4, 1); (105, 4, 1); (102, 4, 1); (104, 8, 4);
   (105, 12, 3); (105, 12, 3); (105, 12, 3); (105, 12, 3); (104, 2, 1); (104, 2, 1); (115, 20, 20);
   (105, 4, 1); (105, 4, 1); (115, 64, 64); (115, 32, 32); (115, 32, 32); (115, 32, 32);
   (105, 4, 1); (105, 12, 3); (105, 12, 3); (105, 4, 1)]%Z.
Definition layout_total (l : list (Z * Z * Z)) : Z := fold_right (fun x acc => (snd (fst x) + acc)%Z) 0%Z l.
Definition ref_ch_tempo : Z := 1.
Definition ref_ch_col0 : Z := 2.
Definition ref_ch_col_last : Z := 8.
Definition ref_kind_tap : Z := 0.
Definition ref_kind_head : Z := 2.
Definition ref_kind_tail : Z := 3.

(* ------------------------------------------------------------------ the encoder = the layout *)
Definition pad (w : nat) (s : list Z) : list Z := s ++ repeat 0%Z (w - length s).

Definition encode_header (h : fhdr) (package_count : list Z) : list Z :=
  enc_int32 (fh_song_id h) ++ pad 4 (fh_signature h) ++ le_encode 4 (fh_encode_version h)
  ++ enc_int32 (fh_genre h) ++ le_encode 4 (fh_bpm h)
  ++ flat_map enc_int16 (fh_level h)
  ++ flat_map enc_int32 (fh_event_count h) ++ flat_map enc_int32 (fh_note_count h)
  ++ flat_map enc_int32 (fh_measure_count h) ++ flat_map enc_int32 package_count
  ++ enc_int16 (fh_old_encode_version h) ++ enc_int16 (fh_old_song_id h) ++ pad 20 (fh_old_genre h)
  ++ enc_int32 (fh_bmp_size h) ++ enc_int32 (fh_old_file_version h)
  ++ pad 64 (fh_title h) ++ pad 32 (fh_artist h) ++ pad 32 (fh_noter h) ++ pad 32 (fh_ojm_file h)
  ++ enc_int32 (fh_cover_size h) ++ flat_map enc_int32 (fh_time h) ++ flat_map enc_int32 (fh_note_offset h)
  ++ enc_int32 (fh_cover_offset h).

Fixpoint enc_events (n : nat) (i : Z) (sp : list (Z * list Z)) : list Z :=
  match n with
  | O => []
  | S k =>
      match sp with
      | (j, bs) :: sp' =>
          if (j =? i)%Z then bs ++ enc_events k (i + 1) sp'
          else [0; 0; 0; 0]%Z ++ enc_events k (i + 1) sp
      | [] => [0; 0; 0; 0]%Z ++ enc_events k (i + 1) []
      end
  end.

Definition encode_pkg (p : fpkg) : list Z :=
  enc_int32 (p_measure p) ++ enc_int16 (p_channel p) ++ enc_int16 (p_n p)
  ++ enc_events (Z.to_nat (p_n p)) 0 (p_events p).

Definition package_counts (f : ofile) : list Z := map (fun l => Z.of_nat (length l)) (f_levels f).

Definition encode_file (f : ofile) : list Z :=
  encode_header (f_hdr f) (package_counts f) ++ flat_map (flat_map encode_pkg) (f_levels f).

(* ------------------------------------------------------------------ meaning *)
(* position of slot i of n in measure m *)
Definition position (m i n : Z) : Q := Qred (inject_Z m + inject_Z i / inject_Z n).

(* time of position p: piecewise-linear integration of beat length over the tempo segments;
   [tempos] = (position, bpm) sorted by position; 4 beats per measure *)
Definition beat_ms (bpm : Q) : Q := 60000 / bpm.
Fixpoint ojn_time_go (t0 p0 bpm : Q) (tempos : list (Q * Q)) (p : Q) : Q :=
  match tempos with
  | (p1, b1) :: rest =>
      if Qle_bool p1 p then ojn_time_go (t0 + (p1 - p0) * 4 * beat_ms bpm) p1 b1 rest p
      else t0 + (p - p0) * 4 * beat_ms bpm
  | [] => t0 + (p - p0) * 4 * beat_ms bpm
  end.
Definition ojn_time (hdr_bpm : Q) (tempos : list (Q * Q)) (p : Q) : Q := ojn_time_go 0 0 hdr_bpm tempos p.

(* tempo events of a package of channel 1: float32 value, 0 = no event *)
Definition pkg_tempos (p : fpkg) : option (list (Q * Q)) :=
  if (p_channel p =? ref_ch_tempo)%Z then
    all_some (map (fun e => match le_float32 (snd e) with
                            | Some v => Some (position (p_measure p) (fst e) (p_n p), v)
                            | None => None end) (p_events p))
  else Some [].
Definition nonzero_tempos (l : list (Q * Q)) : list (Q * Q) := filter (fun t => negb (Qeq_bool (snd t) 0)) l.

(* note events of column c, in file order: (position, volume, pan, kind) of the enabled slots *)
Definition note_value (bs : list Z) : Z := match le_int16 (firstn 2 bs) with Some v => v | None => 0%Z end.
Definition pkg_notes (c : Z) (p : fpkg) : list (Q * Z * Z * Z) :=
  if (p_channel p =? ref_ch_col0 + c)%Z then
    flat_map (fun e => if (note_value (snd e) =? 0)%Z then []
                       else let vp := nth 2 (snd e) 0%Z in
                            [(position (p_measure p) (fst e) (p_n p), (vp / 16)%Z, (vp mod 16)%Z, nth 3 (snd e) 0%Z)])
             (p_events p)
  else [].

(* pairing inside one column: a tail closes the open head *)
Fixpoint pair_col (time : Q -> Q) (c : Z) (evs : list (Q * Z * Z * Z)) (open : option (Q * Z * Z))
  : list hitrow * list holdrow :=
  match evs with
  | [] => ([], [])
  | (p, vol, pan, kind) :: r =>
      if (kind =? ref_kind_tap)%Z then
        let '(hs, ls) := pair_col time c r open in (mkHit c (Qred (time p)) vol pan :: hs, ls)
      else if (kind =? ref_kind_head)%Z then pair_col time c r (Some (p, vol, pan))
      else if (kind =? ref_kind_tail)%Z then
        match open with
        | Some (hp, hvol, hpan) =>
            let '(hs, ls) := pair_col time c r None in
            (hs, mkHold c (Qred (time hp)) (Qred (time p - time hp)) hvol hpan :: ls)
        | None => pair_col time c r None
        end
      else pair_col time c r open
  end.

Definition columns : list Z := [0; 1; 2; 3; 4; 5; 6]%Z.

Definition denote_level (hdr_bpm : Q) (pkgs : list fpkg) : option omap :=
  match all_some (map pkg_tempos pkgs) with
  | None => None
  | Some ts =>
      let tempos := sort_by fst (nonzero_tempos (concat ts)) in
      let time := ojn_time hdr_bpm tempos in
      let per_col := map (fun c => pair_col time c (flat_map (pkg_notes c) pkgs) None) columns in
      Some (mkOMap (flat_map fst per_col) (flat_map snd per_col)
                   (mkBpm 0 hdr_bpm :: map (fun t => mkBpm (Qred (time (fst t))) (snd t)) tempos))
  end.

(* header strings: the C string (up to the first NUL) with the non-ASCII bytes dropped
   (reamber documents ascii / errors=ignore) *)
Fixpoint cstring (l : list Z) : list Z :=
  match l with [] => [] | b :: r => if (b =? 0)%Z then [] else b :: cstring r end.
Definition ascii_only (l : list Z) : list Z := filter (fun b => (b <? 128)%Z) l.
Definition str_value (l : list Z) : list Z := ascii_only (cstring l).

Definition denote_hdr (h : fhdr) (package_count : list Z) : option ohdr :=
  match f32_of_bits (fh_encode_version h), f32_of_bits (fh_bpm h) with
  | Some ev, Some bpm =>
      Some (mkOHdr (fh_song_id h) (str_value (fh_signature h)) ev (fh_genre h) bpm (fh_level h)
              (fh_event_count h) (fh_note_count h) (fh_measure_count h) package_count
              (fh_old_encode_version h) (fh_old_song_id h) (pad 20 (fh_old_genre h)) (fh_bmp_size h)
              (fh_old_file_version h) (str_value (fh_title h)) (str_value (fh_artist h))
              (str_value (fh_noter h)) (str_value (fh_ojm_file h)) (fh_cover_size h) (fh_time h)
              (fh_note_offset h) (fh_cover_offset h))
  | _, _ => None
  end.

Definition ojn_denote (f : ofile) : option oset :=
  match denote_hdr (f_hdr f) (package_counts f) with
  | None => None
  | Some h =>
      match all_some (map (denote_level (oh_bpm h)) (f_levels f)) with
      | None => None
      | Some ms => Some (mkOSet h ms)
      end
  end.

(* ------------------------------------------------------------------ well-formedness *)
Definition in_i32 (z : Z) : bool := (- 2 ^ 31 <=? z)%Z && (z <? 2 ^ 31)%Z.
Definition in_i16 (z : Z) : bool := (- 2 ^ 15 <=? z)%Z && (z <? 2 ^ 15)%Z.
Definition str_ok (w : nat) (s : list Z) : bool :=
  (length s <=? w)%nat && forallb (fun b => (0 <? b)%Z && (b <? 256)%Z) s.
Definition f32_finite (w : Z) : bool := (0 <=? w)%Z && (w <? 2 ^ 32)%Z && negb (f32_exp w =? 255)%Z.
Definition ilist_ok (n : nat) (l : list Z) : bool := (length l =? n)%nat && forallb in_i32 l.

Definition wf_hdr (h : fhdr) : bool :=
  in_i32 (fh_song_id h) && str_ok 4 (fh_signature h) && f32_finite (fh_encode_version h)
  && in_i32 (fh_genre h) && f32_finite (fh_bpm h)
  && ((length (fh_level h) =? 4)%nat && forallb in_i16 (fh_level h))
  && ilist_ok 3 (fh_event_count h) && ilist_ok 3 (fh_note_count h) && ilist_ok 3 (fh_measure_count h)
  && in_i16 (fh_old_encode_version h) && in_i16 (fh_old_song_id h)
  && ((length (fh_old_genre h) <=? 20)%nat && bytes_ok (fh_old_genre h))
  && in_i32 (fh_bmp_size h) && in_i32 (fh_old_file_version h)
  && str_ok 64 (fh_title h) && str_ok 32 (fh_artist h) && str_ok 32 (fh_noter h) && str_ok 32 (fh_ojm_file h)
  && in_i32 (fh_cover_size h) && ilist_ok 3 (fh_time h) && ilist_ok 3 (fh_note_offset h)
  && in_i32 (fh_cover_offset h).

Fixpoint sparse_ok (lo n : Z) (sp : list (Z * list Z)) : bool :=
  match sp with
  | [] => true
  | (j, bs) :: r => (lo <=? j)%Z && (j <? n)%Z && (length bs =? 4)%nat && bytes_ok bs && sparse_ok (j + 1) n r
  end.

Definition wf_pkg (p : fpkg) : bool :=
  (0 <=? p_measure p)%Z && (p_measure p <? 2 ^ 31)%Z
  && (1 <=? p_channel p)%Z && (p_channel p <=? 22)%Z     (* channel 0 = measure fraction: excluded by C07 *)
  && (0 <=? p_n p)%Z && (p_n p <? 2 ^ 15)%Z
  && sparse_ok 0 (p_n p) (p_events p).

(* tempo values are finite and, when present, positive; positions of tempo events pairwise distinct *)
Fixpoint distinct_q (l : list Q) : bool :=
  match l with [] => true | x :: r => negb (existsb (Qeq_bool x) r) && distinct_q r end.
Definition wf_tempos (pkgs : list fpkg) : bool :=
  match all_some (map pkg_tempos pkgs) with
  | None => false
  | Some ts => forallb (fun t => Qle_bool 0 (snd t)) (concat ts)
               && distinct_q (map fst (nonzero_tempos (concat ts)))
  end.

(* per column: packages in strictly increasing measure order in the file (so file order is position
   order), kinds 0/2/3, heads and tails alternate, nothing left open at the end of the difficulty *)
Fixpoint incr_measures (prev : Z) (ms : list Z) : bool :=
  match ms with [] => true | m :: r => (prev <? m)%Z && incr_measures m r end.
Fixpoint pairing_ok (evs : list (Q * Z * Z * Z)) (open : bool) : bool :=
  match evs with
  | [] => negb open
  | (_, _, _, kind) :: r =>
      if (kind =? ref_kind_tap)%Z then pairing_ok r open
      else if (kind =? ref_kind_head)%Z then negb open && pairing_ok r true
      else if (kind =? ref_kind_tail)%Z then open && pairing_ok r false
      else false
  end.
Definition wf_column (pkgs : list fpkg) (c : Z) : bool :=
  incr_measures (-1) (map p_measure (filter (fun p => (p_channel p =? ref_ch_col0 + c)%Z) pkgs))
  && pairing_ok (flat_map (pkg_notes c) pkgs) false.

Definition wf_level (pkgs : list fpkg) : bool :=
  forallb wf_pkg pkgs && wf_tempos pkgs && forallb (wf_column pkgs) columns.

Definition hdr_bpm_pos (h : fhdr) : bool :=
  match f32_of_bits (fh_bpm h) with Some b => Qlt_bool 0 b | None => false end.

Definition wf_file (f : ofile) : bool :=
  wf_hdr (f_hdr f) && hdr_bpm_pos (f_hdr f) && ilist_ok 3 (package_counts f)   (* 3 difficulties, counts fit int32 *)
  && forallb wf_level (f_levels f).

(* ------------------------------------------------------------------ comparing outputs *)
Definition q_close (tol a b : Q) : bool := Qle_bool (Qabs.Qabs (a - b)) tol.
Fixpoint zlist_eqb (a b : list Z) : bool :=
  match a, b with
  | [], [] => true
  | x :: a', y :: b' => (x =? y)%Z && zlist_eqb a' b'
  | _, _ => false
  end.

Definition hdr_eqb (a b : ohdr) : bool :=
  (oh_song_id a =? oh_song_id b)%Z && zlist_eqb (oh_signature a) (oh_signature b)
  && Qeq_bool (oh_encode_version a) (oh_encode_version b) && (oh_genre a =? oh_genre b)%Z
  && Qeq_bool (oh_bpm a) (oh_bpm b) && zlist_eqb (oh_level a) (oh_level b)
  && zlist_eqb (oh_event_count a) (oh_event_count b) && zlist_eqb (oh_note_count a) (oh_note_count b)
  && zlist_eqb (oh_measure_count a) (oh_measure_count b) && zlist_eqb (oh_package_count a) (oh_package_count b)
  && (oh_old_encode_version a =? oh_old_encode_version b)%Z && (oh_old_song_id a =? oh_old_song_id b)%Z
  && zlist_eqb (oh_old_genre a) (oh_old_genre b) && (oh_bmp_size a =? oh_bmp_size b)%Z
  && (oh_old_file_version a =? oh_old_file_version b)%Z && zlist_eqb (oh_title a) (oh_title b)
  && zlist_eqb (oh_artist a) (oh_artist b) && zlist_eqb (oh_creator a) (oh_creator b)
  && zlist_eqb (oh_ojm_file a) (oh_ojm_file b) && (oh_cover_size a =? oh_cover_size b)%Z
  && zlist_eqb (oh_duration a) (oh_duration b) && zlist_eqb (oh_note_offset a) (oh_note_offset b)
  && (oh_cover_offset a =? oh_cover_offset b)%Z.

Definition hit_close (tol : Q) (a b : hitrow) : bool :=
  (h_col a =? h_col b)%Z && q_close tol (h_off a) (h_off b) && (h_vol a =? h_vol b)%Z && (h_pan a =? h_pan b)%Z.
Definition hold_close (tol : Q) (a b : holdrow) : bool :=
  (l_col a =? l_col b)%Z && q_close tol (l_off a) (l_off b) && q_close (tol + tol) (l_len a) (l_len b)
  && (l_vol a =? l_vol b)%Z && (l_pan a =? l_pan b)%Z.
Definition bpm_close (tol : Q) (a b : bpmrow) : bool :=
  q_close tol (b_off a) (b_off b) && Qeq_bool (b_bpm a) (b_bpm b).

(* rows up to permutation: every row of [a] is matched with a distinct close row of [b], none left *)
Fixpoint remove_first {A} (p : A -> bool) (l : list A) : option (list A) :=
  match l with
  | [] => None
  | x :: r => if p x then Some r else match remove_first p r with Some r' => Some (x :: r') | None => None end
  end.
Fixpoint ms_match {A} (close : A -> A -> bool) (a b : list A) : bool :=
  match a with
  | [] => match b with [] => true | _ => false end
  | x :: a' => match remove_first (close x) b with Some b' => ms_match close a' b' | None => false end
  end.

Definition map_close_gen (hc : holdrow -> holdrow -> bool) (tol : Q) (a b : omap) : bool :=
  ms_match (hit_close tol) (om_hits a) (om_hits b)
  && ms_match hc (om_holds a) (om_holds b)
  && ms_match (bpm_close tol) (om_bpms a) (om_bpms b).
Definition map_close (tol : Q) := map_close_gen (hold_close tol) tol.
Fixpoint maps_close_gen (mc : omap -> omap -> bool) (a b : list omap) : bool :=
  match a, b with
  | [], [] => true
  | x :: a', y :: b' => mc x y && maps_close_gen mc a' b'
  | _, _ => false
  end.
Definition maps_close (tol : Q) := maps_close_gen (map_close tol).
Definition oset_close (tol : Q) (a b : oset) : bool :=
  hdr_eqb (os_hdr a) (os_hdr b) && maps_close tol (os_maps a) (os_maps b).

(* the oracle: the output is what the file denotes (rows up to permutation, times within tol) *)
Definition specb (tol : Q) (f : ofile) (out : option oset) : bool :=
  match ojn_denote f, out with
  | Some d, Some o => oset_close tol d o
  | _, _ => false
  end.

(* declarative form *)
Definition rows_match {A} (R : A -> A -> Prop) (a b : list A) : Prop :=
  exists b', Permutation b b' /\ Forall2 R a b'.
Definition map_matches (tol : Q) (a b : omap) : Prop :=
  rows_match (fun x y => hit_close tol x y = true) (om_hits a) (om_hits b)
  /\ rows_match (fun x y => hold_close tol x y = true) (om_holds a) (om_holds b)
  /\ rows_match (fun x y => bpm_close tol x y = true) (om_bpms a) (om_bpms b).
Definition OjnSpec (tol : Q) (f : ofile) (out : option oset) : Prop :=
  exists d o, ojn_denote f = Some d /\ out = Some o
    /\ hdr_eqb (os_hdr d) (os_hdr o) = true /\ Forall2 (map_matches tol) (os_maps d) (os_maps o).
