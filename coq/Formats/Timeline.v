(* C09 — the common TIMELINE of a chart, the adapters from each format's denotation, and the comparison.
   Definitions only (proofs in Proofs/PipelineProofs.v).

   A timeline is what every one of the five games has: notes (hit / hold, column, time in ms, length in ms) and tempo
   points (time in ms, bpm).  Everything else a format can say (scroll velocities, key sounds, samples, StepMania's
   rolls / mines / lifts / fakes / keysounds, metadata) is outside it: the converters either carry it as metadata or
   drop it, and C09 speaks of "objects, columns and tempo timeline" only.

   The adapters read the DENOTATIONS of the reference interpreters (OsuSpec.osu_denote, QuaSpec.qua_denote,
   SMSpec.sm_denote, BMSSpec.bms_denote, O2JSpec.ojn_denote) - never reamber's charts.

   timeline_close r e a b : the notes of a and b are the same multiset up to  kind and column equal, start within r,
   end within r;  the tempo points are the same multiset up to  time within r, bpm within e.
   timeline_close_by rf e a b : the same with a bound rf t that depends on the time t of the element of b (the
   reference side), used for beat resolutions "at the local tempo". *)
From Coq Require Import ZArith QArith Qround Qabs List Bool Permutation.
From RV Require Import Base.PyNum.
From RV Require Formats.Osu Formats.OsuSpec Formats.Qua Formats.QuaSpec Formats.SM Formats.SMSpec Formats.BMSSpec
  Formats.O2J Formats.O2JSpec.
Import ListNotations.
Open Scope Q_scope.

Record tnote := mkTN { tn_hold : bool; tn_col : Z; tn_time : Q; tn_len : Q }.
Definition tpoint := (Q * Q)%type.                              (* time (ms), bpm *)
Record timeline := mkTL { tl_notes : list tnote; tl_tempo : list tpoint }.

Definition tn_end (n : tnote) : Q := tn_time n + tn_len n.

(* ------------------------------------------------------------------ adapters *)
Definition tl_of_osu (d : OsuSpec.dchart) : timeline :=
  mkTL (map (fun n => mkTN false (Osu.n_col n) (Osu.n_off n) 0) (OsuSpec.d_hits d)
        ++ map (fun n => mkTN true (Osu.n_col n) (Osu.n_off n) (Osu.n_len n)) (OsuSpec.d_holds d))
       (map (fun b => (Osu.b_off b, Osu.b_bpm b)) (OsuSpec.d_bpms d)).

(* Quaver: lane l is column l - 1; a note with an EndTime is a hold *)
Definition tn_of_qua (n : QuaSpec.noteD) : tnote :=
  match QuaSpec.n_end n with
  | None => mkTN false (QuaSpec.n_lane n - 1) (QuaSpec.n_start n) 0
  | Some e => mkTN true (QuaSpec.n_lane n - 1) (QuaSpec.n_start n) (e - QuaSpec.n_start n)
  end.
Definition tl_of_qua (d : QuaSpec.den) : timeline :=
  mkTL (map tn_of_qua (QuaSpec.d_notes d)) (QuaSpec.d_bpms d).

(* StepMania: chart k of the file; taps and holds only (rolls, mines, lifts, fakes and keysounds have no counterpart in
   the other games and are outside the common timeline); the tempo changes of the file at their millisecond positions *)
Definition tn_of_sm (n : SMSpec.dnote) : list tnote :=
  match SMSpec.dn_kind n with
  | SM.KHit => [mkTN false (SMSpec.dn_col n) (SMSpec.dn_time n) 0]
  | SM.KHold => [mkTN true (SMSpec.dn_col n) (SMSpec.dn_time n) (SMSpec.dn_len n)]
  | _ => []
  end.
Definition tl_of_sm_chart (d : SMSpec.dfile) (c : SMSpec.dchart) : timeline :=
  mkTL (flat_map tn_of_sm (SMSpec.d_notes c))
       (map (fun tp : Q * Q * Q => (snd tp, snd (fst tp))) (SMSpec.d_tempo d)).
Definition tl_of_sm (d : SMSpec.dfile) (k : nat) : option timeline :=
  option_map (tl_of_sm_chart d) (nth_error (SMSpec.d_charts d) k).

Definition tl_of_bms (d : BMSSpec.denotation) : timeline :=
  mkTL (map (fun h => mkTN false (BMSSpec.sh_col h) (BMSSpec.sh_time h) 0) (BMSSpec.d_hits d)
        ++ map (fun h => mkTN true (BMSSpec.sl_col h) (BMSSpec.sl_time h) (BMSSpec.sl_len h)) (BMSSpec.d_holds d))
       (BMSSpec.d_tempo d).

(* O2Jam: one difficulty *)
Definition tl_of_omap (m : O2J.omap) : timeline :=
  mkTL (map (fun h => mkTN false (O2J.h_col h) (O2J.h_off h) 0) (O2J.om_hits m)
        ++ map (fun h => mkTN true (O2J.l_col h) (O2J.l_off h) (O2J.l_len h)) (O2J.om_holds m))
       (map (fun b => (O2J.b_off b, O2J.b_bpm b)) (O2J.om_bpms m)).
Definition tl_of_o2j (s : O2J.oset) (k : nat) : option timeline :=
  option_map tl_of_omap (nth_error (O2J.os_maps s) k).

(* the documented column shift of the BMS converters (move_right_by) *)
Definition tl_shift (s : Z) (t : timeline) : timeline :=
  mkTL (map (fun n => mkTN (tn_hold n) (tn_col n + s)%Z (tn_time n) (tn_len n)) (tl_notes t)) (tl_tempo t).

(* ------------------------------------------------------------------ the comparison (declarative) *)
Definition ms_rel {A} (R : A -> A -> Prop) (a b : list A) : Prop :=
  exists b', Permutation b b' /\ Forall2 R a b'.

Definition note_close (r : Q) (a b : tnote) : Prop :=
  tn_hold a = tn_hold b /\ tn_col a = tn_col b /\ Qabs (tn_time a - tn_time b) <= r /\ Qabs (tn_end a - tn_end b) <= r.
Definition tempo_close (r e : Q) (a b : tpoint) : Prop :=
  Qabs (fst a - fst b) <= r /\ Qabs (snd a - snd b) <= e.
Definition timeline_close (r e : Q) (a b : timeline) : Prop :=
  ms_rel (note_close r) (tl_notes a) (tl_notes b) /\ ms_rel (tempo_close r e) (tl_tempo a) (tl_tempo b).

(* bound depending on the time of the reference element (second argument) *)
Definition note_close_by (rf : Q -> Q) (a b : tnote) : Prop :=
  tn_hold a = tn_hold b /\ tn_col a = tn_col b /\ Qabs (tn_time a - tn_time b) <= rf (tn_time b)
  /\ Qabs (tn_end a - tn_end b) <= rf (tn_end b).
Definition tempo_close_by (rf : Q -> Q) (e : Q) (a b : tpoint) : Prop :=
  Qabs (fst a - fst b) <= rf (fst b) /\ Qabs (snd a - snd b) <= e.
Definition timeline_close_by (rf : Q -> Q) (e : Q) (a b : timeline) : Prop :=
  ms_rel (note_close_by rf) (tl_notes a) (tl_notes b) /\ ms_rel (tempo_close_by rf e) (tl_tempo a) (tl_tempo b).

(* ------------------------------------------------------------------ the comparison (boolean, evaluated by the runner) *)
Definition q_within (r a b : Q) : bool := Qle_bool (Qabs (a - b)) r.

Definition note_close_byb (rf : Q -> Q) (a b : tnote) : bool :=
  Bool.eqb (tn_hold a) (tn_hold b) && (tn_col a =? tn_col b)%Z
  && q_within (rf (tn_time b)) (tn_time a) (tn_time b) && q_within (rf (tn_end b)) (tn_end a) (tn_end b).
Definition tempo_close_byb (rf : Q -> Q) (e : Q) (a b : tpoint) : bool :=
  q_within (rf (fst b)) (fst a) (fst b) && q_within e (snd a) (snd b).

(* multiset matching: every element of [a] takes the first not yet taken element of [b] it is related to *)
Fixpoint take_first {A} (p : A -> bool) (l : list A) : option (A * list A) :=
  match l with
  | [] => None
  | y :: l' => if p y then Some (y, l')
               else match take_first p l' with Some (z, r) => Some (z, y :: r) | None => None end
  end.
Fixpoint ms_matchb {A} (rel : A -> A -> bool) (a b : list A) : bool :=
  match a with
  | [] => match b with [] => true | _ => false end
  | x :: a' => match take_first (rel x) b with Some (_, b') => ms_matchb rel a' b' | None => false end
  end.

Definition timeline_close_byb (rf : Q -> Q) (e : Q) (a b : timeline) : bool :=
  ms_matchb (note_close_byb rf) (tl_notes a) (tl_notes b)
  && ms_matchb (tempo_close_byb rf e) (tl_tempo a) (tl_tempo b).
Definition timeline_closeb (r e : Q) (a b : timeline) : bool := timeline_close_byb (fun _ => r) e a b.

(* ------------------------------------------------------------------ tempo normalisation and local beat length *)
(* the tempo points in time order (stable); of several points at one time only the last one governs anything *)
Fixpoint insert_tp (x : tpoint) (l : list tpoint) : list tpoint :=
  match l with
  | [] => [x]
  | y :: l' => if Qlt_bool (fst x) (fst y) then x :: l else y :: insert_tp x l'
  end.
Definition sort_tp (l : list tpoint) : list tpoint := fold_left (fun acc x => insert_tp x acc) l [].
Fixpoint drop_superseded (l : list tpoint) : list tpoint :=
  match l with
  | a :: ((b :: _) as r) => if Qeq_bool (fst a) (fst b) then drop_superseded r else a :: drop_superseded r
  | _ => l
  end.
Definition norm_tempo (l : list tpoint) : list tpoint := drop_superseded (sort_tp l).
Definition tl_norm (t : timeline) : timeline := mkTL (tl_notes t) (norm_tempo (tl_tempo t)).

(* beat length (ms) in force at time t: the last tempo point at or before t; before the first point, the first *)
Fixpoint bl_go (cur : Q) (l : list tpoint) (t : Q) : Q :=
  match l with
  | p :: r => if Qle_bool (fst p) t then bl_go (60000 / snd p) r t else cur
  | [] => cur
  end.
Definition bl_at (tempo : list tpoint) (t : Q) : Q :=
  match tempo with
  | [] => 0
  | p :: r => bl_go (60000 / snd p) r t
  end.
(* the largest beat length in force within one 1/96-beat step of t *)
Definition bl_near (tempo : list tpoint) (t : Q) : Q :=
  let b := bl_at tempo t in
  Qmax' b (Qmax' (bl_at tempo (t + b / 96)) (bl_at tempo (t - b / 96))).

(* ------------------------------------------------------------------ resolutions *)
Inductive fmt := FOsu | FQua | FSM | FBms | FO2j.
(* the time resolution of a format at time t (ms), over the tempo points of the SOURCE timeline:
   osu / Quaver store whole milliseconds (reamber's writers truncate): 1 ms;
   StepMania: 1/96 beat (at most 384 rows per 4-beat measure); BMS: 1/192 beat; at the local tempo;
   O2Jam (never a target): a position is an exact rational i/n, no format-level resolution: 0 *)
Definition res_of (f : fmt) (tempo : list tpoint) (t : Q) : Q :=
  match f with
  | FOsu | FQua => 1
  | FSM => bl_near tempo t / 96
  | FBms => bl_near tempo t / 192
  | FO2j => 0
  end.
Definition res_pair (a b : fmt) (tempo : list tpoint) (slack : Q) (t : Q) : Q :=
  Qred (Qmax' (res_of a tempo t) (res_of b tempo t) + slack).

(* ------------------------------------------------------------------ the property on one written target *)
(* src : the (column-shifted) source timeline, tgt : the target timeline; both normalised by the caller *)
Definition c09_timeline_ok (a b : fmt) (slack e : Q) (src tgt : timeline) : bool :=
  timeline_close_byb (res_pair a b (tl_tempo src) slack) e tgt src.
